module verif

go 1.16

require (
	github.com/tikv/pd v0.0.0
	go.etcd.io/etcd v0.5.0-alpha.5.0.20191023171146-3cf2f69b5738
	google.golang.org/grpc v1.26.0
)

replace github.com/tikv/pd => /repo
