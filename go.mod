module verif

go 1.16

require (
	github.com/coreos/go-semver v0.3.0
	github.com/gogo/protobuf v1.3.1
	github.com/pingcap/kvproto v0.0.0-20210604082642-dda0a102bc6a
	github.com/pingcap/log v0.0.0-20210317133921-96f4fcab92a4
	github.com/tikv/pd v0.0.0
	go.etcd.io/etcd v0.5.0-alpha.5.0.20191023171146-3cf2f69b5738
	go.uber.org/zap v1.16.0
	google.golang.org/grpc v1.26.0
)

replace github.com/tikv/pd => /repo
