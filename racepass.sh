#!/bin/bash
# racepass.sh [IDs...]: the free-running pass that goes with engine A (DESIGN 9.5). For every check with
# scheduler-driven scenarios the same harness bodies run as ordinary goroutines in a -race build
# (VERIF_FREE_RUNS times per scenario, default 10); racepass/<ID>.json lists the unsynchronised accesses
# the race detector saw inside pd. Auxiliary: it decides no property and always exits 0.
cd /verif
ids=${@:-C01 C02 C03 C04 C05 C06 C09 C14 C15 C20}
for c in $ids; do
  timeout ${VERIF_RACE_TIMEOUT:-1500} env VERIF_FREE_RUNS=${VERIF_FREE_RUNS:-10} ./run.sh $c race 2>&1 | grep "race pass\|^  pd:"
done
exit 0
