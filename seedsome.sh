#!/bin/bash
# seedsome.sh <out.tsv> <seed names...>: like seedall.sh for the named seeded changes only.
cd /verif
out=$1; shift
: > $out
for name in "$@"; do
  d=seeded/$name
  [ -f $d/patch.diff ] || continue
  id=$(echo $name | sed 's/-.*//' | tr 'a-z' 'A-Z')
  for chk in $id $(cat $d/also 2>/dev/null); do
    res=$(./seedrun.sh $name $chk 2>&1)
    rc=$(echo "$res" | grep -o 'exit=[0-9]*' | tail -1 | cut -d= -f2)
    key=$(echo "$res" | grep -o 'key=[^ ]*' | head -1 | cut -d= -f2)
    echo -e "$name\t$chk\t$rc\t$key" >> $out
  done
done
