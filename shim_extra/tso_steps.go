// Added to package server/tso by the overlay (rewrite option extra=): drives the campaign steps that
// the rewriter generates from the current source of campaignAllocatorLeader (option steps=), so that
// the election of a local allocator leader runs the real function body and not a restatement of it.
package tso

import (
	"context"
	"fmt"
)

// VerifBecomeAllocatorLeaderReal performs one round of allocatorLeaderLoop for a dc-location whose
// allocator has no leader: ask the PD leader for the dc-location info (with the loop's guards), then
// everything campaignAllocatorLeader does before its ticker loop (without the keep-alive goroutine).
func (am *AllocatorManager) VerifBecomeAllocatorLeaderReal(ctx context.Context, dcLocation string) error {
	ag, ok := am.getAllocatorGroup(dcLocation)
	if !ok {
		return fmt.Errorf("%s allocator not set up", dcLocation)
	}
	allocator := ag.allocator.(*LocalTSOAllocator)
	ok, dcLocationInfo, err := am.getDCLocationInfoFromLeader(ctx, dcLocation)
	if err != nil {
		return err
	}
	if !ok || dcLocationInfo.Suffix <= 0 || dcLocationInfo.MaxTs == nil {
		return fmt.Errorf("pd leader is not aware of dc-location %s", dcLocation)
	}
	am.campaignAllocatorLeaderVerifSteps(ctx, allocator, dcLocationInfo, false)
	if !allocator.IsAllocatorLeader() {
		return fmt.Errorf("the campaign for the allocator leadership of %s did not succeed", dcLocation)
	}
	return nil
}
