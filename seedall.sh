#!/bin/bash
# seedall.sh [shard nshards]: run every seeded change against the check of its property (and the extra checks
# listed in seeded/<name>/also) and write seeded/RESULTS.tsv: name, check, exit code, first violation key.
# With shard arguments only every nshards-th change is run and the rows go to seeded/RESULTS.<shard>.tsv
# (merge: cat seeded/RESULTS.*.tsv | sort > seeded/RESULTS.tsv).
cd /verif
shard=${1:-0}; n=${2:-1}
out=seeded/RESULTS.tsv
[ $n -gt 1 ] && out=seeded/RESULTS.$shard.tsv
: > $out
i=0
for d in seeded/*/; do
  name=$(basename $d)
  [ -f $d/patch.diff ] || continue
  i=$((i+1))
  [ $((i % n)) -eq $shard ] || continue
  id=$(echo $name | sed 's/-.*//' | tr 'a-z' 'A-Z')
  for chk in $id $(cat $d/also 2>/dev/null); do
    res=$(./seedrun.sh $name $chk 2>&1)
    rc=$(echo "$res" | grep -o 'exit=[0-9]*' | tail -1 | cut -d= -f2)
    key=$(echo "$res" | grep -o 'key=[^ ]*' | head -1 | cut -d= -f2)
    echo -e "$name\t$chk\t$rc\t$key" >> $out
  done
done
[ $n -gt 1 ] || cat $out
