#!/bin/bash
# seedall.sh: run every seeded change against the check of its property (and extra checks listed in
# seeded/<name>/also) and write seeded/RESULTS.tsv: name, check, exit code, first violation key.
cd /verif
out=seeded/RESULTS.tsv
: > $out
for d in seeded/*/; do
  n=$(basename $d)
  [ -f $d/patch.diff ] || continue
  id=$(echo $n | sed 's/-.*//' | tr 'a-z' 'A-Z')
  for chk in $id $(cat $d/also 2>/dev/null); do
    res=$(./seedrun.sh $n $chk 2>&1)
    rc=$(echo "$res" | grep -o 'exit=[0-9]*' | tail -1 | cut -d= -f2)
    key=$(echo "$res" | grep -o 'key=[^ ]*' | head -1 | cut -d= -f2)
    [ -z "$key" ] && key=$(echo "$res" | grep -A1 '^VIOLATION' | grep -o 'key=[^ ]*' | head -1)
    echo -e "$n\t$chk\t$rc\t$key" >> $out
  done
done
cat $out
