#!/bin/bash
# seedcollect.sh <NN> : copy the round-3 outputs of property CNN from /tmp/wt/r3-cNN-out into seeded/, remove the worktree
n=$1
for v in v3 v4; do
  src=/tmp/wt/r3-c$n-out/$v
  [ -f $src/patch.diff ] || continue
  dst=/verif/seeded/c$n-$v
  mkdir -p $dst
  cp $src/patch.diff $src/meta.json $dst/ 2>/dev/null
  cp $src/demo* $dst/ 2>/dev/null
done
git -C /repo worktree remove --force /tmp/wt/r3-c$n 2>/dev/null
rm -rf /tmp/wt/r3-c$n-out
ls /verif/seeded | grep "^c$n-"
