#!/bin/bash
# seedcollect.sh <NN> [round] : copy the outputs of a seed-producing sub-agent for property CNN from
# /tmp/wt/r<round>-cNN-out into seeded/ (round 3 -> v3,v4; round 4 -> v5,v6), remove its worktree
n=$1; r=${2:-3}
a=$((2*r-3)); b=$((2*r-2))
for v in v$a v$b; do
  src=/tmp/wt/r$r-c$n-out/$v
  [ -f $src/patch.diff ] || continue
  dst=/verif/seeded/c$n-$v
  mkdir -p $dst
  cp $src/patch.diff $src/meta.json $dst/ 2>/dev/null
  cp $src/demo* $dst/ 2>/dev/null
done
git -C /repo worktree remove --force /tmp/wt/r$r-c$n 2>/dev/null
rm -rf /tmp/wt/r$r-c$n-out
ls /verif/seeded | grep "^c$n-" | tr '\n' ' '; echo
