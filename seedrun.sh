#!/bin/bash
# seedrun.sh <seeded-dir-name> <ID> [args...]: run check <ID> (quick) against a seeded change WITHOUT touching /repo:
# the patch is applied in a scratch worktree of /repo's HEAD and the changed files are overlaid with VERIF_MUTATE.
set -u
S=/verif/seeded/$1; shift
ID=$1; shift
W=/tmp/seedwt-$$
git -C /repo worktree add -q --detach $W HEAD || exit 2
trap 'git -C /repo worktree remove --force $W >/dev/null 2>&1; rm -rf $W' EXIT
P=$S/patch.diff; [ -f $S/patch.rebased.diff ] && P=$S/patch.rebased.diff
(cd $W && (git apply $P 2>/dev/null || git apply --3way $P)) || { echo "PATCH DOES NOT APPLY"; exit 3; }
M=""
for f in $(cd $W && git status --porcelain | awk '{print $2}'); do M="$M,$f=$W/$f"; done
M=${M#,}
cd /verif
# the run rewrites evidence/<ID>.json: keep the one of the unchanged tree
EV=/verif/evidence/$ID.json; [ -f $EV ] && cp $EV $W.evidence.json
VERIF_MUTATE="$M" ./run.sh $ID quick "$@" 2>&1 | grep -v "exhaustive=true\|^KNOWN-FINDING\|^NOTE \|^  (C09 suspicion" | awk "NR<=12"
rc=${PIPESTATUS[0]}
[ -f $W.evidence.json ] && mv $W.evidence.json $EV
echo "exit=$rc"
