#!/bin/bash
# seedrun.sh <seeded-dir-name> <ID> [args...]: apply a seeded change to /repo, run the check, undo.
set -u
S=/verif/seeded/$1; shift
ID=$1; shift
cd /repo
if [ -n "$(git status --porcelain --untracked-files=no)" ]; then echo "repo dirty"; exit 2; fi
P=$S/patch.diff; [ -f $S/patch.rebased.diff ] && P=$S/patch.rebased.diff
git apply $P 2>/dev/null || git apply --3way $P || { echo "PATCH DOES NOT APPLY"; git checkout -- .; exit 3; }
git reset -q
cd /verif
./run.sh $ID quick "$@" 2>&1 | grep -v "exhaustive=true" | head -12
rc=${PIPESTATUS[0]}
git -C /repo checkout -- .
echo "exit=$rc"
