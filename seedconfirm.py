#!/usr/bin/env python3
"""seedconfirm.py [names...]: confirm every seeded change independently of the agent that produced it, in a
scratch worktree of /repo (removed afterwards): the patch applies and builds, the existing tests of the touched
packages still pass with it, the demonstration fails with the change and passes without it. The outcome is
recorded in seeded/<name>/meta.json under "confirmed"."""
import json, os, subprocess, sys, glob, shutil, time
ENV = dict(os.environ, GOFLAGS='-mod=mod', GOPROXY='off', GOSUMDB='off', GOTOOLCHAIN='local')
def sh(cmd, cwd, timeout=1500):
    try:
        p = subprocess.run(cmd, shell=True, cwd=cwd, env=ENV, stdout=subprocess.PIPE, stderr=subprocess.STDOUT, timeout=timeout)
        return p.returncode, p.stdout.decode(errors='replace')[-1500:]
    except subprocess.TimeoutExpired:
        return 124, 'timeout'
names = sys.argv[1:] or sorted(os.path.basename(os.path.dirname(p)) for p in glob.glob('/verif/seeded/*/patch.diff'))
for n in names:
    d = f'/verif/seeded/{n}'
    meta = json.load(open(f'{d}/meta.json'))
    wt = f'/tmp/seedconf-{n}'
    subprocess.run(f'git -C /repo worktree remove --force {wt}', shell=True, stdout=subprocess.DEVNULL, stderr=subprocess.DEVNULL)
    res = {'at': time.strftime('%Y-%m-%d %H:%M'), 'base': None}
    for base in ['HEAD', '5132009']:
        subprocess.run(f'git -C /repo worktree add -q --detach {wt} {base}', shell=True)
        rc, out = sh(f'git apply {d}/patch.diff', wt)
        if rc == 0:
            res['base'] = subprocess.check_output(f'git -C {wt} rev-parse --short HEAD', shell=True).decode().strip()
            break
        subprocess.run(f'git -C /repo worktree remove --force {wt}', shell=True)
    if not res['base']:
        res['error'] = 'patch applies neither to HEAD nor to the pinned commit'
    else:
        touched = subprocess.check_output('git status --porcelain | awk \'{print $2}\'', shell=True, cwd=wt).decode().split()
        pkgs = sorted({'./' + os.path.dirname(f) for f in touched if f.endswith('.go')})
        res['files'] = touched
        rc, out = sh('go build ./server/... ./pkg/btree/...', wt)
        res['build_with_change'] = 'ok' if rc == 0 else out
        # existing tests of the touched packages (server/cluster: TestCheckCache hangs on the unchanged tree too)
        tests = {}
        for p in pkgs:
            extra = " -check.exclude TestCheckCache" if p == './server/cluster' else ''
            if p == './server/schedule':  # TestScattersGroup fails on the unchanged tree as well (BASELINE always_fail)
                extra = " -check.exclude TestScattersGroup"
            rc, out = sh(f'go test -vet=off -count=1 -timeout 20m {p}{extra}', wt)
            tests[p] = 'pass' if rc == 0 else 'FAIL: ' + out[-400:]
        res['existing_tests_with_change'] = tests
        toks = [t.strip('`\'",;()') for t in meta.get('demo_location', '').split()]
        loc = next((t for t in toks if t.endswith('.go') and t.split('/')[0] in ('server', 'pkg', 'tools', 'client', 'tests', 'plugin', 'cmd')), next((t for t in toks if t.endswith('.go') and '/' in t and not t.startswith('/')), toks[0] if toks else ''))
        demo = [f for f in os.listdir(d) if f.startswith('demo')][0]
        cmd = meta.get('demo_cmd', '')
        if loc and cmd:
            os.makedirs(os.path.dirname(f'{wt}/{loc}'), exist_ok=True)
            shutil.copy(f'{d}/{demo}', f'{wt}/{loc}')
            rc1, out1 = sh(cmd, wt)
            sh('git checkout -- .', wt)
            rc2, out2 = sh(cmd, wt)
            res['demo_with_change'] = 'fails' if rc1 != 0 else 'PASSES (unexpected)'
            res['demo_without_change'] = 'passes' if rc2 == 0 else 'FAILS (unexpected): ' + out2[-300:]
            res['demo_failure_excerpt'] = out1[-300:]
        subprocess.run(f'git -C /repo worktree remove --force {wt}', shell=True)
    meta['confirmed'] = res
    json.dump(meta, open(f'{d}/meta.json', 'w'), indent=1)
    print(n, json.dumps({k: v for k, v in res.items() if k not in ('demo_failure_excerpt',)})[:400], flush=True)
