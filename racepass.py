#!/usr/bin/env python3
"""racepass.py <ID> <race logs...>: classify the reports of the free-running -race pass (run.sh <ID> race).
A report counts as 'pd' when the innermost frames of BOTH accesses are in pd source files (/repo/...,
not the harness, not the shims); the others are harness bookkeeping that only the cooperative scheduler
makes safe. Writes racepass/<ID>.json; prints one line per distinct pd report."""
import json, os, re, sys
pid, logs = sys.argv[1], sys.argv[2:]
reports = []
for l in logs:
    if not os.path.exists(l):
        continue
    txt = open(l, errors='replace').read()
    reports += [r for r in txt.split('==================') if 'DATA RACE' in r]
def frames(block):
    # pairs (function, file:line)
    out = []
    lines = block.split('\n')
    for i, ln in enumerate(lines):
        m = re.match(r'^\s+(/\S+\.go:\d+)', ln)
        if m and i > 0:
            out.append((lines[i - 1].strip(), m.group(1)))
    return out
seen, pd, harness = {}, [], 0
for r in reports:
    parts = re.split(r'\n(?=(?:Previous )?(?:[Rr]ead|[Ww]rite|atomic [a-z]+) at 0x)', r)
    acc = [p for p in parts if re.match(r'(?:Previous )?(?:[Rr]ead|[Ww]rite|atomic [a-z]+) at 0x', p.strip())]
    if len(acc) < 2:
        acc = [p for p in parts if ' at 0x' in p.split('\n')[0]]
    tops = []
    for a in acc[:2]:
        # cut at the goroutine creation stack
        a = a.split('\nGoroutine')[0]
        f = [x for x in frames(a) if '/verifshim/' not in x[1] and '/shim/' not in x[1] and '/go/src/' not in x[1] and '/usr/local/go' not in x[1] and '/usr/lib/go' not in x[1] and '/pkg/mod/' not in x[1]]
        tops.append(f[0] if f else ('?', '?'))
    if len(tops) == 2 and all(t[1].startswith('/repo/') for t in tops):
        key = ' <-> '.join(sorted(f'{t[0]} {t[1]}' for t in tops))
        if key not in seen:
            seen[key] = 0
            pd.append(key)
        seen[key] += 1
    else:
        harness += 1
os.makedirs('/verif/racepass', exist_ok=True)
json.dump({'property': pid, 'reports': len(reports), 'harness_side': harness, 'pd_unsynchronised_accesses': [{'accesses': k, 'count': seen[k]} for k in pd]},
          open(f'/verif/racepass/{pid}.json', 'w'), indent=1)
print(f'{pid} race pass: {len(reports)} reports, {harness} on the harness side, {len(pd)} distinct inside pd')
for k in pd:
    print('  pd:', k, f'(x{seen[k]})')
