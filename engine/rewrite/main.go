// Command rewrite generates the `go build -overlay` file used by every check.
//
// It reads the *current* working tree of /repo, and for the selected packages
// writes copies in which only import paths are redirected to the shim packages
// ("sync" -> vsync, "sync/atomic" -> vatomic, "math/rand" -> vrand) and the
// selectors time.Now/Since/Until/Sleep are redirected to vclock. The shim
// packages are added as virtual packages of the pd module, and three etcd
// clientv3 constructors are patched (in an overlay copy of the module-cache
// file) so that a connection-less client returns its own KV/Lease/Watcher.
package main

import (
	"bytes"
	"encoding/json"
	"flag"
	"fmt"
	"go/ast"
	"go/format"
	"go/parser"
	"go/token"
	"os"
	"os/exec"
	"path/filepath"
	"strconv"
	"strings"
)

const shimBase = "github.com/tikv/pd/pkg/verifshim/"

func die(f string, a ...interface{}) {
	fmt.Fprintf(os.Stderr, "rewrite: "+f+"\n", a...)
	os.Exit(2)
}

func main() {
	repo := flag.String("repo", "/repo", "pd working tree")
	out := flag.String("out", "", "output directory for generated files")
	shim := flag.String("shim", "/verif/shim", "shim sources")
	pkgs := flag.String("pkgs", "", "comma separated pkgdir=flags (s sync, a atomic, r rand, t time)")
	extra := flag.String("extra", "", "comma separated dst=src extra overlay entries")
	mutate := flag.String("mutate", os.Getenv("VERIF_MUTATE"), "comma separated dst=src: use file src as the content of /repo file dst (seeded-change testing without touching /repo)")
	flag.Parse()
	if *out == "" {
		die("-out required")
	}
	os.MkdirAll(*out, 0o755)
	replace := map[string]string{}
	override := map[string]string{}
	for _, e := range strings.Split(*mutate, ",") {
		if e == "" {
			continue
		}
		kv := strings.SplitN(e, "=", 2)
		dst := kv[0]
		if !filepath.IsAbs(dst) {
			dst = filepath.Join(*repo, dst)
		}
		override[dst] = kv[1]
		replace[dst] = kv[1]
	}

	for _, spec := range strings.Split(*pkgs, ",") {
		if spec == "" {
			continue
		}
		kv := strings.SplitN(spec, "=", 2)
		flags := "sart"
		if len(kv) == 2 {
			flags = kv[1]
		}
		// optional ";maps=expr|expr": range loops over these (string-keyed) map expressions
		// are iterated in sorted key order
		sortMaps, sortU64 = map[string]bool{}, map[string]bool{}
		stepsFuncs = map[string]bool{}
		// ";steps=Func|Func": a method <Func>VerifSteps is generated from the current source of Func
		// (see addSteps); ";extra=name.go@/abs/src.go": an extra file is added to the package
		for _, kw := range []string{";extra=", ";steps="} {
			if i := strings.Index(flags, kw); i >= 0 {
				rest := flags[i+len(kw):]
				end := strings.Index(rest, ";")
				if end < 0 {
					end = len(rest)
				}
				for _, e := range strings.Split(rest[:end], "|") {
					if kw == ";steps=" {
						stepsFuncs[strings.TrimSpace(e)] = true
					} else if at := strings.Index(e, "@"); at > 0 {
						replace[filepath.Join(*repo, kv[0], e[:at])] = e[at+1:]
					}
				}
				flags = flags[:i] + rest[end:]
			}
		}
		if i := strings.Index(flags, ";maps="); i >= 0 {
			for _, e := range strings.Split(flags[i+6:], "|") {
				e = strings.TrimSpace(e)
				if strings.HasPrefix(e, "u:") { // uint64-keyed map
					e = e[2:]
					sortU64[e] = true
				}
				sortMaps[e] = true
			}
			flags = flags[:i]
		}
		dir := filepath.Join(*repo, kv[0])
		ents, err := os.ReadDir(dir)
		if err != nil {
			die("%v", err)
		}
		for _, e := range ents {
			n := e.Name()
			if e.IsDir() || !strings.HasSuffix(n, ".go") || strings.HasSuffix(n, "_test.go") {
				continue
			}
			src := filepath.Join(dir, n)
			from := src
			if o, ok := override[src]; ok {
				from = o
			}
			res, changed := rewriteFile(from, flags)
			if !changed {
				continue
			}
			dst := filepath.Join(*out, strings.ReplaceAll(kv[0], "/", "_"), n+".txt")
			os.MkdirAll(filepath.Dir(dst), 0o755)
			if err := os.WriteFile(dst, res, 0o644); err != nil {
				die("%v", err)
			}
			replace[src] = dst
		}
	}
	// virtual shim packages
	sh, _ := os.ReadDir(*shim)
	for _, d := range sh {
		if !d.IsDir() {
			continue
		}
		fs, _ := os.ReadDir(filepath.Join(*shim, d.Name()))
		for _, f := range fs {
			if strings.HasSuffix(f.Name(), ".go") && !strings.HasSuffix(f.Name(), "_test.go") {
				replace[filepath.Join(*repo, "pkg/verifshim", d.Name(), f.Name())] = filepath.Join(*shim, d.Name(), f.Name())
			}
		}
	}
	// etcd clientv3 constructor patch
	etcdDir := modDir(*repo, "go.etcd.io/etcd")
	patchEtcd(etcdDir, *out, replace)
	for _, e := range strings.Split(*extra, ",") {
		if e == "" {
			continue
		}
		kv := strings.SplitN(e, "=", 2)
		replace[kv[0]] = kv[1]
	}
	b, _ := json.MarshalIndent(map[string]interface{}{"Replace": replace}, "", " ")
	if err := os.WriteFile(filepath.Join(*out, "overlay.json"), b, 0o644); err != nil {
		die("%v", err)
	}
}

func modDir(repo, mod string) string {
	cmd := exec.Command("go", "list", "-m", "-f", "{{.Dir}}", mod)
	cmd.Dir = repo
	cmd.Env = append(os.Environ(), "GOFLAGS=-mod=mod", "GOPROXY=off", "GOSUMDB=off", "GOTOOLCHAIN=local")
	o, err := cmd.Output()
	if err != nil {
		die("go list -m %s: %v", mod, err)
	}
	return strings.TrimSpace(string(o))
}

func patchEtcd(etcdDir, out string, replace map[string]string) {
	type pt struct{ file, old, new string }
	for _, p := range []pt{
		{"clientv3/kv.go", "func NewKV(c *Client) KV {\n", "func NewKV(c *Client) KV {\n\tif c != nil && c.conn == nil && c.KV != nil {\n\t\treturn c.KV\n\t}\n"},
		{"clientv3/lease.go", "func NewLease(c *Client) Lease {\n", "func NewLease(c *Client) Lease {\n\tif c != nil && c.conn == nil && c.Lease != nil {\n\t\treturn c.Lease\n\t}\n"},
		{"clientv3/watch.go", "func NewWatcher(c *Client) Watcher {\n", "func NewWatcher(c *Client) Watcher {\n\tif c != nil && c.conn == nil && c.Watcher != nil {\n\t\treturn c.Watcher\n\t}\n"},
	} {
		src := filepath.Join(etcdDir, p.file)
		b, err := os.ReadFile(src)
		if err != nil {
			die("%v", err)
		}
		if !bytes.Contains(b, []byte(p.old)) {
			die("etcd patch anchor not found in %s", src)
		}
		nb := bytes.Replace(b, []byte(p.old), []byte(p.new), 1)
		dst := filepath.Join(out, "etcd_"+strings.ReplaceAll(p.file, "/", "_")+".txt")
		os.WriteFile(dst, nb, 0o644)
		replace[src] = dst
	}
}

var sortMaps, sortU64 = map[string]bool{}, map[string]bool{}

func exprString(fset *token.FileSet, e ast.Expr) string {
	var b bytes.Buffer
	format.Node(&b, fset, e)
	return b.String()
}

// rewriteMapRanges: `for k, v := range M { body }` with M in sortMaps becomes
// `for _, k := range vschedm.SortedStringKeys(M) { v, ok := M[k]; if !ok { continue }; body }`.
func rewriteMapRanges(fset *token.FileSet, f *ast.File) int {
	n := 0
	ast.Inspect(f, func(nd ast.Node) bool {
		rs, ok := nd.(*ast.RangeStmt)
		if !ok || !sortMaps[exprString(fset, rs.X)] {
			return true
		}
		if rs.Tok != token.DEFINE {
			die("map range over %s does not use := (not supported)", exprString(fset, rs.X))
		}
		n++
		m := rs.X
		key, _ := rs.Key.(*ast.Ident)
		if key == nil || key.Name == "_" {
			key = ast.NewIdent(fmt.Sprintf("_vmk%d", n))
		}
		var val ast.Expr = ast.NewIdent("_")
		if v, ok := rs.Value.(*ast.Ident); ok && v.Name != "_" {
			val = v
		}
		okID := ast.NewIdent(fmt.Sprintf("_vmok%d", n))
		pre := []ast.Stmt{
			&ast.AssignStmt{Lhs: []ast.Expr{val, okID}, Tok: token.DEFINE, Rhs: []ast.Expr{&ast.IndexExpr{X: m, Index: key}}},
			&ast.IfStmt{Cond: &ast.UnaryExpr{Op: token.NOT, X: okID}, Body: &ast.BlockStmt{List: []ast.Stmt{&ast.BranchStmt{Tok: token.CONTINUE}}}},
		}
		rs.Key = ast.NewIdent("_")
		rs.Value = key
		fn := "SortedStringKeys"
		if sortU64[exprString(fset, m)] {
			fn = "SortedUint64Keys"
		}
		rs.X = &ast.CallExpr{Fun: &ast.SelectorExpr{X: ast.NewIdent("vschedm"), Sel: ast.NewIdent(fn)}, Args: []ast.Expr{m}}
		rs.Body.List = append(pre, rs.Body.List...)
		return true
	})
	return n
}

func addImport(f *ast.File, name, path string) {
	for _, d := range f.Decls {
		gd, ok := d.(*ast.GenDecl)
		if ok && gd.Tok == token.IMPORT {
			gd.Specs = append(gd.Specs, &ast.ImportSpec{Name: ast.NewIdent(name), Path: &ast.BasicLit{Kind: token.STRING, Value: strconv.Quote(path)}})
			if !gd.Lparen.IsValid() {
				gd.Lparen = gd.Pos()
				gd.Rparen = gd.End()
			}
			return
		}
	}
	// the file has no import declaration yet
	gd := &ast.GenDecl{Tok: token.IMPORT, Specs: []ast.Spec{&ast.ImportSpec{Name: ast.NewIdent(name), Path: &ast.BasicLit{Kind: token.STRING, Value: strconv.Quote(path)}}}}
	f.Decls = append([]ast.Decl{gd}, f.Decls...)
}

// rewriteGo turns `go f(a, b)` into `{ _f := f; _a0 := a; _a1 := b; vsched.Go(func() { _f(_a0, _a1) }) }`
// (function value and arguments are still evaluated at the go statement).
func rewriteGo(f *ast.File) int {
	n := 0
	var fix func(list []ast.Stmt)
	fix = func(list []ast.Stmt) {
		for i, st := range list {
			gs, ok := st.(*ast.GoStmt)
			if !ok {
				continue
			}
			n++
			call := gs.Call
			var pre []ast.Stmt
			fun := call.Fun
			// method values / function literals / identifiers: bind the function value
			fn := ast.NewIdent(fmt.Sprintf("_vgo_f%d", n))
			pre = append(pre, &ast.AssignStmt{Lhs: []ast.Expr{fn}, Tok: token.DEFINE, Rhs: []ast.Expr{fun}})
			var args []ast.Expr
			for k, a := range call.Args {
				id := ast.NewIdent(fmt.Sprintf("_vgo_a%d_%d", n, k))
				pre = append(pre, &ast.AssignStmt{Lhs: []ast.Expr{id}, Tok: token.DEFINE, Rhs: []ast.Expr{a}})
				args = append(args, id)
			}
			inner := &ast.CallExpr{Fun: fn, Args: args, Ellipsis: call.Ellipsis}
			lit := &ast.FuncLit{Type: &ast.FuncType{Params: &ast.FieldList{}}, Body: &ast.BlockStmt{List: []ast.Stmt{&ast.ExprStmt{X: inner}}}}
			goCall := &ast.ExprStmt{X: &ast.CallExpr{Fun: &ast.SelectorExpr{X: ast.NewIdent("vsched"), Sel: ast.NewIdent("Go")}, Args: []ast.Expr{lit}}}
			list[i] = &ast.BlockStmt{List: append(pre, goCall)}
		}
	}
	ast.Inspect(f, func(nd ast.Node) bool {
		switch b := nd.(type) {
		case *ast.BlockStmt:
			fix(b.List)
		case *ast.CaseClause:
			fix(b.Body)
		case *ast.CommClause:
			fix(b.Body)
		}
		return true
	})
	return n
}

var timeSel = map[string]bool{"Now": true, "Since": true, "Until": true, "Sleep": true}

var stepsFuncs = map[string]bool{}

// addSteps appends, for every function of src named in stepsFuncs, a copy called <Name>VerifSteps that
// holds the steps of the function up to (not including) its first top-level `x := time.NewTicker(...)`,
// i.e. everything before a never-ending keep-alive loop: top-level `go f(args)` statements are dropped
// (their arguments stay used), top-level defers other than `defer cancel()` only run when the steps
// did not reach the end (the original runs them when its loop ends). The copy is generated from the
// current source on every run, so a change to the original function is a change to the steps.
func addSteps(src []byte) ([]byte, bool) {
	if len(stepsFuncs) == 0 {
		return src, false
	}
	fset := token.NewFileSet()
	f, err := parser.ParseFile(fset, "", src, 0)
	if err != nil {
		die("%v", err)
	}
	var out bytes.Buffer
	for _, d := range f.Decls {
		fd, ok := d.(*ast.FuncDecl)
		if !ok || fd.Body == nil || !stepsFuncs[fd.Name.Name] {
			continue
		}
		fd.Name = ast.NewIdent(fd.Name.Name + "VerifSteps")
		fd.Doc = nil
		var list []ast.Stmt
		done := false
		cut := false
		for _, st := range fd.Body.List {
			if as, ok := st.(*ast.AssignStmt); ok && len(as.Rhs) == 1 {
				if ce, ok := as.Rhs[0].(*ast.CallExpr); ok {
					if se, ok := ce.Fun.(*ast.SelectorExpr); ok && se.Sel.Name == "NewTicker" {
						cut = true
						break
					}
				}
			}
			switch x := st.(type) {
			case *ast.GoStmt:
				for _, a := range x.Call.Args {
					list = append(list, &ast.AssignStmt{Lhs: []ast.Expr{ast.NewIdent("_")}, Tok: token.ASSIGN, Rhs: []ast.Expr{a}})
				}
				continue
			case *ast.DeferStmt:
				if id, ok := x.Call.Fun.(*ast.Ident); ok && id.Name == "cancel" {
					break
				}
				if !done {
					list = append(list, &ast.AssignStmt{Lhs: []ast.Expr{ast.NewIdent("verifStepsDone")}, Tok: token.DEFINE, Rhs: []ast.Expr{ast.NewIdent("false")}})
					done = true
				}
				list = append(list, &ast.DeferStmt{Call: &ast.CallExpr{Fun: &ast.FuncLit{Type: &ast.FuncType{Params: &ast.FieldList{}},
					Body: &ast.BlockStmt{List: []ast.Stmt{&ast.IfStmt{Cond: &ast.UnaryExpr{Op: token.NOT, X: ast.NewIdent("verifStepsDone")},
						Body: &ast.BlockStmt{List: []ast.Stmt{&ast.ExprStmt{X: x.Call}}}}}}}}})
				continue
			}
			list = append(list, st)
		}
		if !cut {
			die("steps=%s: no top-level time.NewTicker statement to cut at", fd.Name.Name)
		}
		if done {
			list = append(list, &ast.AssignStmt{Lhs: []ast.Expr{ast.NewIdent("verifStepsDone")}, Tok: token.ASSIGN, Rhs: []ast.Expr{ast.NewIdent("true")}})
		}
		fd.Body.List = list
		out.WriteString("\n\n")
		if err := format.Node(&out, fset, fd); err != nil {
			die("steps: %v", err)
		}
		out.WriteString("\n")
	}
	if out.Len() == 0 {
		return src, false
	}
	return append(append([]byte(nil), src...), out.Bytes()...), true
}

func rewriteFile(path, flags string) ([]byte, bool) {
	fset := token.NewFileSet()
	src, err := os.ReadFile(path)
	if err != nil {
		die("%v", err)
	}
	src, stepsAdded := addSteps(src)
	f, err := parser.ParseFile(fset, path, src, parser.ParseComments)
	if err != nil {
		die("%v", err)
	}
	changed := stepsAdded
	hasTime := false
	for _, im := range f.Imports {
		p, _ := strconv.Unquote(im.Path.Value)
		var to, name string
		switch {
		case p == "sync" && strings.Contains(flags, "s"):
			to, name = "vsync", "sync"
		case p == "sync/atomic" && strings.Contains(flags, "a"):
			to, name = "vatomic", "atomic"
		case p == "math/rand" && strings.Contains(flags, "r"):
			to, name = "vrand", "rand"
		case p == "time" && im.Name == nil:
			hasTime = true
		}
		if to != "" {
			if im.Name == nil {
				im.Name = ast.NewIdent(name)
			}
			im.Path.Value = strconv.Quote(shimBase + to)
			im.EndPos = 0
			changed = true
		}
	}
	if hasTime && strings.Contains(flags, "t") {
		n := 0
		ast.Inspect(f, func(nd ast.Node) bool {
			se, ok := nd.(*ast.SelectorExpr)
			if !ok {
				return true
			}
			id, ok := se.X.(*ast.Ident)
			if ok && id.Name == "time" && id.Obj == nil && timeSel[se.Sel.Name] {
				id.Name = "vclock"
				n++
			}
			return true
		})
		if n > 0 {
			changed = true
			// add import and keep "time" used
			for _, d := range f.Decls {
				gd, ok := d.(*ast.GenDecl)
				if ok && gd.Tok == token.IMPORT {
					gd.Specs = append(gd.Specs, &ast.ImportSpec{Name: ast.NewIdent("vclock"), Path: &ast.BasicLit{Kind: token.STRING, Value: strconv.Quote(shimBase + "vclock")}})
					if !gd.Lparen.IsValid() {
						gd.Lparen = gd.Pos()
						gd.Rparen = gd.End()
					}
					break
				}
			}
			f.Decls = append(f.Decls, &ast.GenDecl{Tok: token.VAR, Specs: []ast.Spec{&ast.ValueSpec{
				Names: []*ast.Ident{ast.NewIdent("_")},
				Type:  &ast.SelectorExpr{X: ast.NewIdent("time"), Sel: ast.NewIdent("Duration")},
			}}})
		}
	}
	if len(sortMaps) > 0 {
		if rewriteMapRanges(fset, f) > 0 {
			changed = true
			addImport(f, "vschedm", shimBase+"sched")
		}
	}
	if strings.Contains(flags, "f") {
		n := 0
		for _, d := range f.Decls {
			fd, ok := d.(*ast.FuncDecl)
			if !ok || fd.Body == nil || fd.Name.Name == "init" {
				continue
			}
			call := &ast.ExprStmt{X: &ast.CallExpr{Fun: &ast.SelectorExpr{X: ast.NewIdent("vschedf"), Sel: ast.NewIdent("FuncEntry")},
				Args: []ast.Expr{&ast.BasicLit{Kind: token.STRING, Value: strconv.Quote(f.Name.Name + "." + fd.Name.Name)}}}}
			fd.Body.List = append([]ast.Stmt{call}, fd.Body.List...)
			n++
		}
		if n > 0 {
			changed = true
			addImport(f, "vschedf", shimBase+"sched")
		}
	}
	if strings.Contains(flags, "g") {
		n := rewriteGo(f)
		if n > 0 {
			changed = true
			addImport(f, "vsched", shimBase+"sched")
		}
	}
	if !changed {
		return nil, false
	}
	var buf bytes.Buffer
	if err := format.Node(&buf, fset, f); err != nil {
		die("format %s: %v", path, err)
	}
	return buf.Bytes(), true
}
