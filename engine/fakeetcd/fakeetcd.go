// Package fakeetcd is an in-memory etcd (KV, Txn, Lease, Watch) that sits under
// the *real* clientv3 op encoding/decoding: it implements the generated
// etcdserverpb.KVClient interface and clientv3.Lease / clientv3.Watcher. Every
// request is a scheduling point of the explorer, may be answered with a fault
// chosen by the explorer, and is recorded in a write log for the oracles.
// It is bound to the real etcd by conformance/ (exhaustive op-sequence replay
// against an embedded etcd).
package fakeetcd

import (
	"bytes"
	"context"
	"errors"
	"fmt"
	"sort"
	"sync"
	"time"

	"github.com/tikv/pd/pkg/verifshim/sched"
	"github.com/tikv/pd/pkg/verifshim/vclock"
	"go.etcd.io/etcd/clientv3"
	"go.etcd.io/etcd/etcdserver/api/v3rpc/rpctypes"
	pb "go.etcd.io/etcd/etcdserver/etcdserverpb"
	"go.etcd.io/etcd/mvcc/mvccpb"
	"google.golang.org/grpc"
)

// ErrInjected is returned for injected request failures.
var ErrInjected = errors.New("fakeetcd: injected failure")

type item struct {
	val                  []byte
	create, mod, version int64
	lease                int64
}

type leaseT struct {
	id     int64
	ttl    int64
	expire time.Time
	keys   map[string]struct{}
}

// Event is one applied mutation.
type Event struct {
	Rev    int64
	Key    string
	Value  string
	Delete bool
	Lease  int64
	Who    string // label of the request (thread name) when known
}

// Fault answers.
const (
	FaultNone    = 0
	FaultRefused = 1 // not applied, error returned
	FaultLost    = 2 // applied, error returned
)

// Store is the fake etcd server state.
type Store struct {
	mu        sync.Mutex
	kv        map[string]*item
	rev       int64
	leases    map[int64]*leaseT
	nextLease int64
	Log       []Event
	// FaultWrites: every mutating request asks the explorer for a fault answer.
	FaultWrites bool
	// FaultReads: every read request may be refused.
	FaultReads bool
	// OnCommit is called (store locked) after a mutating request was applied.
	OnCommit func(evs []Event)
	// OnRequest is called before each request is applied (store locked): label, write.
	OnRequest func(label string, write bool)
	// LeaseHook, if set, is consulted for every lease Grant / KeepAliveOnce before it
	// is applied (store not locked): it returns the fault to inject (FaultNone for the
	// store's own choice) and optionally a function that runs after the request was
	// applied and before the reply is returned (it may block: a delayed reply).
	LeaseHook func(label string, id int64) (fault int, hold func())
	// FailNth > 0: the FailNth-th request from now on is answered with FailKind (FaultRefused when 0)
	// instead of the explorer's choice - fault injection for drivers that run without the scheduler.
	FailNth  int
	FailKind int
	watchers  []*watcher
	Requests  int
	UseVClock bool
}

// New returns an empty store. Leases expire on the virtual clock.
func New() *Store {
	return &Store{kv: map[string]*item{}, rev: 1, leases: map[int64]*leaseT{}, nextLease: 1000, UseVClock: true}
}

func (s *Store) now() time.Time {
	if s.UseVClock {
		return vclock.Base()
	}
	return time.Now()
}

// Client returns a clientv3.Client whose KV/Lease/Watcher are served by s.
func (s *Store) Client() *clientv3.Client {
	c := clientv3.NewCtxClient(context.Background())
	c.KV = clientv3.NewKVFromKVClient(&kvClient{s}, c)
	c.Lease = &leaseClient{s}
	c.Watcher = &watchClient{s: s}
	c.Cluster = &clusterClient{s}
	return c
}

// Clone returns a deep copy (no watchers, no hooks).
func (s *Store) Clone() *Store {
	s.mu.Lock()
	defer s.mu.Unlock()
	n := New()
	n.rev, n.nextLease, n.UseVClock = s.rev, s.nextLease, s.UseVClock
	for k, v := range s.kv {
		c := *v
		c.val = append([]byte(nil), v.val...)
		n.kv[k] = &c
	}
	for id, l := range s.leases {
		c := &leaseT{id: l.id, ttl: l.ttl, expire: l.expire, keys: map[string]struct{}{}}
		for k := range l.keys {
			c.keys[k] = struct{}{}
		}
		n.leases[id] = c
	}
	n.Log = append([]Event(nil), s.Log...)
	return n
}

// Get returns the current value of key (oracle access, no scheduling point).
func (s *Store) Get(key string) (string, bool) {
	s.mu.Lock()
	defer s.mu.Unlock()
	s.expireLocked()
	it, ok := s.kv[key]
	if !ok {
		return "", false
	}
	return string(it.val), true
}

// Dump returns all keys/values sorted (oracle access).
func (s *Store) Dump() [][2]string {
	s.mu.Lock()
	defer s.mu.Unlock()
	s.expireLocked()
	var out [][2]string
	for _, k := range s.sortedKeys() {
		out = append(out, [2]string{k, string(s.kv[k].val)})
	}
	return out
}

// Rev returns the store revision.
func (s *Store) Rev() int64 { s.mu.Lock(); defer s.mu.Unlock(); return s.rev }

// PutDirect writes a key without a scheduling point (harness set-up).
func (s *Store) PutDirect(key, val string) {
	s.mu.Lock()
	defer s.mu.Unlock()
	s.rev++
	s.putLocked(key, []byte(val), 0, s.rev, nil)
}

// DeleteDirect deletes a key without a scheduling point (environment action).
func (s *Store) DeleteDirect(key string) {
	s.mu.Lock()
	defer s.mu.Unlock()
	if _, ok := s.kv[key]; ok {
		s.rev++
		var evs []Event
		s.delLocked(key, s.rev, &evs)
		s.commitLocked(evs)
	}
}

// Tick lets every lease whose deadline has passed on the store's clock expire now
// (the etcd server does this by itself; the fake does it at the next request or Tick).
func (s *Store) Tick() {
	s.mu.Lock()
	defer s.mu.Unlock()
	s.expireLocked()
}

// RevokeLeaseDirect revokes a lease as the etcd server would on expiry.
func (s *Store) RevokeLeaseDirect(id int64) {
	s.mu.Lock()
	defer s.mu.Unlock()
	s.revokeLocked(id)
}

// LeaseIDs returns the live lease ids sorted.
func (s *Store) LeaseIDs() []int64 {
	s.mu.Lock()
	defer s.mu.Unlock()
	var ids []int64
	for id := range s.leases {
		ids = append(ids, id)
	}
	sort.Slice(ids, func(i, j int) bool { return ids[i] < ids[j] })
	return ids
}

// LeaseOf returns the lease attached to key (0 if none / key missing).
func (s *Store) LeaseOf(key string) int64 {
	s.mu.Lock()
	defer s.mu.Unlock()
	if it, ok := s.kv[key]; ok {
		return it.lease
	}
	return 0
}

func (s *Store) sortedKeys() []string {
	ks := make([]string, 0, len(s.kv))
	for k := range s.kv {
		ks = append(ks, k)
	}
	sort.Strings(ks)
	return ks
}

func (s *Store) expireLocked() {
	if len(s.leases) == 0 {
		return
	}
	now := s.now()
	var ids []int64
	for id, l := range s.leases {
		if now.After(l.expire) {
			ids = append(ids, id)
		}
	}
	sort.Slice(ids, func(i, j int) bool { return ids[i] < ids[j] })
	for _, id := range ids {
		s.revokeLocked(id)
	}
}

func (s *Store) revokeLocked(id int64) bool {
	l, ok := s.leases[id]
	if !ok {
		return false
	}
	delete(s.leases, id)
	if len(l.keys) > 0 {
		s.rev++
		var evs []Event
		ks := make([]string, 0, len(l.keys))
		for k := range l.keys {
			ks = append(ks, k)
		}
		sort.Strings(ks)
		for _, k := range ks {
			s.delLocked(k, s.rev, &evs)
		}
		s.commitLocked(evs)
	}
	return true
}

func (s *Store) putLocked(key string, val []byte, lease int64, rev int64, evs *[]Event) {
	it, ok := s.kv[key]
	if !ok {
		it = &item{create: rev}
		s.kv[key] = it
	}
	if it.lease != 0 && it.lease != lease {
		if l := s.leases[it.lease]; l != nil {
			delete(l.keys, key)
		}
	}
	it.val = append([]byte(nil), val...)
	it.mod = rev
	it.version++
	it.lease = lease
	if lease != 0 {
		s.leases[lease].keys[key] = struct{}{}
	}
	if evs != nil {
		*evs = append(*evs, Event{Rev: rev, Key: key, Value: string(val), Lease: lease})
	}
}

func (s *Store) delLocked(key string, rev int64, evs *[]Event) {
	it := s.kv[key]
	if it == nil {
		return
	}
	if it.lease != 0 {
		if l := s.leases[it.lease]; l != nil {
			delete(l.keys, key)
		}
	}
	delete(s.kv, key)
	*evs = append(*evs, Event{Rev: rev, Key: key, Delete: true})
}

func (s *Store) commitLocked(evs []Event) {
	if len(evs) == 0 {
		return
	}
	who := ""
	if t := sched.Cur(); t != nil {
		who = t.Name
	}
	for i := range evs {
		evs[i].Who = who
	}
	s.Log = append(s.Log, evs...)
	if s.OnCommit != nil {
		sched.Atomic(func() { s.OnCommit(evs) }) // the store is locked: no scheduling points inside the callback
	}
	for _, w := range s.watchers {
		w.deliver(evs)
	}
}

func (s *Store) header() *pb.ResponseHeader {
	return &pb.ResponseHeader{ClusterId: 1, MemberId: 1, Revision: s.rev, RaftTerm: 1}
}

func (s *Store) rangeKeys(key, end []byte) []string {
	if len(end) == 0 {
		if _, ok := s.kv[string(key)]; ok {
			return []string{string(key)}
		}
		return nil
	}
	var out []string
	for _, k := range s.sortedKeys() {
		if bytes.Compare([]byte(k), key) < 0 {
			continue
		}
		if !(len(end) == 1 && end[0] == 0) && bytes.Compare([]byte(k), end) >= 0 {
			continue
		}
		out = append(out, k)
	}
	return out
}

func (s *Store) mkKV(k string) *mvccpb.KeyValue {
	it := s.kv[k]
	return &mvccpb.KeyValue{Key: []byte(k), Value: append([]byte(nil), it.val...), CreateRevision: it.create, ModRevision: it.mod, Version: it.version, Lease: it.lease}
}

func (s *Store) doRange(r *pb.RangeRequest) *pb.RangeResponse {
	ks := s.rangeKeys(r.Key, r.RangeEnd)
	resp := &pb.RangeResponse{Header: s.header(), Count: int64(len(ks))}
	if r.SortOrder == pb.RangeRequest_DESCEND && r.SortTarget == pb.RangeRequest_KEY {
		for i, j := 0, len(ks)-1; i < j; i, j = i+1, j-1 {
			ks[i], ks[j] = ks[j], ks[i]
		}
	}
	if r.Limit > 0 && int64(len(ks)) > r.Limit {
		ks = ks[:r.Limit]
		resp.More = true
	}
	if r.CountOnly {
		return resp
	}
	for _, k := range ks {
		kv := s.mkKV(k)
		if r.KeysOnly {
			kv.Value = nil
		}
		resp.Kvs = append(resp.Kvs, kv)
	}
	return resp
}

func (s *Store) checkPut(r *pb.PutRequest) error {
	if r.Lease != 0 {
		if _, ok := s.leases[r.Lease]; !ok {
			return rpctypes.ErrGRPCLeaseNotFound
		}
	}
	if (r.IgnoreValue || r.IgnoreLease) && s.kv[string(r.Key)] == nil {
		return rpctypes.ErrGRPCKeyNotFound
	}
	return nil
}

func (s *Store) doPut(r *pb.PutRequest, rev int64, evs *[]Event) *pb.PutResponse {
	resp := &pb.PutResponse{}
	k := string(r.Key)
	if r.PrevKv {
		if _, ok := s.kv[k]; ok {
			resp.PrevKv = s.mkKV(k)
		}
	}
	val, lease := r.Value, r.Lease
	if it := s.kv[k]; it != nil {
		if r.IgnoreValue {
			val = it.val
		}
		if r.IgnoreLease {
			lease = it.lease
		}
	}
	s.putLocked(k, val, lease, rev, evs)
	return resp
}

func (s *Store) doDelete(r *pb.DeleteRangeRequest, rev int64, evs *[]Event) *pb.DeleteRangeResponse {
	ks := s.rangeKeys(r.Key, r.RangeEnd)
	resp := &pb.DeleteRangeResponse{Deleted: int64(len(ks))}
	for _, k := range ks {
		if r.PrevKv {
			resp.PrevKvs = append(resp.PrevKvs, s.mkKV(k))
		}
		s.delLocked(k, rev, evs)
	}
	return resp
}

func cmpInt(a, b int64) int {
	switch {
	case a < b:
		return -1
	case a > b:
		return 1
	}
	return 0
}

func (s *Store) evalCmp(c *pb.Compare) bool {
	ks := []string{string(c.Key)}
	if len(c.RangeEnd) != 0 {
		ks = s.rangeKeys(c.Key, c.RangeEnd)
	}
	for _, k := range ks {
		it := s.kv[k]
		if it == nil {
			it = &item{}
			if c.Target == pb.Compare_VALUE {
				// comparing the value of a missing key always fails
				return false
			}
		}
		var r int
		switch c.Target {
		case pb.Compare_VALUE:
			r = bytes.Compare(it.val, c.GetValue())
		case pb.Compare_CREATE:
			r = cmpInt(it.create, c.GetCreateRevision())
		case pb.Compare_MOD:
			r = cmpInt(it.mod, c.GetModRevision())
		case pb.Compare_VERSION:
			r = cmpInt(it.version, c.GetVersion())
		case pb.Compare_LEASE:
			r = cmpInt(it.lease, c.GetLease())
		}
		ok := false
		switch c.Result {
		case pb.Compare_EQUAL:
			ok = r == 0
		case pb.Compare_NOT_EQUAL:
			ok = r != 0
		case pb.Compare_GREATER:
			ok = r > 0
		case pb.Compare_LESS:
			ok = r < 0
		}
		if !ok {
			return false
		}
	}
	return true
}

func txnWrites(ops []*pb.RequestOp) bool {
	for _, o := range ops {
		switch v := o.Request.(type) {
		case *pb.RequestOp_RequestPut, *pb.RequestOp_RequestDeleteRange:
			return true
		case *pb.RequestOp_RequestTxn:
			if txnWrites(v.RequestTxn.Success) || txnWrites(v.RequestTxn.Failure) {
				return true
			}
		}
	}
	return false
}

func (s *Store) checkOps(ops []*pb.RequestOp) error {
	for _, o := range ops {
		if p, ok := o.Request.(*pb.RequestOp_RequestPut); ok {
			if err := s.checkPut(p.RequestPut); err != nil {
				return err
			}
		}
	}
	return nil
}

func (s *Store) doTxn(r *pb.TxnRequest, rev int64, evs *[]Event) (*pb.TxnResponse, error) {
	ok := true
	for _, c := range r.Compare {
		if !s.evalCmp(c) {
			ok = false
			break
		}
	}
	ops := r.Failure
	if ok {
		ops = r.Success
	}
	if err := s.checkOps(ops); err != nil {
		return nil, err
	}
	resp := &pb.TxnResponse{Succeeded: ok}
	for _, o := range ops {
		switch v := o.Request.(type) {
		case *pb.RequestOp_RequestRange:
			rr := s.doRange(v.RequestRange)
			resp.Responses = append(resp.Responses, &pb.ResponseOp{Response: &pb.ResponseOp_ResponseRange{ResponseRange: rr}})
		case *pb.RequestOp_RequestPut:
			pr := s.doPut(v.RequestPut, rev, evs)
			resp.Responses = append(resp.Responses, &pb.ResponseOp{Response: &pb.ResponseOp_ResponsePut{ResponsePut: pr}})
		case *pb.RequestOp_RequestDeleteRange:
			dr := s.doDelete(v.RequestDeleteRange, rev, evs)
			resp.Responses = append(resp.Responses, &pb.ResponseOp{Response: &pb.ResponseOp_ResponseDeleteRange{ResponseDeleteRange: dr}})
		case *pb.RequestOp_RequestTxn:
			tr, err := s.doTxn(v.RequestTxn, rev, evs)
			if err != nil {
				return nil, err
			}
			resp.Responses = append(resp.Responses, &pb.ResponseOp{Response: &pb.ResponseOp_ResponseTxn{ResponseTxn: tr}})
		}
	}
	return resp, nil
}

// begin takes the scheduling point, the fault answer and the lock.
func (s *Store) begin(label string, write bool) (fault int) {
	sched.PointAt(sched.KEtcd, label)
	if write && s.FaultWrites {
		fault = sched.Choose(3, "fault:"+label)
	} else if !write && s.FaultReads {
		fault = sched.Choose(2, "fault:"+label)
	}
	s.mu.Lock()
	s.Requests++
	if s.FailNth > 0 {
		if s.FailNth--; s.FailNth == 0 {
			fault = FaultRefused
			if s.FailKind != 0 && write {
				fault = s.FailKind
			}
		}
	}
	s.expireLocked()
	if s.OnRequest != nil {
		sched.Atomic(func() { s.OnRequest(label, write) })
	}
	return fault
}

type kvClient struct{ s *Store }

func (c *kvClient) Range(ctx context.Context, in *pb.RangeRequest, _ ...grpc.CallOption) (*pb.RangeResponse, error) {
	s := c.s
	f := s.begin("Range "+string(in.Key), false)
	defer s.mu.Unlock()
	if f != FaultNone {
		return nil, ErrInjected
	}
	if err := ctx.Err(); err != nil {
		return nil, err
	}
	return s.doRange(in), nil
}

func (c *kvClient) Put(ctx context.Context, in *pb.PutRequest, _ ...grpc.CallOption) (*pb.PutResponse, error) {
	s := c.s
	f := s.begin("Put "+string(in.Key), true)
	defer s.mu.Unlock()
	if f == FaultRefused {
		return nil, ErrInjected
	}
	if err := ctx.Err(); err != nil {
		return nil, err
	}
	if err := s.checkPut(in); err != nil {
		return nil, err
	}
	s.rev++
	var evs []Event
	resp := s.doPut(in, s.rev, &evs)
	resp.Header = s.header()
	s.commitLocked(evs)
	if f == FaultLost {
		return nil, ErrInjected
	}
	return resp, nil
}

func (c *kvClient) DeleteRange(ctx context.Context, in *pb.DeleteRangeRequest, _ ...grpc.CallOption) (*pb.DeleteRangeResponse, error) {
	s := c.s
	f := s.begin("Delete "+string(in.Key), true)
	defer s.mu.Unlock()
	if f == FaultRefused {
		return nil, ErrInjected
	}
	if err := ctx.Err(); err != nil {
		return nil, err
	}
	var evs []Event
	if len(s.rangeKeys(in.Key, in.RangeEnd)) > 0 {
		s.rev++
	}
	resp := s.doDelete(in, s.rev, &evs)
	resp.Header = s.header()
	s.commitLocked(evs)
	if f == FaultLost {
		return nil, ErrInjected
	}
	return resp, nil
}

func txnLabel(in *pb.TxnRequest) string {
	l := "Txn"
	for _, o := range in.Success {
		switch v := o.Request.(type) {
		case *pb.RequestOp_RequestPut:
			l += " put:" + string(v.RequestPut.Key)
		case *pb.RequestOp_RequestDeleteRange:
			l += " del:" + string(v.RequestDeleteRange.Key)
		case *pb.RequestOp_RequestRange:
			l += " get:" + string(v.RequestRange.Key)
		}
	}
	return l
}

func (c *kvClient) Txn(ctx context.Context, in *pb.TxnRequest, _ ...grpc.CallOption) (*pb.TxnResponse, error) {
	s := c.s
	w := txnWrites(in.Success) || txnWrites(in.Failure)
	f := s.begin(txnLabel(in), w)
	defer s.mu.Unlock()
	if f == FaultRefused {
		return nil, ErrInjected
	}
	if err := ctx.Err(); err != nil {
		return nil, err
	}
	// etcd assigns rev+1 to a txn that writes; a txn that writes nothing keeps the revision.
	var evs []Event
	before := s.rev
	resp, err := s.doTxn(in, s.rev+1, &evs)
	if err != nil {
		return nil, err
	}
	if len(evs) > 0 || txnDidWrite(resp) {
		s.rev = before + 1
	}
	resp.Header = s.header()
	s.commitLocked(evs)
	if f == FaultLost {
		return nil, ErrInjected
	}
	return resp, nil
}

func txnDidWrite(r *pb.TxnResponse) bool {
	for _, o := range r.Responses {
		switch v := o.Response.(type) {
		case *pb.ResponseOp_ResponsePut:
			return true
		case *pb.ResponseOp_ResponseDeleteRange:
			if v.ResponseDeleteRange.Deleted > 0 {
				return true
			}
		case *pb.ResponseOp_ResponseTxn:
			if txnDidWrite(v.ResponseTxn) {
				return true
			}
		}
	}
	return false
}

func (c *kvClient) Compact(ctx context.Context, in *pb.CompactionRequest, _ ...grpc.CallOption) (*pb.CompactionResponse, error) {
	s := c.s
	s.mu.Lock()
	defer s.mu.Unlock()
	return &pb.CompactionResponse{Header: s.header()}, nil
}

// ---- cluster membership ----

// clusterClient answers the membership API: pd's background metrics job lists the etcd members
// every 10 s of real time. The fake has no members to report (an empty list: nothing to probe).
type clusterClient struct{ s *Store }

func (c *clusterClient) MemberList(ctx context.Context) (*clientv3.MemberListResponse, error) {
	c.s.mu.Lock()
	defer c.s.mu.Unlock()
	return &clientv3.MemberListResponse{Header: c.s.header()}, nil
}
func (c *clusterClient) MemberAdd(ctx context.Context, peerAddrs []string) (*clientv3.MemberAddResponse, error) {
	return nil, errors.New("fakeetcd: MemberAdd not implemented")
}
func (c *clusterClient) MemberAddAsLearner(ctx context.Context, peerAddrs []string) (*clientv3.MemberAddResponse, error) {
	return nil, errors.New("fakeetcd: MemberAddAsLearner not implemented")
}
func (c *clusterClient) MemberRemove(ctx context.Context, id uint64) (*clientv3.MemberRemoveResponse, error) {
	return nil, errors.New("fakeetcd: MemberRemove not implemented")
}
func (c *clusterClient) MemberUpdate(ctx context.Context, id uint64, peerAddrs []string) (*clientv3.MemberUpdateResponse, error) {
	return nil, errors.New("fakeetcd: MemberUpdate not implemented")
}
func (c *clusterClient) MemberPromote(ctx context.Context, id uint64) (*clientv3.MemberPromoteResponse, error) {
	return nil, errors.New("fakeetcd: MemberPromote not implemented")
}

// ---- leases ----

type leaseClient struct{ s *Store }

func (c *leaseClient) Grant(ctx context.Context, ttl int64) (*clientv3.LeaseGrantResponse, error) {
	s := c.s
	hf, hold := s.leaseHook("LeaseGrant", 0)
	r, err := c.grant(ctx, ttl, hf)
	if hold != nil {
		hold()
	}
	return r, err
}

func (c *leaseClient) grant(ctx context.Context, ttl int64, hf int) (*clientv3.LeaseGrantResponse, error) {
	s := c.s
	f := s.begin("LeaseGrant", true)
	defer s.mu.Unlock()
	if hf != FaultNone {
		f = hf
	}
	if f == FaultRefused {
		return nil, ErrInjected
	}
	if err := ctx.Err(); err != nil {
		return nil, err
	}
	s.nextLease++
	id := s.nextLease
	s.leases[id] = &leaseT{id: id, ttl: ttl, expire: s.now().Add(time.Duration(ttl) * time.Second), keys: map[string]struct{}{}}
	if f == FaultLost {
		return nil, ErrInjected
	}
	return &clientv3.LeaseGrantResponse{ResponseHeader: s.header(), ID: clientv3.LeaseID(id), TTL: ttl}, nil
}

// leaseHook consults LeaseHook (outside the store lock).
func (s *Store) leaseHook(label string, id int64) (int, func()) {
	if s.LeaseHook == nil {
		return FaultNone, nil
	}
	return s.LeaseHook(label, id)
}

func (c *leaseClient) Revoke(ctx context.Context, id clientv3.LeaseID) (*clientv3.LeaseRevokeResponse, error) {
	s := c.s
	f := s.begin("LeaseRevoke", true)
	defer s.mu.Unlock()
	if f == FaultRefused {
		return nil, ErrInjected
	}
	if err := ctx.Err(); err != nil {
		return nil, err
	}
	if !s.revokeLocked(int64(id)) {
		return nil, rpctypes.ErrLeaseNotFound
	}
	if f == FaultLost {
		return nil, ErrInjected
	}
	return &clientv3.LeaseRevokeResponse{Header: s.header()}, nil
}

func (c *leaseClient) TimeToLive(ctx context.Context, id clientv3.LeaseID, opts ...clientv3.LeaseOption) (*clientv3.LeaseTimeToLiveResponse, error) {
	s := c.s
	s.begin("LeaseTTL", false)
	defer s.mu.Unlock()
	l, ok := s.leases[int64(id)]
	if !ok {
		return &clientv3.LeaseTimeToLiveResponse{ResponseHeader: s.header(), ID: id, TTL: -1}, nil
	}
	return &clientv3.LeaseTimeToLiveResponse{ResponseHeader: s.header(), ID: id, TTL: int64(l.expire.Sub(s.now()) / time.Second), GrantedTTL: l.ttl}, nil
}

func (c *leaseClient) Leases(ctx context.Context) (*clientv3.LeaseLeasesResponse, error) {
	return nil, errors.New("fakeetcd: Leases not implemented")
}

func (c *leaseClient) KeepAlive(ctx context.Context, id clientv3.LeaseID) (<-chan *clientv3.LeaseKeepAliveResponse, error) {
	return nil, errors.New("fakeetcd: streaming KeepAlive not implemented")
}

func (c *leaseClient) KeepAliveOnce(ctx context.Context, id clientv3.LeaseID) (*clientv3.LeaseKeepAliveResponse, error) {
	hf, hold := c.s.leaseHook("LeaseKeepAlive", int64(id))
	r, err := c.keepAliveOnce(ctx, id, hf)
	if hold != nil {
		hold()
	}
	return r, err
}

func (c *leaseClient) keepAliveOnce(ctx context.Context, id clientv3.LeaseID, hf int) (*clientv3.LeaseKeepAliveResponse, error) {
	s := c.s
	f := s.begin("LeaseKeepAlive", true)
	defer s.mu.Unlock()
	if hf != FaultNone {
		f = hf
	}
	if f == FaultRefused {
		return nil, ErrInjected
	}
	if err := ctx.Err(); err != nil {
		return nil, err
	}
	l, ok := s.leases[int64(id)]
	if !ok {
		return nil, rpctypes.ErrLeaseNotFound
	}
	l.expire = s.now().Add(time.Duration(l.ttl) * time.Second)
	if f == FaultLost {
		return nil, ErrInjected
	}
	return &clientv3.LeaseKeepAliveResponse{ResponseHeader: s.header(), ID: id, TTL: l.ttl}, nil
}

func (c *leaseClient) Close() error { return nil }

// ---- watch ----

type watcher struct {
	key, end string
	ch       chan clientv3.WatchResponse
	closed   bool
}

func (w *watcher) match(k string) bool {
	if w.end == "" {
		return k == w.key
	}
	return k >= w.key && k < w.end
}

func (w *watcher) deliver(evs []Event) {
	if w.closed {
		return
	}
	var out []*clientv3.Event
	var rev int64
	for _, e := range evs {
		if !w.match(e.Key) {
			continue
		}
		rev = e.Rev
		t := mvccpb.PUT
		if e.Delete {
			t = mvccpb.DELETE
		}
		out = append(out, &clientv3.Event{Type: t, Kv: &mvccpb.KeyValue{Key: []byte(e.Key), Value: []byte(e.Value), ModRevision: e.Rev, Lease: e.Lease}})
	}
	if len(out) == 0 {
		return
	}
	select {
	case w.ch <- clientv3.WatchResponse{Header: pb.ResponseHeader{Revision: rev}, Events: out}:
	default:
		panic("fakeetcd: watch channel overflow")
	}
}

type watchClient struct {
	s *Store
}

func (c *watchClient) Watch(ctx context.Context, key string, opts ...clientv3.OpOption) clientv3.WatchChan {
	op := clientv3.OpGet(key, opts...)
	s := c.s
	s.mu.Lock()
	defer s.mu.Unlock()
	w := &watcher{key: key, end: string(op.RangeBytes()), ch: make(chan clientv3.WatchResponse, 1024)}
	if rev := op.Rev(); rev > 0 {
		var old []Event
		for _, e := range s.Log {
			if e.Rev >= rev {
				old = append(old, e)
			}
		}
		w.deliver(old)
	}
	s.watchers = append(s.watchers, w)
	go func() {
		<-ctx.Done()
		s.mu.Lock()
		if !w.closed {
			w.closed = true
			close(w.ch)
		}
		for i, x := range s.watchers {
			if x == w {
				s.watchers = append(s.watchers[:i], s.watchers[i+1:]...)
				break
			}
		}
		s.mu.Unlock()
	}()
	return w.ch
}

func (c *watchClient) RequestProgress(ctx context.Context) error { return nil }
func (c *watchClient) Close() error                              { return nil }

// String renders the store for diagnostics.
func (s *Store) String() string {
	var b bytes.Buffer
	for _, kv := range s.Dump() {
		fmt.Fprintf(&b, "%s=%q ", kv[0], kv[1])
	}
	return b.String()
}
