// Command conformance binds the fake etcd to the real one: it starts one
// embedded etcd and replays every operation sequence up to a depth over a small
// alphabet (puts with and without lease, deletes, transactions with every
// compare target pd uses incl. the nested "put unless stored is bigger"
// transaction, range reads, lease grant / revoke) on both through the same
// clientv3 API, comparing Succeeded flags, returned key/values, versions,
// relative revisions and error presence.
package main

import (
	"context"
	"flag"
	"fmt"
	"os"
	"strings"
	"time"

	"go.etcd.io/etcd/clientv3"
	"go.etcd.io/etcd/embed"
	"github.com/tikv/pd/pkg/etcdutil"
	"verif/engine/fakeetcd"
)

type env struct {
	c      *clientv3.Client
	leases []clientv3.LeaseID
	prefix string
	rev0   int64
}

func (e *env) k(s string) string { return e.prefix + s }

type op struct {
	name string
	run  func(e *env) string
}

func kvs(e *env, r *clientv3.GetResponse) string {
	var l []string
	for _, kv := range r.Kvs {
		l = append(l, fmt.Sprintf("%s=%s(v%d,c%d,m%d,l%v)", strings.TrimPrefix(string(kv.Key), e.prefix), kv.Value, kv.Version, kv.CreateRevision-e.rev0, kv.ModRevision-e.rev0, kv.Lease != 0))
	}
	return fmt.Sprintf("[%s] count=%d more=%v", strings.Join(l, " "), r.Count, r.More)
}

func ctx() context.Context {
	c, _ := context.WithTimeout(context.Background(), 5*time.Second)
	return c
}

func txnResp(e *env, r *clientv3.TxnResponse, err error) string {
	if err != nil {
		return "err"
	}
	s := fmt.Sprintf("ok=%v rev=%d", r.Succeeded, r.Header.Revision-e.rev0)
	for _, x := range r.Responses {
		if g := x.GetResponseRange(); g != nil {
			s += " " + kvs(e, (*clientv3.GetResponse)(g))
		}
		if t := x.GetResponseTxn(); t != nil {
			s += fmt.Sprintf(" nested=%v", t.Succeeded)
		}
		if d := x.GetResponseDeleteRange(); d != nil {
			s += fmt.Sprintf(" deleted=%d", d.Deleted)
		}
	}
	return s
}

func alphabet() []op {
	var ops []op
	for _, key := range []string{"a", "b"} {
		key := key
		for _, val := range []string{"1", "2"} {
			val := val
			ops = append(ops, op{"put " + key + "=" + val, func(e *env) string {
				r, err := e.c.Put(ctx(), e.k(key), val)
				if err != nil {
					return "err"
				}
				return fmt.Sprintf("rev=%d", r.Header.Revision-e.rev0)
			}})
			ops = append(ops, op{"txn if value(" + key + ")=" + val + " then put " + key + "=9 else get", func(e *env) string {
				r, err := e.c.Txn(ctx()).If(clientv3.Compare(clientv3.Value(e.k(key)), "=", val)).Then(clientv3.OpPut(e.k(key), "9")).Else(clientv3.OpGet(e.k(key))).Commit()
				return txnResp(e, r, err)
			}})
			ops = append(ops, op{"txn then nested(if value(" + key + ")>" + val + " then - else put " + key + "=" + val + ")", func(e *env) string {
				r, err := e.c.Txn(ctx()).Then(clientv3.OpTxn([]clientv3.Cmp{clientv3.Compare(clientv3.Value(e.k(key)), ">", val)}, nil, []clientv3.Op{clientv3.OpPut(e.k(key), val)})).Commit()
				return txnResp(e, r, err)
			}})
		}
		ops = append(ops, op{"put-with-lease " + key, func(e *env) string {
			if len(e.leases) == 0 {
				return "nolease"
			}
			_, err := e.c.Put(ctx(), e.k(key), "L", clientv3.WithLease(e.leases[len(e.leases)-1]))
			return fmt.Sprint(err != nil)
		}})
		ops = append(ops, op{"delete " + key, func(e *env) string {
			r, err := e.c.Delete(ctx(), e.k(key))
			if err != nil {
				return "err"
			}
			return fmt.Sprintf("deleted=%d rev=%d", r.Deleted, r.Header.Revision-e.rev0)
		}})
		ops = append(ops, op{"txn if create(" + key + ")=0 then put", func(e *env) string {
			r, err := e.c.Txn(ctx()).If(clientv3.Compare(clientv3.CreateRevision(e.k(key)), "=", 0)).Then(clientv3.OpPut(e.k(key), "c")).Else(clientv3.OpGet(e.k(key))).Commit()
			return txnResp(e, r, err)
		}})
		ops = append(ops, op{"txn then delete " + key, func(e *env) string {
			r, err := e.c.Txn(ctx()).Then(clientv3.OpDelete(e.k(key))).Commit()
			return txnResp(e, r, err)
		}})
		ops = append(ops, op{"txn if version(" + key + ")>1 & mod>0 then put", func(e *env) string {
			r, err := e.c.Txn(ctx()).If(clientv3.Compare(clientv3.Version(e.k(key)), ">", 1), clientv3.Compare(clientv3.ModRevision(e.k(key)), ">", 0)).Then(clientv3.OpPut(e.k(key), "v")).Commit()
			return txnResp(e, r, err)
		}})
	}
	ops = append(ops, op{"get prefix", func(e *env) string {
		r, err := e.c.Get(ctx(), e.prefix, clientv3.WithPrefix())
		if err != nil {
			return "err"
		}
		return kvs(e, r)
	}})
	ops = append(ops, op{"get range a..b limit 1", func(e *env) string {
		r, err := e.c.Get(ctx(), e.k("a"), clientv3.WithRange(e.k("c")), clientv3.WithLimit(1))
		if err != nil {
			return "err"
		}
		return kvs(e, r)
	}})
	ops = append(ops, op{"lease grant", func(e *env) string {
		r, err := e.c.Grant(ctx(), 600)
		if err != nil {
			return "err"
		}
		e.leases = append(e.leases, r.ID)
		return fmt.Sprintf("ttl=%d", r.TTL)
	}})
	ops = append(ops, op{"lease revoke", func(e *env) string {
		if len(e.leases) == 0 {
			return "nolease"
		}
		id := e.leases[len(e.leases)-1]
		_, err := e.c.Revoke(ctx(), id)
		return fmt.Sprint(err != nil)
	}})
	ops = append(ops, op{"lease keepalive", func(e *env) string {
		if len(e.leases) == 0 {
			return "nolease"
		}
		r, err := e.c.KeepAliveOnce(ctx(), e.leases[len(e.leases)-1])
		if err != nil {
			return "err"
		}
		return fmt.Sprintf("ttl=%d", r.TTL)
	}})
	return ops
}

func main() {
	depth := flag.Int("depth", 3, "sequence length")
	flag.Parse()
	cfg := etcdutil.NewTestSingleConfig()
	cfg.LogOutputs = []string{"/dev/null"}
	cfg.Logger = "zap"
	defer etcdutil.CleanConfig(cfg)
	etcd, err := embed.StartEtcd(cfg)
	if err != nil {
		fmt.Fprintln(os.Stderr, "INFRA: cannot start embedded etcd:", err)
		os.Exit(3)
	}
	defer etcd.Close()
	<-etcd.Server.ReadyNotify()
	real, err := clientv3.New(clientv3.Config{Endpoints: []string{cfg.LCUrls[0].String()}})
	if err != nil {
		fmt.Fprintln(os.Stderr, "INFRA:", err)
		os.Exit(3)
	}
	defer real.Close()
	ops := alphabet()
	idx := make([]int, *depth)
	n, seqs := 0, 0
	start := time.Now()
	for {
		// one sequence: fresh fake store; fresh key prefix on the real etcd
		seqs++
		pfx := fmt.Sprintf("/c/%d/", seqs)
		fs := fakeetcd.New()
		fs.UseVClock = false
		fe := &env{c: fs.Client(), prefix: pfx}
		re := &env{c: real, prefix: pfx}
		// relative revisions: measured from the revision before the sequence
		if r, err := real.Get(ctx(), "/nonexistent"); err == nil {
			re.rev0 = r.Header.Revision
		}
		fe.rev0 = fs.Rev()
		for d := 0; d < *depth; d++ {
			o := ops[idx[d]]
			a, b := o.run(fe), o.run(re)
			n++
			if a != b {
				var h []string
				for k := 0; k <= d; k++ {
					h = append(h, ops[idx[k]].name)
				}
				fmt.Printf("CONFORMANCE MISMATCH after %s:\n  fake: %s\n  etcd: %s\n", strings.Join(h, " ; "), a, b)
				os.Exit(2)
			}
		}
		i := *depth - 1
		for i >= 0 {
			idx[i]++
			if idx[i] < len(ops) {
				break
			}
			idx[i] = 0
			i--
		}
		if i < 0 {
			break
		}
	}
	fmt.Printf("fakeetcd conformance: %d operations in %d sequences of length %d over %d operations agree with embedded etcd (%.1fs)\n", n, seqs, *depth, len(ops), time.Since(start).Seconds())
}
