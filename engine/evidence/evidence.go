// Package evidence writes /verif/evidence/<id>.json, replay files and the
// VIOLATION / KNOWN-FINDING lines, and reads known_findings.json.
package evidence

import (
	"encoding/json"
	"fmt"
	"os"
	"path/filepath"
	"sort"
	"strconv"
	"strings"
	"time"
)

// Root is the /verif directory.
var Root = func() string {
	if r := os.Getenv("VERIF_ROOT"); r != "" {
		return r
	}
	return "/verif"
}()

// Coverage is the coverage object of the evidence schema.
type Coverage struct {
	States                     int64         `json:"states"`
	Transitions                int64         `json:"transitions"`
	TracesValidatedAgainstImpl int64         `json:"traces_validated_against_impl"`
	Evaluations                int64         `json:"evaluations"`
	DistinctNontrivial         int64         `json:"distinct_nontrivial"`
	Rule                       string        `json:"rule"`
	Samples                    []interface{} `json:"samples"`
	Exhaustive                 bool          `json:"exhaustive"`
	Explanation                string        `json:"explanation,omitempty"`
	Bounds                     interface{}   `json:"bounds,omitempty"`
	Scenarios                  []interface{} `json:"scenarios,omitempty"`
	CapsHit                    []string      `json:"caps_hit,omitempty"`
	KnownFindings              []string      `json:"known_findings_reported,omitempty"`
}

// File is the evidence file.
type File struct {
	PropertyID  string   `json:"property_id"`
	Tier        string   `json:"tier"`
	Seed        int64    `json:"seed"`
	Level       string   `json:"level"`
	Coverage    Coverage `json:"coverage"`
	Assumptions []string `json:"assumptions"`
	WallS       float64  `json:"wall_s"`
	Violations  int      `json:"violations"`
}

// Seed returns VERIF_SEED (0 if unset).
func Seed() int64 {
	v, _ := strconv.ParseInt(os.Getenv("VERIF_SEED"), 10, 64)
	return v
}

// Write writes the evidence file.
func Write(f *File) error {
	if f.Level == "" {
		f.Level = "model_checking"
	}
	if f.Coverage.Samples == nil {
		f.Coverage.Samples = []interface{}{}
	}
	if f.Assumptions == nil {
		f.Assumptions = []string{}
	}
	dir := filepath.Join(Root, "evidence")
	os.MkdirAll(dir, 0o755)
	b, err := json.MarshalIndent(f, "", " ")
	if err != nil {
		return err
	}
	return os.WriteFile(filepath.Join(dir, f.PropertyID+".json"), append(b, '\n'), 0o644)
}

// Finding is one entry of known_findings.json.
type Finding struct {
	Property string `json:"property"`
	Key      string `json:"key"`
	What     string `json:"what"`
	Status   string `json:"status"` // "known" or "fixed"
	Commit   string `json:"commit,omitempty"`
}

// LoadFindings reads known_findings.json (only "known" entries suppress).
func LoadFindings(property string) []Finding {
	b, err := os.ReadFile(filepath.Join(Root, "known_findings.json"))
	if err != nil {
		return nil
	}
	var all struct {
		Findings []Finding `json:"findings"`
	}
	if err := json.Unmarshal(b, &all); err != nil {
		fmt.Fprintf(os.Stderr, "INFRA: known_findings.json: %v\n", err)
		os.Exit(2)
	}
	var out []Finding
	for _, f := range all.Findings {
		if f.Property == property && f.Status == "known" {
			out = append(out, f)
		}
	}
	return out
}

// Violation describes one failing case.
type Violation struct {
	Property string      `json:"property"`
	Scenario string      `json:"scenario"`
	Key      string      `json:"key"` // canonical identity used to match known findings
	Message  string      `json:"message"`
	Replay   interface{} `json:"replay"` // choice list / operation list / input
	Trace    []string    `json:"trace,omitempty"`
}

// Reporter collects violations, matches them against the known findings and
// prints the interface lines.
type Reporter struct {
	Property  string
	known     []Finding
	seenKnown map[string]bool
	Unknown   []*Violation
	start     time.Time
	n         int
}

// NewReporter creates a reporter.
func NewReporter(property string) *Reporter {
	return &Reporter{Property: property, known: LoadFindings(property), seenKnown: map[string]bool{}, start: time.Now()}
}

// IsKnown reports whether key matches a listed finding (prefix match on the key).
func (r *Reporter) IsKnown(key string) *Finding {
	for i, f := range r.known {
		if f.Key == key || (strings.HasSuffix(f.Key, "*") && strings.HasPrefix(key, strings.TrimSuffix(f.Key, "*"))) {
			return &r.known[i]
		}
	}
	return nil
}

// Report handles one violation; returns true when it is an unlisted one.
func (r *Reporter) Report(v *Violation) bool {
	v.Property = r.Property
	if f := r.IsKnown(v.Key); f != nil {
		if !r.seenKnown[f.Key] {
			r.seenKnown[f.Key] = true
			fmt.Printf("KNOWN-FINDING: property=%s %s (key=%s)\n", r.Property, f.What, f.Key)
		}
		return false
	}
	for _, u := range r.Unknown {
		if u.Key == v.Key {
			return true
		}
	}
	r.Unknown = append(r.Unknown, v)
	r.n++
	dir := filepath.Join(Root, "replays")
	os.MkdirAll(dir, 0o755)
	path := filepath.Join(dir, fmt.Sprintf("%s-%d.json", r.Property, r.n))
	b, _ := json.MarshalIndent(v, "", " ")
	os.WriteFile(path, append(b, '\n'), 0o644)
	fmt.Printf("VIOLATION property=%s replay=%s\n", r.Property, path)
	fmt.Printf("  scenario=%s key=%s\n  %s\n", v.Scenario, v.Key, strings.ReplaceAll(v.Message, "\n", "\n  "))
	return true
}

// KnownReported lists the known findings that were reproduced in this run.
func (r *Reporter) KnownReported() []string {
	var l []string
	for k := range r.seenKnown {
		l = append(l, k)
	}
	sort.Strings(l)
	return l
}

// Failed reports whether an unlisted violation was seen.
func (r *Reporter) Failed() bool { return len(r.Unknown) > 0 }

// Wall returns seconds since the reporter was created.
func (r *Reporter) Wall() float64 { return time.Since(r.start).Seconds() }
