// Package regionsim is the TiKV region simulator shared by the operator checks
// (C08 C09 C10 C11): one region = epoch, peers with roles (including the joint
// roles IncomingVoter / DemotingVoter), leader, pending and down sets.
//
// A command that PD sends for an operator step (the same mapping as
// schedule.OperatorController.SendScheduleCommand) is applied the way a TiKV
// 5.0 store applies it:
//
//   - ChangePeer (v1) AddNode        absent -> new Voter (first pending); Learner(same id) -> Voter
//   - ChangePeer (v1) AddLearnerNode absent -> new Learner (first pending); Voter(same id) -> Learner,
//     refused for the leader ("ignore remove leader or demote leader")
//   - ChangePeer (v1) RemoveNode     peer removed; refused for the leader
//   - every v1 change is refused while the region is in the joint state
//   - ChangePeerV2 with n changes: n == 0 leave joint (refused when not joint, or when the
//     leader is a DemotingVoter), n == 1 a simple change exactly like v1
//     (ConfChangeKind::confchange_kind in raftstore), n > 1 enter joint:
//     Learner -> IncomingVoter, Voter -> DemotingVoter, absent AddNode -> IncomingVoter,
//     absent AddLearnerNode -> Learner; refused when already joint, when a voter is
//     removed directly, when two changes name one peer, or when only learners change
//   - TransferLeader: refused when the peer is absent or a Learner
//   - a store never holds two peers of a region; a second peer on a store is refused
//   - conf_ver += number of peers whose membership or role changes
//
// The simulator is trusted but cross-checked (SelfCheck and the checks
// themselves) against the code's own OpStep.IsFinish / ConfVerChanged.
package regionsim

import (
	"bytes"
	"fmt"
	"sort"
	"strings"

	"github.com/pingcap/kvproto/pkg/eraftpb"
	"github.com/pingcap/kvproto/pkg/metapb"
	"github.com/pingcap/kvproto/pkg/pdpb"
	"github.com/tikv/pd/server/core"
	"github.com/tikv/pd/server/schedule/operator"
)

// Peer of the simulated region.
type Peer struct {
	ID    uint64          `json:"id"`
	Store uint64          `json:"store"`
	Role  metapb.PeerRole `json:"role"`
}

// Region is the simulated region state.
type Region struct {
	ID               uint64
	StartKey, EndKey []byte
	Version, ConfVer uint64
	Peers            []Peer
	Leader           uint64 // peer id, 0 = none
	Pending          map[uint64]bool
	Down             map[uint64]bool
	// Merged is set once the region has been merged into its target (it no longer exists).
	Merged bool
	// V2AlwaysJoint makes a ChangePeerV2 with a single change enter the joint
	// state too (what pd's ChangePeerV2Enter.IsFinish assumes) instead of
	// applying it as a simple change (what TiKV does).
	V2AlwaysJoint bool
	// Siblings are the regions split off by SplitRegion commands.
	Siblings []*metapb.Region
	nextID   uint64
}

// New creates a region with the given peers; the leader is the peer on leaderStore.
func New(id uint64, peers []Peer, leaderStore uint64) *Region {
	r := &Region{ID: id, Version: 1, ConfVer: 1, Peers: append([]Peer(nil), peers...), Pending: map[uint64]bool{}, Down: map[uint64]bool{},
		StartKey: []byte(fmt.Sprintf("k%04d", id)), EndKey: []byte(fmt.Sprintf("k%04d", id+1)), nextID: id*1000 + 900}
	if p := r.StorePeer(leaderStore); p != nil {
		r.Leader = p.ID
	}
	return r
}

// Clone deep-copies the region.
func (r *Region) Clone() *Region {
	c := *r
	c.Peers = append([]Peer(nil), r.Peers...)
	c.Pending = map[uint64]bool{}
	for k := range r.Pending {
		c.Pending[k] = true
	}
	c.Down = map[uint64]bool{}
	for k := range r.Down {
		c.Down[k] = true
	}
	c.Siblings = append([]*metapb.Region(nil), r.Siblings...)
	return &c
}

// StorePeer returns the peer on a store (nil if none).
func (r *Region) StorePeer(store uint64) *Peer {
	for i := range r.Peers {
		if r.Peers[i].Store == store {
			return &r.Peers[i]
		}
	}
	return nil
}

// PeerByID returns the peer with the id (nil if none).
func (r *Region) PeerByID(id uint64) *Peer {
	if id == 0 {
		return nil
	}
	for i := range r.Peers {
		if r.Peers[i].ID == id {
			return &r.Peers[i]
		}
	}
	return nil
}

// LeaderPeer returns the leader (nil if none).
func (r *Region) LeaderPeer() *Peer { return r.PeerByID(r.Leader) }

// LeaderStore returns the leader's store (0 if none).
func (r *Region) LeaderStore() uint64 {
	if p := r.LeaderPeer(); p != nil {
		return p.Store
	}
	return 0
}

// InJoint reports whether some peer has a joint role.
func (r *Region) InJoint() bool {
	for _, p := range r.Peers {
		if p.Role == metapb.PeerRole_IncomingVoter || p.Role == metapb.PeerRole_DemotingVoter {
			return true
		}
	}
	return false
}

// Voters returns the sizes of the incoming (Voter+IncomingVoter) and outgoing
// (Voter+DemotingVoter) voter configurations; they are equal outside the joint state.
func (r *Region) Voters() (incoming, outgoing int) {
	for _, p := range r.Peers {
		switch p.Role {
		case metapb.PeerRole_Voter:
			incoming++
			outgoing++
		case metapb.PeerRole_IncomingVoter:
			incoming++
		case metapb.PeerRole_DemotingVoter:
			outgoing++
		}
	}
	return
}

// HasPending reports whether some peer has not caught up yet.
func (r *Region) HasPending() bool { return len(r.Pending) > 0 }

// CatchUp lets every pending peer catch up.
func (r *Region) CatchUp() { r.Pending = map[uint64]bool{} }

// Meta builds the metapb.Region (fresh objects).
func (r *Region) Meta() *metapb.Region {
	m := &metapb.Region{Id: r.ID, StartKey: append([]byte(nil), r.StartKey...), EndKey: append([]byte(nil), r.EndKey...),
		RegionEpoch: &metapb.RegionEpoch{Version: r.Version, ConfVer: r.ConfVer}}
	for _, p := range r.Peers {
		m.Peers = append(m.Peers, &metapb.Peer{Id: p.ID, StoreId: p.Store, Role: p.Role})
	}
	return m
}

// Info builds the core.RegionInfo a heartbeat of the current state would produce.
func (r *Region) Info() *core.RegionInfo {
	m := r.Meta()
	var leader *metapb.Peer
	var pend []*metapb.Peer
	var down []*pdpb.PeerStats
	for _, p := range m.Peers {
		if p.Id == r.Leader {
			leader = p
		}
		if r.Pending[p.Id] {
			pend = append(pend, p)
		}
		if r.Down[p.Id] {
			down = append(down, &pdpb.PeerStats{Peer: p, DownSeconds: 3600})
		}
	}
	return core.NewRegionInfo(m, leader, core.WithPendingPeers(pend), core.WithDownPeers(down))
}

func roleName(r metapb.PeerRole) string {
	switch r {
	case metapb.PeerRole_Voter:
		return "v"
	case metapb.PeerRole_Learner:
		return "l"
	case metapb.PeerRole_IncomingVoter:
		return "in"
	case metapb.PeerRole_DemotingVoter:
		return "de"
	}
	return "?"
}

// String renders the state, peers sorted by store: "{1:v* 2:l(p) 3:in} ver=1/3".
func (r *Region) String() string {
	ps := append([]Peer(nil), r.Peers...)
	sort.SliceStable(ps, func(i, j int) bool { return ps[i].Store < ps[j].Store })
	var b strings.Builder
	b.WriteString("{")
	for i, p := range ps {
		if i > 0 {
			b.WriteString(" ")
		}
		fmt.Fprintf(&b, "%d:%s", p.Store, roleName(p.Role))
		if p.ID == r.Leader {
			b.WriteString("*")
		}
		if r.Pending[p.ID] {
			b.WriteString("(p)")
		}
		if r.Down[p.ID] {
			b.WriteString("(d)")
		}
	}
	fmt.Fprintf(&b, "} ver=%d/%d", r.Version, r.ConfVer)
	if r.Merged {
		b.WriteString(" merged")
	}
	return b.String()
}

// CommandFor is the command PD sends to the region leader for a step, given
// the region PD sees (mirror of OperatorController.SendScheduleCommand); nil
// when PD sends nothing.
func CommandFor(step operator.OpStep, region *core.RegionInfo) *pdpb.RegionHeartbeatResponse {
	addNode := func(id, store uint64) *pdpb.RegionHeartbeatResponse {
		return &pdpb.RegionHeartbeatResponse{ChangePeer: &pdpb.ChangePeer{ChangeType: eraftpb.ConfChangeType_AddNode,
			Peer: &metapb.Peer{Id: id, StoreId: store, Role: metapb.PeerRole_Voter}}}
	}
	addLearner := func(id, store uint64) *pdpb.RegionHeartbeatResponse {
		return &pdpb.RegionHeartbeatResponse{ChangePeer: &pdpb.ChangePeer{ChangeType: eraftpb.ConfChangeType_AddLearnerNode,
			Peer: &metapb.Peer{Id: id, StoreId: store, Role: metapb.PeerRole_Learner}}}
	}
	switch st := step.(type) {
	case operator.TransferLeader:
		return &pdpb.RegionHeartbeatResponse{TransferLeader: &pdpb.TransferLeader{Peer: region.GetStorePeer(st.ToStore)}}
	case operator.AddPeer:
		if region.GetStorePeer(st.ToStore) != nil {
			return nil
		}
		return addNode(st.PeerID, st.ToStore)
	case operator.AddLightPeer:
		if region.GetStorePeer(st.ToStore) != nil {
			return nil
		}
		return addNode(st.PeerID, st.ToStore)
	case operator.AddLearner:
		if region.GetStorePeer(st.ToStore) != nil {
			return nil
		}
		return addLearner(st.PeerID, st.ToStore)
	case operator.AddLightLearner:
		if region.GetStorePeer(st.ToStore) != nil {
			return nil
		}
		return addLearner(st.PeerID, st.ToStore)
	case operator.PromoteLearner:
		return addNode(st.PeerID, st.ToStore)
	case operator.DemoteFollower:
		return addLearner(st.PeerID, st.ToStore)
	case operator.RemovePeer:
		return &pdpb.RegionHeartbeatResponse{ChangePeer: &pdpb.ChangePeer{ChangeType: eraftpb.ConfChangeType_RemoveNode, Peer: region.GetStorePeer(st.FromStore)}}
	case operator.MergeRegion:
		if st.IsPassive {
			return nil
		}
		return &pdpb.RegionHeartbeatResponse{Merge: &pdpb.Merge{Target: st.ToRegion}}
	case operator.SplitRegion:
		return &pdpb.RegionHeartbeatResponse{SplitRegion: &pdpb.SplitRegion{Policy: st.Policy, Keys: st.SplitKeys}}
	case operator.ChangePeerV2Enter:
		return &pdpb.RegionHeartbeatResponse{ChangePeerV2: st.GetRequest()}
	case operator.ChangePeerV2Leave:
		return &pdpb.RegionHeartbeatResponse{ChangePeerV2: &pdpb.ChangePeerV2{}}
	}
	return nil
}

// Apply sends the command of the step (as PD would for the current state) and
// applies it. sent is false when PD sends nothing for the step in this state.
// An error means the store refuses the command (state unchanged).
func (r *Region) Apply(step operator.OpStep) (sent bool, err error) {
	cmd := CommandFor(step, r.Info())
	if cmd == nil {
		return false, nil
	}
	return true, r.ApplyCommand(cmd)
}

func (r *Region) removePeer(id uint64) {
	for i := range r.Peers {
		if r.Peers[i].ID == id {
			r.Peers = append(r.Peers[:i:i], r.Peers[i+1:]...)
			break
		}
	}
	delete(r.Pending, id)
	delete(r.Down, id)
}

type confKind int

const (
	kindSimple confKind = iota
	kindEnterJoint
)

// change applies one peer change of a simple or enter-joint conf change to a copy.
func (r *Region) change(kind confKind, typ eraftpb.ConfChangeType, peer *metapb.Peer) error {
	if peer == nil || peer.GetStoreId() == 0 {
		return fmt.Errorf("conf change without peer")
	}
	exist := r.StorePeer(peer.GetStoreId())
	switch typ {
	case eraftpb.ConfChangeType_AddNode, eraftpb.ConfChangeType_AddLearnerNode:
		if exist == nil {
			if peer.GetId() == 0 || r.PeerByID(peer.GetId()) != nil {
				return fmt.Errorf("add peer %d on store %d: bad or duplicate peer id", peer.GetId(), peer.GetStoreId())
			}
			role := metapb.PeerRole_Learner
			if typ == eraftpb.ConfChangeType_AddNode {
				role = metapb.PeerRole_Voter
				if kind == kindEnterJoint {
					role = metapb.PeerRole_IncomingVoter
				}
			}
			r.Peers = append(r.Peers, Peer{ID: peer.GetId(), Store: peer.GetStoreId(), Role: role})
			r.Pending[peer.GetId()] = true
			return nil
		}
		if exist.ID != peer.GetId() {
			return fmt.Errorf("store %d already holds peer %d, cannot add peer %d", exist.Store, exist.ID, peer.GetId())
		}
		switch {
		case typ == eraftpb.ConfChangeType_AddNode && exist.Role == metapb.PeerRole_Learner:
			exist.Role = metapb.PeerRole_Voter
			if kind == kindEnterJoint {
				exist.Role = metapb.PeerRole_IncomingVoter
			}
		case typ == eraftpb.ConfChangeType_AddLearnerNode && exist.Role == metapb.PeerRole_Voter:
			if kind == kindSimple && exist.ID == r.Leader {
				return fmt.Errorf("ignore remove leader or demote leader (peer %d on store %d)", exist.ID, exist.Store)
			}
			exist.Role = metapb.PeerRole_Learner
			if kind == kindEnterJoint {
				exist.Role = metapb.PeerRole_DemotingVoter
			}
		default:
			return fmt.Errorf("peer %d on store %d already has role %s, change %s refused", exist.ID, exist.Store, exist.Role, typ)
		}
		return nil
	case eraftpb.ConfChangeType_RemoveNode:
		if exist == nil || exist.ID != peer.GetId() {
			return fmt.Errorf("remove missing peer %d on store %d", peer.GetId(), peer.GetStoreId())
		}
		if exist.ID == r.Leader {
			return fmt.Errorf("ignore remove leader or demote leader (peer %d on store %d)", exist.ID, exist.Store)
		}
		if kind == kindEnterJoint && exist.Role != metapb.PeerRole_Learner {
			return fmt.Errorf("can not remove voter %d directly in a joint change", exist.ID)
		}
		r.removePeer(exist.ID)
		return nil
	}
	return fmt.Errorf("unknown conf change type %v", typ)
}

// ApplyCommand applies a heartbeat-response command as a TiKV store would. On
// error the region is unchanged.
func (r *Region) ApplyCommand(cmd *pdpb.RegionHeartbeatResponse) error {
	if r.Merged {
		return fmt.Errorf("region %d no longer exists (merged)", r.ID)
	}
	switch {
	case cmd.GetTransferLeader() != nil:
		p := r.PeerByID(cmd.GetTransferLeader().GetPeer().GetId())
		if p == nil || p.Store != cmd.GetTransferLeader().GetPeer().GetStoreId() {
			return fmt.Errorf("transfer leader: peer %v not found", cmd.GetTransferLeader().GetPeer())
		}
		if p.Role == metapb.PeerRole_Learner {
			return fmt.Errorf("transfer leader: peer %d on store %d is a learner", p.ID, p.Store)
		}
		r.Leader = p.ID
		return nil
	case cmd.GetChangePeer() != nil:
		if r.InJoint() {
			return fmt.Errorf("region is in joint state, can not propose a simple conf change")
		}
		w := r.Clone()
		if err := w.change(kindSimple, cmd.GetChangePeer().GetChangeType(), cmd.GetChangePeer().GetPeer()); err != nil {
			return err
		}
		w.ConfVer++
		*r = *w
		return nil
	case cmd.GetChangePeerV2() != nil:
		changes := cmd.GetChangePeerV2().GetChanges()
		if len(changes) == 0 {
			return r.leaveJoint()
		}
		if r.InJoint() {
			return fmt.Errorf("region is already in joint state")
		}
		kind := kindEnterJoint
		if len(changes) == 1 && !r.V2AlwaysJoint {
			kind = kindSimple
		}
		w := r.Clone()
		seen := map[uint64]bool{}
		onlyLearner := true
		for _, c := range changes {
			if seen[c.GetPeer().GetId()] {
				return fmt.Errorf("multiple commands for the same peer %d", c.GetPeer().GetId())
			}
			seen[c.GetPeer().GetId()] = true
			before := w.StorePeer(c.GetPeer().GetStoreId())
			var was metapb.PeerRole = -1
			if before != nil {
				was = before.Role
			}
			if err := w.change(kind, c.GetChangeType(), c.GetPeer()); err != nil {
				return err
			}
			after := w.StorePeer(c.GetPeer().GetStoreId())
			if (before != nil && was != metapb.PeerRole_Learner) || (after != nil && after.Role != metapb.PeerRole_Learner) {
				onlyLearner = false
			}
		}
		if kind == kindEnterJoint && onlyLearner {
			return fmt.Errorf("multiple changes that only effect learner")
		}
		w.ConfVer += uint64(len(changes))
		*r = *w
		return nil
	case cmd.GetMerge() != nil:
		if r.InJoint() {
			return fmt.Errorf("region is in joint state, can not merge")
		}
		r.Merged = true
		r.Version++
		return nil
	case cmd.GetSplitRegion() != nil:
		if r.InJoint() {
			return fmt.Errorf("region is in joint state, can not split")
		}
		keys := cmd.GetSplitRegion().GetKeys()
		if len(keys) == 0 {
			keys = [][]byte{append(append([]byte(nil), r.StartKey...), 0x80)}
		}
		start := r.StartKey
		for _, k := range keys {
			if bytes.Compare(k, start) <= 0 || (len(r.EndKey) > 0 && bytes.Compare(k, r.EndKey) >= 0) {
				return fmt.Errorf("split key %q outside (%q,%q)", k, start, r.EndKey)
			}
			// right derive: the new region takes the left part
			r.nextID++
			sib := &metapb.Region{Id: r.nextID, StartKey: append([]byte(nil), start...), EndKey: append([]byte(nil), k...)}
			for _, p := range r.Peers {
				r.nextID++
				sib.Peers = append(sib.Peers, &metapb.Peer{Id: r.nextID, StoreId: p.Store, Role: p.Role})
			}
			r.Siblings = append(r.Siblings, sib)
			start = k
		}
		r.StartKey = append([]byte(nil), start...)
		r.Version += uint64(len(keys))
		for _, s := range r.Siblings {
			s.RegionEpoch = &metapb.RegionEpoch{Version: r.Version, ConfVer: r.ConfVer}
		}
		return nil
	}
	return fmt.Errorf("empty command")
}

func (r *Region) leaveJoint() error {
	if !r.InJoint() {
		return fmt.Errorf("region is not in joint state, leave refused")
	}
	if l := r.LeaderPeer(); l != nil && l.Role == metapb.PeerRole_DemotingVoter {
		return fmt.Errorf("ignore leave joint command that demoting leader (peer %d on store %d)", l.ID, l.Store)
	}
	n := uint64(0)
	for i := range r.Peers {
		switch r.Peers[i].Role {
		case metapb.PeerRole_IncomingVoter:
			r.Peers[i].Role = metapb.PeerRole_Voter
			n++
		case metapb.PeerRole_DemotingVoter:
			r.Peers[i].Role = metapb.PeerRole_Learner
			n++
		}
	}
	r.ConfVer += n
	return nil
}

// AbsorbMerge applies, on the target region of a merge, the arrival of source.
func (r *Region) AbsorbMerge(source *metapb.Region) {
	if bytes.Equal(source.GetEndKey(), r.StartKey) {
		r.StartKey = append([]byte(nil), source.GetStartKey()...)
	} else {
		r.EndKey = append([]byte(nil), source.GetEndKey()...)
	}
	v := r.Version
	if sv := source.GetRegionEpoch().GetVersion(); sv > v {
		v = sv
	}
	r.Version = v + 1
}

// Disagreement between the simulator and the code's own view of a step.
type Disagreement struct {
	Tag  string // stable identity of the kind of disagreement
	Case string
	Msg  string
}

// CrossCheck applies step to a copy of r and compares the simulator with the
// step's own IsFinish (false before, false while the new peer is pending, true
// after) and ConfVerChanged (0 before, the conf_ver delta after).
func CrossCheck(name string, r *Region, step operator.OpStep) []Disagreement {
	var out []Disagreement
	typ := strings.TrimPrefix(fmt.Sprintf("%T", step), "operator.")
	add := func(tag, f string, a ...interface{}) {
		out = append(out, Disagreement{Tag: typ + ":" + tag, Case: name, Msg: fmt.Sprintf("%s: %v on %s: ", name, step, r) + fmt.Sprintf(f, a...)})
	}
	w := r.Clone()
	before := w.Info()
	if step.IsFinish(before) {
		add("finished-before", "IsFinish is true before the step is applied")
	}
	if err := step.CheckSafety(before); err != nil {
		add("unsafe-before", "CheckSafety fails on the case's start state: %v", err)
	}
	if _, isMerge := step.(operator.MergeRegion); !isMerge {
		if d := step.ConfVerChanged(before); d != 0 {
			add("confver-before", "ConfVerChanged=%d before the step is applied (conf_ver unchanged)", d)
		}
	}
	cv := w.ConfVer
	sent, err := w.Apply(step)
	if err != nil || !sent {
		add("refused", "simulator refuses the step: sent=%v err=%v", sent, err)
		return out
	}
	if w.HasPending() {
		if step.IsFinish(w.Info()) {
			add("finished-while-pending", "IsFinish is true while the added peer is pending (%s)", w)
		}
		w.CatchUp()
	}
	after := w.Info()
	if m, isMerge := step.(operator.MergeRegion); isMerge && !m.IsPassive {
		return out // an active merge never reports finished; the region disappears
	}
	if !step.IsFinish(after) {
		add("unfinished-after", "IsFinish is false after the step was applied (%s)", w)
	}
	if d := step.ConfVerChanged(after); d != w.ConfVer-cv {
		add("confver-after", "ConfVerChanged=%d after the step, conf_ver moved by %d (%s)", d, w.ConfVer-cv, w)
	}
	return out
}

// SelfCheck cross-checks the simulator against the code on one hand-written
// case per step kind (the situations of pd's step_test.go).
func SelfCheck() []Disagreement {
	V, L := metapb.PeerRole_Voter, metapb.PeerRole_Learner
	base := func() *Region {
		return New(7, []Peer{{ID: 701, Store: 1, Role: V}, {ID: 702, Store: 2, Role: V}, {ID: 703, Store: 3, Role: L}}, 1)
	}
	joint := func() *Region {
		r := base()
		r.Peers[1].Role = metapb.PeerRole_DemotingVoter
		r.Peers[2].Role = metapb.PeerRole_IncomingVoter
		return r
	}
	jointDemoteOnly := func() *Region {
		r := New(7, []Peer{{ID: 701, Store: 1, Role: V}, {ID: 702, Store: 2, Role: metapb.PeerRole_DemotingVoter}, {ID: 703, Store: 3, Role: metapb.PeerRole_DemotingVoter}, {ID: 704, Store: 4, Role: V}}, 1)
		return r
	}
	pl := []operator.PromoteLearner{{ToStore: 3, PeerID: 703}}
	dv := []operator.DemoteVoter{{ToStore: 2, PeerID: 702}}
	dv2 := []operator.DemoteVoter{{ToStore: 2, PeerID: 702}, {ToStore: 3, PeerID: 703}}
	var out []Disagreement
	out = append(out, CrossCheck("transfer-leader", base(), operator.TransferLeader{FromStore: 1, ToStore: 2})...)
	out = append(out, CrossCheck("add-peer", base(), operator.AddPeer{ToStore: 4, PeerID: 704})...)
	out = append(out, CrossCheck("add-light-peer", base(), operator.AddLightPeer{ToStore: 4, PeerID: 704})...)
	out = append(out, CrossCheck("add-learner", base(), operator.AddLearner{ToStore: 4, PeerID: 704})...)
	out = append(out, CrossCheck("add-light-learner", base(), operator.AddLightLearner{ToStore: 4, PeerID: 704})...)
	out = append(out, CrossCheck("promote-learner", base(), operator.PromoteLearner{ToStore: 3, PeerID: 703})...)
	out = append(out, CrossCheck("demote-follower", base(), operator.DemoteFollower{ToStore: 2, PeerID: 702})...)
	out = append(out, CrossCheck("remove-voter", base(), operator.RemovePeer{FromStore: 2, PeerID: 702})...)
	out = append(out, CrossCheck("remove-learner", base(), operator.RemovePeer{FromStore: 3, PeerID: 703})...)
	out = append(out, CrossCheck("enter-joint", base(), operator.ChangePeerV2Enter{PromoteLearners: pl, DemoteVoters: dv})...)
	out = append(out, CrossCheck("leave-joint", joint(), operator.ChangePeerV2Leave{PromoteLearners: pl, DemoteVoters: dv})...)
	out = append(out, CrossCheck("leave-joint-demote-only", jointDemoteOnly(), operator.ChangePeerV2Leave{DemoteVoters: dv2})...)
	out = append(out, CrossCheck("split", base(), operator.SplitRegion{StartKey: base().StartKey, EndKey: base().EndKey, Policy: pdpb.CheckPolicy_USEKEY, SplitKeys: [][]byte{append(base().StartKey, 'm')}})...)
	out = append(out, CrossCheck("merge-active", base(), operator.MergeRegion{FromRegion: base().Meta(), ToRegion: New(8, nil, 0).Meta()})...)
	// refusals the simulator must make
	mustRefuse := func(name string, r *Region, step operator.OpStep) {
		w := r.Clone()
		if sent, err := w.Apply(step); sent && err == nil {
			out = append(out, Disagreement{Tag: "sim:not-refused", Case: name, Msg: fmt.Sprintf("%s: simulator accepted %v on %s", name, step, r)})
		}
	}
	mustRefuse("remove-leader", base(), operator.RemovePeer{FromStore: 1, PeerID: 701})
	mustRefuse("demote-leader", base(), operator.DemoteFollower{ToStore: 1, PeerID: 701})
	mustRefuse("transfer-to-learner", base(), operator.TransferLeader{FromStore: 1, ToStore: 3})
	mustRefuse("transfer-to-absent", base(), operator.TransferLeader{FromStore: 1, ToStore: 5})
	mustRefuse("add-on-occupied-store", base(), operator.AddLearner{ToStore: 2, PeerID: 799})
	mustRefuse("simple-change-in-joint", joint(), operator.RemovePeer{FromStore: 3, PeerID: 703})
	mustRefuse("leave-when-not-joint", base(), operator.ChangePeerV2Leave{})
	jl := joint()
	jl.Leader = 702
	mustRefuse("leave-demoting-leader", jl, operator.ChangePeerV2Leave{PromoteLearners: pl, DemoteVoters: dv})
	return out
}
