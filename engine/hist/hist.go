// Package hist is engine B: explicit-state breadth-first search over operation
// histories of the real object. A state is the history that reaches it;
// successors are produced by resetting / rebuilding the real object, replaying
// the history and applying one more operation; a canonical key deduplicates
// states. The work is sharded over worker processes by the first operation.
package hist

import (
	"bufio"
	"encoding/json"
	"flag"
	"fmt"
	"os"
	"os/exec"
	"runtime"
	"runtime/debug"
	"strings"
	"sync"
	"syscall"
	"time"

	"verif/engine/evidence"
)

// Violation of the property found while applying an operation.
type Violation struct {
	Key string
	Msg string
}

// Model binds the real system and its reference model.
type Model interface {
	// Reset brings the real system and the reference back to the initial state.
	Reset()
	// Apply applies operation op to both, compares them and evaluates the invariants.
	Apply(op int) *Violation
	// Key is the canonical form of the current state (property-relevant fields only).
	Key() string
	// OpName renders an operation.
	OpName(op int) string
	// NumOps is the alphabet size.
	NumOps() int
	// Enabled may prune operations that make no sense in the current state.
	Enabled(op int) bool
}

// Prefilter is an optional interface: decide from the history alone (without replaying it)
// that op cannot be enabled after it.
type Prefilter interface {
	Possible(history []int, op int) bool
}

// Scope is one bounded search.
type Scope struct {
	Name     string
	Tiers    string
	Depth    int
	NewModel func() Model
	// NoDedup disables state matching (every history is a state).
	NoDedup bool
}

// Config drives Main.
type Config struct {
	Property    string
	Scopes      []*Scope
	Assumptions []string
	Rule        string
	Level       string
	Extra       func(tier string, rep *evidence.Reporter, cov *evidence.Coverage)
}

type vrec struct {
	Key  string   `json:"key"`
	Msg  string   `json:"msg"`
	Hist []int    `json:"hist"`
	Ops  []string `json:"ops"`
}

type result struct {
	States      int64    `json:"states"`
	Transitions int64    `json:"transitions"`
	Replays     int64    `json:"replays"`
	MaxDepth    int      `json:"max_depth"`
	Complete    bool     `json:"complete"`
	Viol        []vrec   `json:"viol,omitempty"`
	Sample      []string `json:"sample,omitempty"`
	PerDepth    []int64  `json:"per_depth,omitempty"`
}

func names(m Model, h []int) []string {
	l := make([]string, len(h))
	for i, o := range h {
		l[i] = m.OpName(o)
	}
	return l
}

// safeApply turns a panic of the code under test into a violation.
func safeApply(m Model, op int) (v *Violation) {
	defer func() {
		if e := recover(); e != nil {
			st := string(debug.Stack())
			if len(st) > 3000 {
				st = st[:3000]
			}
			v = &Violation{Key: "panic", Msg: fmt.Sprintf("panic while applying %s: %v\n%s", m.OpName(op), e, st)}
		}
	}()
	return m.Apply(op)
}

// search explores all histories whose first operation index i satisfies i%n == shard.
func search(sc *Scope, shard, n int, deadline time.Time) *result {
	m := sc.NewModel()
	res := &result{Complete: true, PerDepth: make([]int64, sc.Depth+1)}
	seen := map[string]struct{}{}
	type st struct{ h []int }
	m.Reset()
	seen[m.Key()] = struct{}{}
	if shard == 0 {
		res.States = 1
		res.PerDepth[0] = 1
	}
	frontier := []st{{nil}}
	for depth := 0; depth < sc.Depth && len(frontier) > 0; depth++ {
		var next []st
		for _, s := range frontier {
			for op := 0; op < m.NumOps(); op++ {
				if depth == 0 && op%n != shard {
					continue
				}
				if !deadline.IsZero() && time.Now().After(deadline) {
					res.Complete = false
					return res
				}
				if pf, ok := m.(Prefilter); ok && !pf.Possible(s.h, op) {
					continue
				}
				m.Reset()
				for _, o := range s.h {
					m.Apply(o)
				}
				res.Replays++
				if !m.Enabled(op) {
					continue
				}
				v := safeApply(m, op)
				res.Transitions++
				h := append(append([]int(nil), s.h...), op)
				if v != nil {
					dup := false
					for _, o := range res.Viol {
						if o.Key == v.Key {
							dup = true
						}
					}
					if !dup {
						res.Viol = append(res.Viol, vrec{Key: v.Key, Msg: v.Msg, Hist: h, Ops: names(m, h)})
					}
					continue // do not extend a violating history
				}
				k := m.Key()
				if !sc.NoDedup {
					if _, ok := seen[k]; ok {
						continue
					}
					seen[k] = struct{}{}
				}
				res.States++
				res.PerDepth[depth+1]++
				if len(h) > res.MaxDepth {
					res.MaxDepth = len(h)
					res.Sample = names(m, h)
				}
				next = append(next, st{h})
			}
		}
		frontier = next
	}
	return res
}

// WorkerMain runs one shard (internal worker mode).
func WorkerMain(scopes []*Scope, arg string) {
	byName := map[string]*Scope{}
	for _, s := range scopes {
		byName[s.Name] = s
	}
	var shard, n int
	var dl int64
	parts := strings.Split(arg, "\x1f")
	name := parts[0]
	fmt.Sscan(parts[1], &shard)
	fmt.Sscan(parts[2], &n)
	fmt.Sscan(parts[3], &dl)
	pfd, _ := syscall.Dup(1)
	if dn, err := os.OpenFile(os.DevNull, os.O_WRONLY, 0); err == nil {
		syscall.Dup2(int(dn.Fd()), 1)
		if os.Getenv("VERIF_WORKER_STDERR") == "" {
			syscall.Dup2(int(dn.Fd()), 2)
		}
	}
	res := search(byName[name], shard, n, time.UnixMilli(dl))
	b, _ := json.Marshal(res)
	out := bufio.NewWriter(os.NewFile(uintptr(pfd), "proto"))
	out.Write(b)
	out.WriteByte('\n')
	out.Flush()
}

// RunScopes explores the scopes of the tier with worker processes (started as
// `os.Args[0] <workerFlag> <arg>`) and adds the results to rep / cov.
func RunScopes(property string, all []*Scope, tier, only string, nworkers int, deadline time.Time, rep *evidence.Reporter, cov *evidence.Coverage, workerFlag string) {
	var scopes []*Scope
	for _, s := range all {
		if (s.Tiers == "" || s.Tiers == tier) && (only == "" || only == s.Name) {
			scopes = append(scopes, s)
		}
	}
	for i, sc := range scopes {
		remain := time.Until(deadline)
		dl := time.Now().Add(remain / time.Duration(len(scopes)-i))
		start := time.Now()
		n := nworkers
		if nops := sc.NewModel().NumOps(); nops < n {
			n = nops
		}
		results := make([]*result, n)
		errs := make([]error, n)
		var wg sync.WaitGroup
		for sh := 0; sh < n; sh++ {
			wg.Add(1)
			go func(sh int) {
				defer wg.Done()
				run := func() ([]byte, error) {
					cmd := exec.Command(os.Args[0], workerFlag, fmt.Sprintf("%s\x1f%d\x1f%d\x1f%d", sc.Name, sh, n, dl.UnixMilli()))
					cmd.Stderr = os.Stderr
					return cmd.Output()
				}
				out, err := run()
				if ee, ok := err.(*exec.ExitError); ok && ee.ExitCode() < 0 {
					// killed by a signal from outside: one retry (a crash of its own has an exit code)
					fmt.Fprintf(os.Stderr, "NOTE %s scope %s: worker %d: %v, retrying\n", property, sc.Name, sh, err)
					out, err = run()
				}
				if err != nil {
					errs[sh] = fmt.Errorf("worker %d: %v", sh, err)
					return
				}
				var r result
				for _, line := range strings.Split(string(out), "\n") {
					if strings.HasPrefix(line, "{") && json.Unmarshal([]byte(line), &r) == nil {
						results[sh] = &r
					}
				}
				if results[sh] == nil {
					errs[sh] = fmt.Errorf("worker %d: no result", sh)
				}
			}(sh)
		}
		wg.Wait()
		tot := &result{Complete: true}
		for sh := 0; sh < n; sh++ {
			if errs[sh] != nil {
				fmt.Fprintf(os.Stderr, "INFRA: %s scope %s: %v\n", property, sc.Name, errs[sh])
				os.Exit(2)
			}
			r := results[sh]
			tot.States += r.States
			tot.Transitions += r.Transitions
			tot.Replays += r.Replays
			if r.MaxDepth > tot.MaxDepth {
				tot.MaxDepth = r.MaxDepth
				tot.Sample = r.Sample
			}
			tot.Complete = tot.Complete && r.Complete
			for _, v := range r.Viol {
				rep.Report(&evidence.Violation{Scenario: sc.Name, Key: v.Key, Message: v.Msg + "\nhistory: " + strings.Join(v.Ops, " ; "), Replay: v.Hist, Trace: v.Ops})
			}
		}
		cov.States += tot.States
		cov.Transitions += tot.Transitions
		cov.TracesValidatedAgainstImpl += tot.Replays
		cov.Evaluations += tot.Transitions
		cov.DistinctNontrivial += tot.States
		if !tot.Complete {
			cov.Exhaustive = false
			cov.CapsHit = append(cov.CapsHit, fmt.Sprintf("scope %s: time budget reached (depth %d not completed; %d states)", sc.Name, sc.Depth, tot.States))
		}
		cov.Scenarios = append(cov.Scenarios, map[string]interface{}{"scope": sc.Name, "depth": sc.Depth, "states": tot.States, "transitions": tot.Transitions,
			"histories_replayed_on_impl": tot.Replays, "max_depth_reached": tot.MaxDepth, "exhaustive": tot.Complete, "wall_s": time.Since(start).Seconds()})
		if len(tot.Sample) > 0 && len(cov.Samples) < 8 {
			cov.Samples = append(cov.Samples, map[string]interface{}{"scope": sc.Name, "history": tot.Sample})
		}
		fmt.Printf("%s %-30s depth<=%d states=%d transitions=%d replays=%d exhaustive=%v %.1fs\n", property, sc.Name, sc.Depth, tot.States, tot.Transitions, tot.Replays, tot.Complete, time.Since(start).Seconds())
	}
}

// Main is the entry point of an engine-B check binary.
func Main(cfg *Config) {
	tier := flag.String("tier", "quick", "quick|thorough")
	worker := flag.String("worker", "", "internal: scope:shard:n:deadline")
	replay := flag.String("replay", "", "replay a violation file")
	budget := flag.Int("budget", 0, "time budget in seconds")
	nworkers := flag.Int("workers", 0, "worker processes")
	only := flag.String("scope", "", "only this scope")
	flag.Parse()
	byName := map[string]*Scope{}
	for _, s := range cfg.Scopes {
		byName[s.Name] = s
	}
	if *worker != "" {
		WorkerMain(cfg.Scopes, *worker)
		return
	}
	if *replay != "" {
		os.Exit(ReplayFile(cfg.Property, cfg.Scopes, *replay))
	}
	if *budget == 0 {
		*budget = 240
		if *tier == "thorough" {
			*budget = 1500
		}
	}
	if *nworkers == 0 {
		*nworkers = runtime.NumCPU()
	}
	rep := evidence.NewReporter(cfg.Property)
	cov := evidence.Coverage{Exhaustive: true, Rule: cfg.Rule}
	deadline := time.Now().Add(time.Duration(*budget) * time.Second)
	RunScopes(cfg.Property, cfg.Scopes, *tier, *only, *nworkers, deadline, rep, &cov, "-worker")
	if cfg.Extra != nil {
		cfg.Extra(*tier, rep, &cov)
	}
	cov.KnownFindings = rep.KnownReported()
	lvl := cfg.Level
	if lvl == "" {
		lvl = "model_checking"
	}
	ev := &evidence.File{PropertyID: cfg.Property, Tier: *tier, Seed: evidence.Seed(), Level: lvl, Coverage: cov, Assumptions: cfg.Assumptions, WallS: rep.Wall(), Violations: len(rep.Unknown)}
	if err := evidence.Write(ev); err != nil {
		fmt.Fprintf(os.Stderr, "INFRA: write evidence: %v\n", err)
		os.Exit(2)
	}
	if rep.Failed() {
		os.Exit(1)
	}
}

// ReplayFile replays a violation file of an engine-B scope (returns the exit code;
// -1 when the file belongs to no scope of this engine).
func ReplayFile(property string, scopes []*Scope, path string) int {
	byName := map[string]*Scope{}
	for _, s := range scopes {
		byName[s.Name] = s
	}
	b, err := os.ReadFile(path)
	if err != nil {
		fmt.Fprintln(os.Stderr, err)
		return 2
	}
	var v struct {
		Scenario string `json:"scenario"`
		Replay   []int  `json:"replay"`
	}
	if err := json.Unmarshal(b, &v); err != nil {
		fmt.Fprintln(os.Stderr, err)
		return 2
	}
	sc := byName[v.Scenario]
	if sc == nil {
		return -1
	}
	m := sc.NewModel()
	m.Reset()
	for i, op := range v.Replay {
		viol := m.Apply(op)
		fmt.Printf("  %d. %s -> %s\n", i+1, m.OpName(op), m.Key())
		if viol != nil {
			fmt.Printf("VIOLATION property=%s replay=%s\n  key=%s\n  %s\n", property, path, viol.Key, viol.Msg)
			return 1
		}
	}
	fmt.Println("no violation on replay")
	return 0
}
