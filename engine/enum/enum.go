// Package enum enumerates every outcome of the random draws (vrand) made by a
// function: the function is re-run with each choice sequence, depth first,
// until the whole tree of draws has been visited.
package enum

import "github.com/tikv/pd/pkg/verifshim/vrand"

// All calls f once per complete sequence of random draws. f must be
// deterministic given the draws. It returns the number of runs; it stops early
// (returning -runs) when max > 0 runs were reached.
func All(max int, f func()) int {
	var prefix []int
	runs := 0
	for {
		var taken, widths []int
		pos := 0
		vrand.Chooser = func(n int, _ string) int {
			c := 0
			if pos < len(prefix) {
				c = prefix[pos]
			}
			if c >= n {
				c = n - 1
			}
			pos++
			taken = append(taken, c)
			widths = append(widths, n)
			return c
		}
		f()
		vrand.Chooser = nil
		runs++
		if max > 0 && runs >= max {
			return -runs
		}
		// next sequence: increment the last position that can be incremented
		i := len(taken) - 1
		for i >= 0 && taken[i]+1 >= widths[i] {
			i--
		}
		if i < 0 {
			return runs
		}
		prefix = append(append([]int(nil), taken[:i]...), taken[i]+1)
	}
}
