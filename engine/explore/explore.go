// Package explore is engine A: stateless depth-first exploration of all
// schedules / environment answers of a small harness running the real pd code
// under shim/sched, bounded by preemptions and deviations, sharded over worker
// processes.
package explore

import (
	"bufio"
	"encoding/json"
	"flag"
	"fmt"
	"os"
	"os/exec"
	"runtime"
	"runtime/debug"
	"sort"
	"strings"
	"sync"
	"syscall"
	"time"

	"github.com/tikv/pd/pkg/verifshim/sched"
	"verif/engine/evidence"
	"verif/engine/hist"
)

// Violation is returned by Instance.Check.
type Violation struct {
	Key string // canonical identity (matched against known_findings.json)
	Msg string
}

func (v *Violation) Error() string { return v.Key + ": " + v.Msg }

// Instance is one fresh set of real objects plus the thread bodies driving them.
type Instance struct {
	Names   []string
	Threads []func()
	// Check runs after the execution (scheduler inactive). outcome is a short
	// signature used to count distinct observed outcomes.
	Check   func(r *sched.Run) (outcome string, v *Violation)
	Cleanup func()
}

// Scenario is one harness with its bounds.
type Scenario struct {
	Name   string
	Setup  func() *Instance
	Opts   sched.Options
	MaxPre int
	MaxDev int
	// AllowDeadlock: a deadlock/horizon is passed to Check instead of being a violation.
	AllowFailure bool
	Tiers        string // "quick", "thorough" or "" (both)
}

type vrec struct {
	Key     string   `json:"key"`
	Msg     string   `json:"msg"`
	Choices []int    `json:"choices"`
	Trace   []string `json:"trace,omitempty"`
}

type result struct {
	Execs    int64            `json:"execs"`
	Nodes    int64            `json:"nodes"`
	Steps    int64            `json:"steps"`
	MaxDepth int              `json:"max_depth"`
	Outcomes map[string]int64 `json:"outcomes"`
	Viol     []vrec           `json:"viol,omitempty"`
	Spill    [][]int          `json:"spill,omitempty"`
	Infra    string           `json:"infra,omitempty"`
	Sample   *sample          `json:"sample,omitempty"`
}

type sample struct {
	Choices []int    `json:"choices"`
	Outcome string   `json:"outcome"`
	Trace   []string `json:"trace,omitempty"`
}

func runOne(sc *Scenario, prefix []int, trace bool) (*sched.Run, string, *Violation) {
	inst := sc.Setup()
	opts := sc.Opts
	opts.Trace = trace
	r := sched.Execute(prefix, opts, inst.Names, inst.Threads)
	var out string
	var v *Violation
	if strings.HasPrefix(r.Failure, "divergence") {
		// infrastructure problem, never a violation
	} else if r.Failure != "" && !sc.AllowFailure {
		key := r.Failure
		if i := strings.Index(key, ":"); i > 0 {
			key = key[:i]
		}
		v = &Violation{Key: "engine-" + key, Msg: r.Failure + "\n" + r.PanicStk}
	} else {
		out, v = inst.Check(r)
	}
	if inst.Cleanup != nil {
		inst.Cleanup()
	}
	return r, out, v
}

// exploreSubtree explores the subtree below prefix (inclusive) up to maxExecs executions.
func exploreSubtree(sc *Scenario, root []int, maxExecs int64, deadline time.Time) *result {
	res := &result{Outcomes: map[string]int64{}}
	stack := [][]int{root}
	for len(stack) > 0 {
		if res.Execs >= maxExecs || (!deadline.IsZero() && time.Now().After(deadline)) {
			res.Spill = stack
			return res
		}
		prefix := stack[len(stack)-1]
		stack = stack[:len(stack)-1]
		r, out, v := runOne(sc, prefix, false)
		if strings.HasPrefix(r.Failure, "divergence") {
			res.Infra = fmt.Sprintf("%s (prefix %v)", r.Failure, prefix)
			if os.Getenv("VERIF_DIVERGE_DEBUG") != "" && len(prefix) > 0 {
				for k := 0; k < 3; k++ {
					r2, _, _ := runOne(sc, prefix[:len(prefix)-1], true)
					i := len(prefix) - 1
					n := -1
					if i < len(r2.Points) {
						n = r2.Points[i].NAlts
					}
					ev := r2.Events
					fmt.Fprintf(os.Stderr, "DIVERGE-DEBUG rerun %d of the parent: decision %d has %d alternatives, %d points, %d events\n", k, i, n, len(r2.Points), len(ev))
					for j, e := range ev {
						if j >= i-12 && j <= i+3 {
							fmt.Fprintf(os.Stderr, "   %d %s\n", j, e)
						}
					}
				}
			}
			return res
		}
		res.Execs++
		np := len(r.Points)
		res.Nodes += int64(np - len(prefix) + 1)
		res.Steps += int64(np)
		if np > res.MaxDepth {
			res.MaxDepth = np
		}
		res.Outcomes[out]++
		if res.Sample == nil {
			res.Sample = &sample{Choices: r.Choices(), Outcome: out}
		}
		if v != nil {
			// confirm determinism: replay the full choice list twice with tracing
			ch := r.Choices()
			r2, _, v2 := runOne(sc, ch, true)
			r3, _, v3 := runOne(sc, ch, true)
			if v2 == nil || v3 == nil || v2.Key != v.Key || r2.Signature() != r3.Signature() {
				res.Infra = fmt.Sprintf("violation %q not reproducible on replay of %v (replay1=%v replay2=%v)", v.Key, ch, v2, v3)
				return res
			}
			dup := false
			for _, o := range res.Viol {
				if o.Key == v.Key {
					dup = true
				}
			}
			if !dup {
				res.Viol = append(res.Viol, vrec{Key: v.Key, Msg: v.Msg, Choices: ch, Trace: r2.Events})
			}
		}
		for i := np - 1; i >= len(prefix); i-- {
			p := r.Points[i]
			for alt := p.NAlts - 1; alt >= 1; alt-- {
				if p.IsChoose {
					if p.Dev+p.Cost > sc.MaxDev {
						continue
					}
				} else if p.Pre+sc.Opts.ThreadCost(p.CurEnabled, alt) > sc.MaxPre {
					continue
				}
				child := make([]int, i+1)
				for k := 0; k < i; k++ {
					child[k] = r.Points[k].Chosen
				}
				child[i] = alt
				stack = append(stack, child)
			}
		}
	}
	return res
}

// Stats of one explored scenario.
type Stats struct {
	Scenario   string           `json:"scenario"`
	MaxPre     int              `json:"max_preemptions"`
	MaxDev     int              `json:"max_deviations"`
	Execs      int64            `json:"executions"`
	Nodes      int64            `json:"tree_nodes"`
	Steps      int64            `json:"steps"`
	MaxDepth   int              `json:"max_decisions"`
	Outcomes   int              `json:"distinct_outcomes"`
	Exhaustive bool             `json:"exhaustive"`
	WallS      float64          `json:"wall_s"`
	TopOutcome map[string]int64 `json:"outcome_histogram,omitempty"`
	Sample     *sample          `json:"sample,omitempty"`
}

type workerProc struct {
	cmd *exec.Cmd
	in  *bufio.Writer
	out *bufio.Scanner
}

type job struct {
	Scenario string `json:"scenario"`
	Prefix   []int  `json:"prefix"`
	MaxExecs int64  `json:"max_execs"`
	Deadline int64  `json:"deadline_unix_ms"`
}

// Config drives Main.
type Config struct {
	Property    string
	Scenarios   []*Scenario
	Assumptions []string
	Rule        string
	// Extra runs after the exploration in the parent (e.g. sequential sub-checks); it
	// may add to the coverage and report violations.
	Extra func(tier string, rep *evidence.Reporter, cov *evidence.Coverage)
	// QuickBudget / ThoroughBudget: time budget of the tier in seconds (0: 240 / 1500).
	QuickBudget, ThoroughBudget int
	// ExtraReplay replays a violation reported by Extra (scenario name, choice list);
	// it returns the exit code or -1 if the scenario is not one of Extra's.
	ExtraReplay func(scenario string, choices []int, path string) int
	// HistScopes are engine-B searches (operation histories) run after the schedules.
	HistScopes []*hist.Scope
}

func workerMain(cfg *Config) {
	in := bufio.NewScanner(os.Stdin)
	in.Buffer(make([]byte, 1<<20), 1<<26)
	// keep the protocol on a private descriptor; whatever the code under test
	// prints to stdout goes to /dev/null.
	pfd, err := syscall.Dup(1)
	if err != nil {
		panic(err)
	}
	if dn, err := os.OpenFile(os.DevNull, os.O_WRONLY, 0); err == nil {
		syscall.Dup2(int(dn.Fd()), 1)
		if os.Getenv("VERIF_WORKER_STDERR") == "" {
			syscall.Dup2(int(dn.Fd()), 2)
		}
	}
	out := bufio.NewWriter(os.NewFile(uintptr(pfd), "proto"))
	byName := map[string]*Scenario{}
	for _, s := range cfg.Scenarios {
		byName[s.Name] = s
	}
	for in.Scan() {
		var j job
		if err := json.Unmarshal(in.Bytes(), &j); err != nil {
			fmt.Fprintf(os.Stderr, "worker: bad job: %v\n", err)
			os.Exit(2)
		}
		var dl time.Time
		if j.Deadline > 0 {
			dl = time.UnixMilli(j.Deadline)
		}
		res := exploreSubtree(byName[j.Scenario], j.Prefix, j.MaxExecs, dl)
		b, _ := json.Marshal(res)
		out.Write(b)
		out.WriteByte('\n')
		out.Flush()
	}
}

// Main is the entry point of an engine-A check binary.
func Main(cfg *Config) {
	tier := flag.String("tier", "quick", "quick|thorough")
	worker := flag.Bool("worker", false, "internal: worker mode")
	replay := flag.String("replay", "", "replay a violation file")
	budget := flag.Int("budget", 0, "time budget in seconds for the exploration (0 = tier default)")
	nworkers := flag.Int("workers", 0, "worker processes (default: cores)")
	only := flag.String("scenario", "", "only this scenario")
	histWorker := flag.String("histworker", "", "internal: engine-B worker")
	free := flag.Int("free", 0, "free-running pass: run every scenario's threads n times as ordinary goroutines (binary built with -race), no exploration")
	flag.Parse()
	if *worker {
		workerMain(cfg)
		return
	}
	if *histWorker != "" {
		hist.WorkerMain(cfg.HistScopes, *histWorker)
		return
	}
	if *replay != "" {
		if rc := hist.ReplayFile(cfg.Property, cfg.HistScopes, *replay); rc >= 0 {
			os.Exit(rc)
		}
		os.Exit(replayFile(cfg, *replay))
	}
	if *budget == 0 {
		*budget = 240
		if cfg.QuickBudget > 0 {
			*budget = cfg.QuickBudget
		}
		if *tier == "thorough" {
			*budget = 1500
			if cfg.ThoroughBudget > 0 {
				*budget = cfg.ThoroughBudget
			}
		}
	}
	if *nworkers == 0 {
		*nworkers = runtime.NumCPU()
	}
	rep := evidence.NewReporter(cfg.Property)
	cov := evidence.Coverage{Exhaustive: true, Rule: cfg.Rule}
	var scens []*Scenario
	for _, s := range cfg.Scenarios {
		if (s.Tiers == "" || s.Tiers == *tier) && (*only == "" || *only == s.Name) {
			scens = append(scens, s)
		}
	}
	if *free > 0 {
		freeRun(cfg, scens, *free)
		return
	}
	deadline := time.Now().Add(time.Duration(*budget) * time.Second)
	if len(cfg.HistScopes) > 0 {
		// engine B gets a third of the budget
		deadline = time.Now().Add(time.Duration(*budget) * time.Second * 2 / 3)
	}
	outcomesAll := map[string]struct{}{}
	for i, sc := range scens {
		// split the remaining budget evenly over the remaining scenarios
		remain := time.Until(deadline)
		dl := time.Now().Add(remain / time.Duration(len(scens)-i))
		st, viols, infra := exploreScenario(cfg, sc, *nworkers, dl)
		if infra != "" {
			fmt.Fprintf(os.Stderr, "INFRA: %s scenario %s: %s\n", cfg.Property, sc.Name, infra)
			if rep.Failed() {
				// a violation has been reported already: the run fails as a violation
				os.Exit(1)
			}
			os.Exit(2)
		}
		for _, v := range viols {
			rep.Report(&evidence.Violation{Scenario: sc.Name, Key: v.Key, Message: v.Msg, Replay: v.Choices, Trace: v.Trace})
		}
		cov.States += st.Nodes
		cov.Transitions += st.Steps
		cov.TracesValidatedAgainstImpl += st.Execs
		cov.Evaluations += st.Execs
		for o := range st.TopOutcome {
			outcomesAll[sc.Name+"/"+o] = struct{}{}
		}
		if !st.Exhaustive {
			cov.Exhaustive = false
			cov.CapsHit = append(cov.CapsHit, fmt.Sprintf("scenario %s: time budget reached after %d executions (bounds pre<=%d dev<=%d not completed)", sc.Name, st.Execs, sc.MaxPre, sc.MaxDev))
		}
		if len(st.TopOutcome) > 12 {
			st.TopOutcome = trimHist(st.TopOutcome, 12)
		}
		cov.Scenarios = append(cov.Scenarios, st)
		if st.Sample != nil && len(cov.Samples) < 6 {
			ch := st.Sample.Choices
			if len(ch) > 64 {
				ch = ch[:64]
			}
			st.Sample.Choices = ch
			cov.Samples = append(cov.Samples, map[string]interface{}{"scenario": sc.Name, "choices": ch, "outcome": st.Sample.Outcome})
		}
		fmt.Printf("%s %-28s pre<=%d dev<=%d execs=%d nodes=%d outcomes=%d exhaustive=%v %.1fs\n", cfg.Property, sc.Name, sc.MaxPre, sc.MaxDev, st.Execs, st.Nodes, st.Outcomes, st.Exhaustive, st.WallS)
	}
	closePool()
	cov.DistinctNontrivial = int64(len(outcomesAll))
	if len(cfg.HistScopes) > 0 && !rep.Failed() {
		hist.RunScopes(cfg.Property, cfg.HistScopes, *tier, *only, *nworkers, time.Now().Add(time.Duration(*budget)*time.Second/3), rep, &cov, "-histworker")
	}
	if cfg.Extra != nil {
		cfg.Extra(*tier, rep, &cov)
	}
	cov.KnownFindings = rep.KnownReported()
	ev := &evidence.File{PropertyID: cfg.Property, Tier: *tier, Seed: evidence.Seed(), Level: "model_checking", Coverage: cov, Assumptions: cfg.Assumptions, WallS: rep.Wall(), Violations: len(rep.Unknown)}
	if err := evidence.Write(ev); err != nil {
		fmt.Fprintf(os.Stderr, "INFRA: write evidence: %v\n", err)
		os.Exit(2)
	}
	if rep.Failed() {
		os.Exit(1)
	}
}

// freeRun is the separate free-running pass that goes with the cooperative scheduler: the scheduler's
// hand-offs are happens-before edges, so a race detector sees nothing under it. Here the same
// harness bodies run as ordinary goroutines with no scheduler (the shims are the original
// primitives), in a binary built with -race; unsynchronised accesses inside pd that the
// scheduling points would not interleave show up as race reports (run.sh <ID> race collects them).
// Nothing is decided here: no oracle is evaluated and the exit code is 0.
func freeRun(cfg *Config, scens []*Scenario, n int) {
	sched.FreeRunning = true
	for _, sc := range scens {
		done, stuck := 0, 0
		for i := 0; i < n; i++ {
			inst := sc.Setup()
			var wg sync.WaitGroup
			start := make(chan struct{})
			for _, body := range inst.Threads {
				wg.Add(1)
				go func(b func()) {
					defer wg.Done()
					defer func() {
						if p := recover(); p != nil && os.Getenv("VERIF_FREE_DEBUG") != "" {
							fmt.Fprintf(os.Stderr, "free-run %s: body panicked: %v\n%s\n", sc.Name, p, debug.Stack())
						}
					}()
					<-start // all bodies are released together
					b()
				}(body)
			}
			close(start)
			fin := make(chan struct{})
			go func() { wg.Wait(); close(fin) }()
			select {
			case <-fin:
				done++
				if inst.Cleanup != nil {
					inst.Cleanup()
				}
			case <-time.After(20 * time.Second):
				stuck++ // bodies that wait for the scheduler's ordering; their goroutines are left behind
			}
			if stuck >= 2 {
				break
			}
		}
		fmt.Printf("%s free-run %-28s runs=%d completed=%d stuck=%d\n", cfg.Property, sc.Name, done+stuck, done, stuck)
	}
}

func trimHist(h map[string]int64, n int) map[string]int64 {
	type kv struct {
		k string
		v int64
	}
	var l []kv
	for k, v := range h {
		l = append(l, kv{k, v})
	}
	sort.Slice(l, func(i, j int) bool { return l[i].v > l[j].v || (l[i].v == l[j].v && l[i].k < l[j].k) })
	out := map[string]int64{}
	for i := 0; i < n && i < len(l); i++ {
		out[l[i].k] = l[i].v
	}
	return out
}

// pool keeps one worker process per slot alive across scenarios.
var pool []*workerProc

func closePool() {
	for _, wp := range pool {
		if wp != nil {
			wp.in.Flush()
			wp.cmd.Process.Kill()
			wp.cmd.Wait()
		}
	}
	pool = nil
}

func exploreScenario(cfg *Config, sc *Scenario, nworkers int, deadline time.Time) (*Stats, []vrec, string) {
	if len(pool) < nworkers {
		pool = append(pool, make([]*workerProc, nworkers-len(pool))...)
	}
	start := time.Now()
	st := &Stats{Scenario: sc.Name, MaxPre: sc.MaxPre, MaxDev: sc.MaxDev, Exhaustive: true, TopOutcome: map[string]int64{}}
	var viols []vrec
	var mu sync.Mutex
	queue := [][]int{{}}
	inflight := 0
	infra := ""
	cond := sync.NewCond(&mu)
	merge := func(r *result) {
		st.Execs += r.Execs
		st.Nodes += r.Nodes
		st.Steps += r.Steps
		if r.MaxDepth > st.MaxDepth {
			st.MaxDepth = r.MaxDepth
		}
		for k, v := range r.Outcomes {
			st.TopOutcome[k] += v
		}
		if st.Sample == nil && r.Sample != nil {
			st.Sample = r.Sample
		}
		for _, v := range r.Viol {
			dup := false
			for _, o := range viols {
				if o.Key == v.Key {
					dup = true
				}
			}
			if !dup {
				viols = append(viols, v)
			}
		}
		queue = append(queue, r.Spill...)
		if r.Infra != "" && infra == "" {
			infra = r.Infra
		}
	}
	// first item in-process cheaply? no: the scheduler is process-global and the
	// harness may leak goroutines; always use workers.
	var wg sync.WaitGroup
	stop := false
	for w := 0; w < nworkers; w++ {
		wg.Add(1)
		go func(w int) {
			defer wg.Done()
			wp := pool[w]
			defer func() { pool[w] = wp }()
			for {
				mu.Lock()
				for len(queue) == 0 && inflight > 0 && !stop {
					cond.Wait()
				}
				if stop || (len(queue) == 0 && inflight == 0) {
					mu.Unlock()
					cond.Broadcast()
					return
				}
				if time.Now().After(deadline) {
					st.Exhaustive = false
					stop = true
					mu.Unlock()
					cond.Broadcast()
					return
				}
				pfx := queue[len(queue)-1]
				queue = queue[:len(queue)-1]
				inflight++
				// small quanta while the queue is short so that work spreads quickly
				quantum := int64(2000)
				if len(queue) < 2*nworkers {
					quantum = 50
				}
				if st.Execs < 20 {
					quantum = 1
				}
				mu.Unlock()
				if wp == nil {
					var err error
					wp, err = startWorker()
					if err != nil {
						mu.Lock()
						infra = err.Error()
						stop = true
						inflight--
						mu.Unlock()
						cond.Broadcast()
						return
					}
				}
				res, err := wp.do(&job{Scenario: sc.Name, Prefix: pfx, MaxExecs: quantum, Deadline: deadline.UnixMilli()})
				if err != nil {
					// the worker process went away without a word (killed from outside, say): one retry of
					// the same job on a fresh worker; a crash that belongs to the job happens again
					fmt.Fprintf(os.Stderr, "NOTE %s scenario %s: %v on prefix %v, retrying on a fresh worker\n", cfg.Property, sc.Name, err, pfx)
					if wp2, err2 := startWorker(); err2 == nil {
						wp, pool[w] = wp2, wp2
						res, err = wp.do(&job{Scenario: sc.Name, Prefix: pfx, MaxExecs: quantum, Deadline: deadline.UnixMilli()})
					}
				}
				mu.Lock()
				inflight--
				if err != nil {
					infra = fmt.Sprintf("worker failed on prefix %v: %v", pfx, err)
					stop = true
					wp.cmd.Process.Kill()
					wp.cmd.Wait()
					wp = nil
				} else {
					merge(res)
					if infra != "" {
						stop = true
					}
					// stop early on an unlisted violation
					if len(viols) > 0 {
						rep := evidence.LoadFindings(cfg.Property)
						for _, v := range viols {
							known := false
							for _, f := range rep {
								if f.Key == v.Key || (strings.HasSuffix(f.Key, "*") && strings.HasPrefix(v.Key, strings.TrimSuffix(f.Key, "*"))) {
									known = true
								}
							}
							if !known {
								stop = true
								st.Exhaustive = false
							}
						}
					}
				}
				mu.Unlock()
				cond.Broadcast()
			}
		}(w)
	}
	wg.Wait()
	if len(queue) > 0 {
		st.Exhaustive = false
	}
	st.Outcomes = len(st.TopOutcome)
	st.WallS = time.Since(start).Seconds()
	return st, viols, infra
}

func startWorker() (*workerProc, error) {
	cmd := exec.Command(os.Args[0], "-worker")
	cmd.Stderr = os.Stderr
	cmd.Env = append(os.Environ(), "GOMAXPROCS=2")
	in, err := cmd.StdinPipe()
	if err != nil {
		return nil, err
	}
	out, err := cmd.StdoutPipe()
	if err != nil {
		return nil, err
	}
	if err := cmd.Start(); err != nil {
		return nil, err
	}
	sc := bufio.NewScanner(out)
	sc.Buffer(make([]byte, 1<<20), 1<<28)
	return &workerProc{cmd: cmd, in: bufio.NewWriter(in), out: sc}, nil
}

func (w *workerProc) do(j *job) (*result, error) {
	b, _ := json.Marshal(j)
	w.in.Write(b)
	w.in.WriteByte('\n')
	if err := w.in.Flush(); err != nil {
		return nil, err
	}
	for w.out.Scan() {
		line := w.out.Bytes()
		if len(line) == 0 || line[0] != '{' {
			continue // stray log output of the code under test
		}
		var r result
		if err := json.Unmarshal(line, &r); err != nil {
			continue
		}
		return &r, nil
	}
	return nil, fmt.Errorf("worker exited: %v", w.out.Err())
}

func replayFile(cfg *Config, path string) int {
	b, err := os.ReadFile(path)
	if err != nil {
		fmt.Fprintln(os.Stderr, err)
		return 2
	}
	var v struct {
		Scenario string `json:"scenario"`
		Replay   []int  `json:"replay"`
		Key      string `json:"key"`
	}
	if err := json.Unmarshal(b, &v); err != nil {
		fmt.Fprintln(os.Stderr, err)
		return 2
	}
	for _, sc := range cfg.Scenarios {
		if sc.Name != v.Scenario {
			continue
		}
		r, out, viol := runOne(sc, v.Replay, true)
		for _, e := range r.Events {
			fmt.Println("  ", e)
		}
		fmt.Printf("outcome: %s\n", out)
		if viol != nil {
			fmt.Printf("VIOLATION property=%s replay=%s\n  key=%s\n  %s\n", cfg.Property, path, viol.Key, viol.Msg)
			return 1
		}
		fmt.Println("no violation on replay")
		return 0
	}
	if cfg.ExtraReplay != nil {
		if rc := cfg.ExtraReplay(v.Scenario, v.Replay, path); rc >= 0 {
			return rc
		}
	}
	fmt.Fprintf(os.Stderr, "unknown scenario %q\n", v.Scenario)
	return 2
}
