#!/bin/bash
# run.sh <ID> <quick|thorough> [extra args...]   |   run.sh <ID> --replay <file>
# Rebuilds the check from /repo's current working tree (overlay regenerated each time).
set -u
ID=$1; shift
TIER=${1:-quick}; shift || true
V=/verif
export GOFLAGS=-mod=mod GOPROXY=off GOSUMDB=off GOTOOLCHAIN=local
export GOCACHE=${GOCACHE:-$V/.cache/go-build}
export VERIF_TIER=$TIER
id=$(echo "$ID" | tr 'A-Z' 'a-z')
GEN=$V/.gen/$id
mkdir -p "$GEN" $V/.bin $V/evidence $V/replays
(cd $V && go build -o .bin/rewrite ./engine/rewrite) || { echo "INFRA: cannot build rewriter"; exit 2; }
BIN=$V/.bin/$id
if [ -n "${VERIF_MUTATE:-}" ]; then GEN=$V/.gen/$id-mut-$$; BIN=$V/.bin/$id-mut-$$; mkdir -p "$GEN"; trap 'rm -rf "$GEN" "$BIN"' EXIT; fi
PKGS=$(cat $V/checks/$id/rewrite.pkgs 2>/dev/null | tr '\n' ',' )
$V/.bin/rewrite -repo /repo -out "$GEN" -shim $V/shim -pkgs "$PKGS" || { echo "INFRA: rewrite failed"; exit 2; }
if [ "$TIER" = "race" ]; then
  # free-running pass under the race detector (auxiliary: decides nothing, see DESIGN 9.5)
  BIN=$V/.bin/$id-race; mkdir -p $V/.race; rm -f $V/.race/$id.*
  (cd $V && go build -race -tags verif -overlay "$GEN/overlay.json" -o $BIN ./checks/$id) || { echo "INFRA: -race build of check $ID failed"; exit 2; }
  GORACE="log_path=$V/.race/$id exitcode=0 history_size=3" $BIN -tier quick -free ${VERIF_FREE_RUNS:-20} "$@"
  python3 $V/racepass.py $ID $V/.race/$id.*
  rm -f $BIN
  exit 0
fi
(cd $V && go build -tags verif -overlay "$GEN/overlay.json" -o $BIN ./checks/$id) || { echo "INFRA: build of check $ID failed"; exit 2; }
ulimit -v 33554432 2>/dev/null
if [ "$TIER" = "--replay" ]; then $BIN -replay "$@"; exit $?; fi
$BIN -tier "$TIER" "$@"
exit $?
