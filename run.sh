#!/bin/bash
# run.sh <ID> <quick|thorough> [extra args...]   |   run.sh <ID> --replay <file>
# Rebuilds the check from /repo's current working tree (overlay regenerated each time).
set -u
ID=$1; shift
TIER=${1:-quick}; shift || true
V=/verif
export GOFLAGS=-mod=mod GOPROXY=off GOSUMDB=off GOTOOLCHAIN=local
export GOCACHE=${GOCACHE:-$V/.cache/go-build}
export VERIF_TIER=$TIER
id=$(echo "$ID" | tr 'A-Z' 'a-z')
GEN=$V/.gen/$id
mkdir -p "$GEN" $V/.bin $V/evidence $V/replays
(cd $V && go build -o .bin/rewrite ./engine/rewrite) || { echo "INFRA: cannot build rewriter"; exit 2; }
BIN=$V/.bin/$id
if [ -n "${VERIF_MUTATE:-}" ]; then GEN=$V/.gen/$id-mut-$$; BIN=$V/.bin/$id-mut-$$; mkdir -p "$GEN"; trap 'rm -rf "$GEN" "$BIN"' EXIT; fi
PKGS=$(cat $V/checks/$id/rewrite.pkgs 2>/dev/null | tr '\n' ',' )
$V/.bin/rewrite -repo /repo -out "$GEN" -shim $V/shim -pkgs "$PKGS" || { echo "INFRA: rewrite failed"; exit 2; }
(cd $V && go build -tags verif -overlay "$GEN/overlay.json" -o $BIN ./checks/$id) || { echo "INFRA: build of check $ID failed"; exit 2; }
ulimit -v 33554432 2>/dev/null
if [ "$TIER" = "--replay" ]; then $BIN -replay "$@"; exit $?; fi
$BIN -tier "$TIER" "$@"
exit $?
