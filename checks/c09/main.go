// Check C09: operator lifecycle - one operator per region, epoch-checked
// admission, legal status moves, end statuses remembered, stale operators
// cancelled at the next heartbeat and only then.
//
// Engine B (hist.Model) over the real schedule.OperatorController on
// pkg/mock/mockcluster and hbstream (needRun=false, VerifDrain). Operators are
// produced by the real operator.Builder / Create*Operator helpers (plus two
// hand-made ones for the AddPeer / AddLightPeer step kinds the builder never
// emits). The TiKV side is verif/engine/regionsim: a faithful store executes a
// queued command only when it carries the region's current epoch and is
// addressed to the current leader. Time is virtual (vclock); the random bucket
// draw of the waiting queue is a parameter of the event.
//
// Alphabet: add(k) = build operator k from PD's current view and AddOperator;
// build(k) = build it and keep it in the scheduler's hand; add-hand /
// add-waiting-hand = AddOperator / AddWaitingOperator of everything in the hand
// (possibly stale or expired by then); remove(r) = RemoveOperator; hb(r) =
// region heartbeat (PD's view := store state, then Dispatch); push =
// PushOperators; exec(r) = the store handles every queued command; catchup(r) =
// pending peers catch up; foreign conf changes / leader changes; +4s, +11min;
// run(k,j) (first event only) = add(k) and j faithful store steps.
//
// Debug switch: VERIF_C09_DET=1 builds every runs template 200 times and reports
// templates whose steps differ from build to build (must print nothing but counts of 1).
//
// Oracle (reference written from the statement, evaluated after every event):
//
//	started-not-running, running-op-bad-status, unknown-running-op   <=1 running operator per region
//	admitted-stale-epoch, started-after-expiry                        admission
//	status-after-end, status-backwards, status-skips-started,
//	expired-after-start, expired-too-early, timeout-too-early         status matrix
//	left-running-non-end, left-waiting-non-end, end-status-not-remembered, refused-not-ended
//	command-misaddressed, command-without-operator,
//	command-not-current-step, command-missing, command-unexpected,
//	command-refused                                                    commands
//	cancelled-not-stale:<Step>                                         judged stale although nothing foreign happened / nothing is unaccounted
//	stale-not-cancelled:confver[:overcount:<Step>]                     conf_ver advanced by more than finished+current steps account for, not cancelled
//	stale-not-cancelled:precondition:<Step>                            current step's precondition broken, not cancelled
//	finished-not-success, timeout-missed, hb-outcome                   other heartbeat outcomes
//	oracle-self-check                                                  reference accounting disagrees with the simulator in a purely own run
package main

import (
	"context"
	"fmt"
	"os"
	"reflect"
	"sort"
	"strings"
	"time"
	"unsafe"

	"github.com/gogo/protobuf/proto"
	"github.com/pingcap/kvproto/pkg/eraftpb"
	"github.com/pingcap/kvproto/pkg/metapb"
	"github.com/pingcap/kvproto/pkg/pdpb"
	"github.com/pingcap/log"
	"github.com/tikv/pd/pkg/mock/mockcluster"
	"github.com/tikv/pd/pkg/mock/mockid"
	"github.com/tikv/pd/pkg/verifshim/vclock"
	"github.com/tikv/pd/pkg/verifshim/vrand"
	"github.com/tikv/pd/server/config"
	"github.com/tikv/pd/server/core"
	"github.com/tikv/pd/server/schedule"
	"github.com/tikv/pd/server/schedule/hbstream"
	"github.com/tikv/pd/server/schedule/operator"
	"github.com/tikv/pd/server/versioninfo"
	"go.uber.org/zap"
	"verif/engine/explore"
	"verif/engine/hist"
	"verif/engine/regionsim"
)

const (
	handCap     = 2 // builds the scheduler may hold before it submits them (a merge pair is one build)
	nStores     = 5
	allocBase   = 1000 // ids handed out by the allocator stay away from store / region / peer ids
	foreignBase = 9000 // peer ids of foreign peers
)

var regionIDs = []uint64{11, 12}

func infra(f string, a ...interface{}) {
	fmt.Fprintf(os.Stderr, "INFRA: "+f+"\n", a...)
	os.Exit(2)
}

// ---------------------------------------------------------------- step helpers

func stepType(s operator.OpStep) string {
	return strings.TrimPrefix(fmt.Sprintf("%T", s), "operator.")
}

// stepKey: the step kind as it appears in violation keys; a ChangePeerV2 step with
// one change (applied by the store as a simple change) is a class of its own.
func stepKey(s operator.OpStep) string {
	if promote, demote, _, ok := v2lists(s); ok {
		if len(promote)+len(demote) == 1 {
			return stepType(s) + "/single-change"
		}
		return stepType(s) + "/joint"
	}
	return stepType(s)
}

type pd struct{ store, id uint64 }

// lists of a ChangePeerV2 step
func v2lists(s operator.OpStep) (promote, demote []pd, leave, ok bool) {
	var pl []operator.PromoteLearner
	var dv []operator.DemoteVoter
	switch st := s.(type) {
	case operator.ChangePeerV2Enter:
		pl, dv = st.PromoteLearners, st.DemoteVoters
	case operator.ChangePeerV2Leave:
		pl, dv, leave = st.PromoteLearners, st.DemoteVoters, true
	default:
		return nil, nil, false, false
	}
	for _, p := range pl {
		promote = append(promote, pd{p.ToStore, p.PeerID})
	}
	for _, d := range dv {
		demote = append(demote, pd{d.ToStore, d.PeerID})
	}
	return promote, demote, leave, true
}

func addArgs(s operator.OpStep) (store, id uint64, learner, ok bool) {
	switch a := s.(type) {
	case operator.AddPeer:
		return a.ToStore, a.PeerID, false, true
	case operator.AddLightPeer:
		return a.ToStore, a.PeerID, false, true
	case operator.AddLearner:
		return a.ToStore, a.PeerID, true, true
	case operator.AddLightLearner:
		return a.ToStore, a.PeerID, true, true
	}
	return 0, 0, false, false
}

const (
	roleV  = metapb.PeerRole_Voter
	roleL  = metapb.PeerRole_Learner
	roleIn = metapb.PeerRole_IncomingVoter
	roleDe = metapb.PeerRole_DemotingVoter
)

// peerOn returns the peer with the id when it sits on the store.
func peerOn(v *regionsim.Region, store, id uint64) *regionsim.Peer {
	if p := v.StorePeer(store); p != nil && p.ID == id {
		return p
	}
	return nil
}

// refFinished: the effect of the step is completely visible in the region PD sees.
func refFinished(s operator.OpStep, v *regionsim.Region) bool {
	if store, id, learner, ok := addArgs(s); ok {
		p := peerOn(v, store, id)
		return p != nil && (p.Role == roleL) == learner && !v.Pending[id]
	}
	switch st := s.(type) {
	case operator.TransferLeader:
		return v.LeaderStore() == st.ToStore
	case operator.PromoteLearner:
		p := peerOn(v, st.ToStore, st.PeerID)
		return p != nil && p.Role != roleL
	case operator.DemoteFollower:
		p := peerOn(v, st.ToStore, st.PeerID)
		return p != nil && p.Role == roleL
	case operator.RemovePeer:
		return v.StorePeer(st.FromStore) == nil
	case operator.MergeRegion:
		if !st.IsPassive {
			return false
		}
		return string(v.StartKey) != string(st.ToRegion.GetStartKey()) || string(v.EndKey) != string(st.ToRegion.GetEndKey())
	case operator.SplitRegion:
		return string(v.StartKey) != string(st.StartKey) || string(v.EndKey) != string(st.EndKey)
	}
	if promote, demote, leave, ok := v2lists(s); ok {
		for _, x := range promote {
			p := peerOn(v, x.store, x.id)
			if p == nil || !(p.Role == roleV || (!leave && p.Role == roleIn)) {
				return false
			}
		}
		for _, x := range demote {
			p := peerOn(v, x.store, x.id)
			if p == nil || !(p.Role == roleL || (!leave && p.Role == roleDe)) {
				return false
			}
		}
		return !leave || !v.InJoint()
	}
	panic("unknown step " + stepType(s))
}

// refDelta: how much of the region's conf_ver the step accounts for in the
// region PD sees (the number of membership changes of the step whose result is
// visible). hasEnter: the operator also contains the enter step of this leave.
func refDelta(s operator.OpStep, v *regionsim.Region, hasEnter bool) uint64 {
	if store, id, learner, ok := addArgs(s); ok {
		p := peerOn(v, store, id)
		if p != nil && (learner || p.Role != roleL) {
			return 1
		}
		return 0
	}
	switch st := s.(type) {
	case operator.TransferLeader, operator.MergeRegion, operator.SplitRegion:
		return 0
	case operator.PromoteLearner:
		if p := peerOn(v, st.ToStore, st.PeerID); p != nil && p.Role != roleL {
			return 1
		}
		return 0
	case operator.DemoteFollower:
		if p := peerOn(v, st.ToStore, st.PeerID); p != nil && p.Role == roleL {
			return 1
		}
		return 0
	case operator.RemovePeer:
		gone := v.StorePeer(st.FromStore) == nil
		if st.PeerID != 0 {
			gone = v.PeerByID(st.PeerID) == nil
		}
		if gone {
			return 1
		}
		return 0
	}
	if promote, demote, leave, ok := v2lists(s); ok {
		n := uint64(len(promote) + len(demote))
		if leave && n == 1 && hasEnter {
			// a ChangePeerV2 with one change is applied as a simple conf change: the
			// region never enters the joint state and leaving consumes nothing
			return 0
		}
		for _, x := range promote {
			p := v.PeerByID(x.id)
			if p == nil || !(p.Role == roleV || (!leave && p.Role == roleIn)) {
				return 0
			}
		}
		for _, x := range demote {
			// a demoted peer that has meanwhile been removed stays accounted for
			if p := v.PeerByID(x.id); p != nil && !(p.Role == roleL || (!leave && p.Role == roleDe)) {
				return 0
			}
		}
		return n
	}
	panic("unknown step " + stepType(s))
}

// refPrecond: the precondition of the step in the region PD sees.
func refPrecond(s operator.OpStep, v *regionsim.Region) bool {
	if store, id, learner, ok := addArgs(s); ok {
		p := v.StorePeer(store)
		if p == nil {
			return true
		}
		if p.ID != id {
			return false
		}
		return !learner || p.Role == roleL
	}
	switch st := s.(type) {
	case operator.TransferLeader:
		p := v.StorePeer(st.ToStore)
		return p != nil && p.Role != roleL
	case operator.PromoteLearner:
		return peerOn(v, st.ToStore, st.PeerID) != nil
	case operator.DemoteFollower:
		p := peerOn(v, st.ToStore, st.PeerID)
		return p != nil && p.ID != v.Leader
	case operator.RemovePeer:
		return v.LeaderStore() != st.FromStore
	case operator.MergeRegion, operator.SplitRegion:
		return true
	}
	if promote, demote, leave, ok := v2lists(s); ok {
		before, during := 0, 0 // peers still in their role before the change / in the joint role
		for _, x := range promote {
			p := peerOn(v, x.store, x.id)
			if p == nil {
				return false
			}
			switch {
			case p.Role == roleIn:
				during++
			case !leave && p.Role == roleL, leave && p.Role == roleV:
				before++ // (for a leave: "before" means already left)
			default:
				return false
			}
		}
		for _, x := range demote {
			p := peerOn(v, x.store, x.id)
			if p == nil {
				return false
			}
			switch {
			case p.Role == roleDe:
				during++
				if leave && p.ID == v.Leader {
					return false
				}
			case !leave && p.Role == roleV:
				before++
				if len(promote)+len(demote) == 1 && p.ID == v.Leader {
					// the store applies a ChangePeerV2 with one change as a simple conf
					// change, and a simple change never demotes the leader
					return false
				}
			case leave && p.Role == roleL:
				before++
			default:
				return false
			}
		}
		joint := 0
		for _, p := range v.Peers {
			if p.Role == roleIn || p.Role == roleDe {
				joint++
			}
		}
		if before > 0 && during > 0 {
			return false
		}
		if before > 0 && joint != 0 {
			return false
		}
		if during > 0 && joint != during {
			return false
		}
		return true
	}
	panic("unknown step " + stepType(s))
}

// ---------------------------------------------------------------- scope configuration

type tmpl struct {
	name   string
	region int // index of the (first) region the operators are for
	build  func(m *model) ([]*operator.Operator, error)
	can    func(m *model) bool // optional: the event is only enabled when it holds
}

type foreignDef struct {
	name   string
	region int
	cmd    func(r *regionsim.Region) *pdpb.RegionHeartbeatResponse // nil = not possible now
}

const (
	oAdd = iota
	oBuild
	oAddHand
	oAddWaitHand
	oRemove
	oHB
	oPush
	oExec
	oCatchup
	oForeign
	oTime
	oRun
	oInfluence
)

type opDef struct {
	kind int
	k    int // template
	r    int // region index
	j    int // run: number of faithful store steps
	draw int // outcome of the waiting queue's random bucket draws in this event (see drawNames)
	d    time.Duration
}

type scopeCfg struct {
	name     string
	mode     int // joint consensus mode
	nRun     int // runs scopes: the first nRun templates are run(k,j) templates, the others are only added later
	regions  int
	tmpls    []tmpl
	foreign  []foreignDef
	maxBuilt int
	runs     bool // first event is run(k,j); nothing else is enabled in the initial state
	adds     bool // add(k) events
	hand     bool // build / add-hand / add-waiting-hand events
	times    []time.Duration
	jointStart bool // every region starts in the joint state (a leader change interrupted somebody's joint operator)
}

// ---------------------------------------------------------------- model

const (
	locHand = iota
	locWaiting
	locRunning
	locGone
)

type opRec struct {
	idx      int
	op       *operator.Operator
	tmpl     int
	region   uint64
	ridx     int
	ver, cv  uint64 // epoch recorded when the operator was built (PD's view then)
	created  time.Duration
	started  time.Duration
	hasStart bool
	last     operator.OpStatus
	refCur   int
	loc      int
	steps    []operator.OpStep
	hasEnter bool
	limit    time.Duration
}

type model struct {
	cfg  *scopeCfg
	ops  []opDef
	cl   *mockcluster.Cluster
	hbs  *hbstream.HeartbeatStreams
	oc   *schedule.OperatorController
	stop context.CancelFunc

	sims       []*regionsim.Region
	views      []*regionsim.Region // the region as of the last heartbeat (PD's view)
	mail       [][]*pdpb.RegionHeartbeatResponse
	recs       []*opRec
	hand       []int
	handBuilds int
	now        time.Duration
	foreign    bool // some foreign event happened
	nEvents    int
	// per event
	dispatched map[int]bool // regions whose heartbeat was dispatched in this event
	isPush     bool
	runLen     []int // steps of template k (runs scopes)
}

// joint consensus modes of a scope
const (
	modeJoint    = 0 // joint consensus used
	modeJointOff = 1 // supported but switched off: direct demotion (DemoteFollower) allowed
	modeNoJoint  = 2 // not supported by the cluster version
)

func newCluster(mode int) *mockcluster.Cluster {
	opts := config.NewTestOptions()
	cl := mockcluster.NewCluster(context.Background(), opts)
	sc := cl.GetScheduleConfig().Clone()
	sc.EnableJointConsensus = mode == modeJoint
	cl.SetScheduleConfig(sc)
	if mode == modeNoJoint {
		cl.DisableFeature(versioninfo.JointConsensus)
	}
	far := time.Now().Add(100000 * time.Hour)
	for id := uint64(1); id <= nStores; id++ {
		cl.PutStore(core.NewStoreInfo(&metapb.Store{Id: id}, core.SetStoreStats(&pdpb.StoreStats{Capacity: 1 << 40, Available: 1 << 39}), core.SetLastHeartbeatTS(far)))
	}
	return cl
}

func newModel(cfg *scopeCfg) *model {
	m := &model{cfg: cfg, cl: newCluster(cfg.mode)}
	m.hbs = hbstream.NewTestHeartbeatStreams(context.Background(), m.cl.ID, m.cl, false)
	if cfg.runs {
		m.Reset()
		for k := 0; k < cfg.nRun; k++ {
			m.Reset()
			ops, err := cfg.tmpls[k].build(m)
			if err != nil {
				infra("scope %s: template %s cannot be built: %v", cfg.name, cfg.tmpls[k].name, err)
			}
			n := ops[0].Len()
			m.runLen = append(m.runLen, n)
			for j := 0; j <= n; j++ {
				m.ops = append(m.ops, opDef{kind: oRun, k: k, j: j})
			}
		}
	}
	// events that change the initial state come first: the engine shards the search
	// over the worker processes by the index of the first event
	var rest []opDef
	if cfg.runs {
		rest = append(rest, opDef{kind: oAdd, k: -1}) // another operator of the run's template
		for k := cfg.nRun; k < len(cfg.tmpls); k++ {
			rest = append(rest, opDef{kind: oAdd, k: k})
		}
	}
	for k := range cfg.tmpls {
		if cfg.adds {
			m.ops = append(m.ops, opDef{kind: oAdd, k: k})
		}
		if cfg.hand {
			m.ops = append(m.ops, opDef{kind: oBuild, k: k})
		}
	}
	for f := range cfg.foreign {
		if cfg.runs {
			rest = append(rest, opDef{kind: oForeign, k: f})
		} else {
			m.ops = append(m.ops, opDef{kind: oForeign, k: f})
		}
	}
	for _, d := range cfg.times {
		if cfg.runs {
			rest = append(rest, opDef{kind: oTime, d: d})
		} else {
			m.ops = append(m.ops, opDef{kind: oTime, d: d})
		}
	}
	if cfg.hand {
		rest = append(rest, opDef{kind: oAddHand})
		for d := range drawNames {
			rest = append(rest, opDef{kind: oAddWaitHand, draw: d})
		}
	}
	for r := 0; r < cfg.regions; r++ {
		rest = append(rest, opDef{kind: oRemove, r: r}, opDef{kind: oHB, r: r}, opDef{kind: oExec, r: r}, opDef{kind: oCatchup, r: r})
		if cfg.hand {
			for d := 1; d < len(drawNames); d++ {
				rest = append(rest, opDef{kind: oHB, r: r, draw: d})
			}
		}
	}
	rest = append(rest, opDef{kind: oPush})
	rest = append(rest, opDef{kind: oInfluence})
	if cfg.hand {
		for d := 1; d < len(drawNames); d++ {
			rest = append(rest, opDef{kind: oPush, draw: d})
		}
	}
	m.ops = append(m.ops, rest...)
	m.Reset()
	return m
}

func (m *model) Reset() {
	if m.stop != nil {
		m.stop()
	}
	vclock.Enable(vclock.Epoch)
	vrand.Chooser = func(n int, _ string) int { return 0 }
	m.hbs.VerifDrain()
	for _, r := range m.cl.GetRegions() {
		m.cl.RemoveRegion(r)
	}
	m.cl.IDAllocator = mockid.NewIDAllocator()
	for i := 0; i < allocBase; i++ {
		m.cl.AllocID()
	}
	ctx, cancel := context.WithCancel(context.Background())
	m.stop = cancel
	m.oc = schedule.NewOperatorController(ctx, m.cl, m.hbs)
	m.sims, m.views, m.mail = nil, nil, nil
	for i := 0; i < m.cfg.regions; i++ {
		id := regionIDs[i]
		r := regionsim.New(id, []regionsim.Peer{{ID: id*10 + 1, Store: 1, Role: roleV}, {ID: id*10 + 2, Store: 2, Role: roleV}, {ID: id*10 + 3, Store: 3, Role: roleV}}, 1)
		if m.cfg.jointStart {
			r = regionsim.New(id, []regionsim.Peer{{ID: id*10 + 1, Store: 1, Role: roleV}, {ID: id*10 + 2, Store: 2, Role: roleDe}, {ID: id*10 + 3, Store: 3, Role: roleV}, {ID: id*10 + 4, Store: 4, Role: roleIn}}, 1)
		}
		m.sims = append(m.sims, r)
		m.views = append(m.views, r.Clone())
		m.mail = append(m.mail, nil)
		m.cl.PutRegion(r.Info())
	}
	m.recs, m.hand, m.handBuilds = nil, nil, 0
	m.now, m.foreign, m.nEvents = 0, false, 0
}

func (m *model) NumOps() int { return len(m.ops) }

func (m *model) OpName(i int) string {
	o := m.ops[i]
	hi := ""
	if o.draw > 0 {
		hi = ",draw=" + drawNames[o.draw]
	}
	switch o.kind {
	case oAdd:
		if o.k < 0 {
			return "add(same template)"
		}
		return "add(" + m.cfg.tmpls[o.k].name + ")"
	case oBuild:
		return "build(" + m.cfg.tmpls[o.k].name + ")"
	case oAddHand:
		return "add-hand"
	case oAddWaitHand:
		return "add-waiting-hand(" + strings.TrimPrefix(hi, ",") + ")"
	case oRemove:
		return fmt.Sprintf("remove(r%d)", regionIDs[o.r])
	case oHB:
		return fmt.Sprintf("hb(r%d%s)", regionIDs[o.r], hi)
	case oPush:
		return "push(" + strings.TrimPrefix(hi, ",") + ")"
	case oExec:
		return fmt.Sprintf("exec(r%d)", regionIDs[o.r])
	case oCatchup:
		return fmt.Sprintf("catchup(r%d)", regionIDs[o.r])
	case oForeign:
		return "foreign:" + m.cfg.foreign[o.k].name
	case oTime:
		return "+" + o.d.String()
	case oRun:
		return fmt.Sprintf("run(%s,%d/%d steps)", m.cfg.tmpls[o.k].name, o.j, m.runLen[o.k])
	case oInfluence:
		return "influence"
	}
	return "?"
}

// Possible prunes from the history alone.
func (m *model) Possible(h []int, op int) bool {
	o := m.ops[op]
	if m.cfg.runs && (len(h) == 0) != (o.kind == oRun) {
		return false
	}
	// cheap necessary conditions read off the history (Enabled decides exactly)
	submitted, built, handBuilds, waited, execd, foreign := false, 0, 0, false, false, false
	for _, i := range h {
		switch k := m.ops[i].kind; k {
		case oAdd, oRun:
			submitted = true
			built++
		case oBuild:
			built++
			handBuilds++
		case oAddHand, oAddWaitHand:
			submitted = true
			handBuilds = 0
			waited = waited || k == oAddWaitHand
		case oExec:
			execd = true
		case oForeign:
			foreign = true
		}
	}
	switch o.kind {
	case oAdd:
		return built < m.cfg.maxBuilt
	case oBuild:
		return built < m.cfg.maxBuilt && handBuilds < handCap
	case oAddHand:
		return handBuilds > 0
	case oAddWaitHand:
		return handBuilds > 0 && built >= drawNeeds[o.draw]
	case oRemove, oExec, oInfluence:
		return submitted
	case oCatchup:
		return execd || foreign
	case oHB, oPush:
		return o.draw == 0 || (waited && built >= drawNeeds[o.draw])
	}
	return true
}

// The waiting queue picks a priority bucket at random (weights 1/4/9 over the
// non-empty buckets). The draws of one event are a parameter of the event:
// every draw the lowest bucket, every draw the highest, or first low then high /
// first high then low. With at most two priority levels and at most three
// waiting entries these are all outcomes.
var drawNames = []string{"low", "high", "low-then-high", "high-then-low"}
var drawNeeds = []int{0, 2, 3, 3} // operators that must exist for the variant to differ from "low"

// drawMatters: variant d can differ from the variants before it.
func (m *model) drawMatters(d int, extra []*operator.Operator) bool {
	if d == 0 {
		return true
	}
	seen := map[core.PriorityLevel]bool{}
	n := 0
	for _, w := range append(m.oc.GetWaitingOperators(), extra...) {
		seen[w.GetPriorityLevel()] = true
		n++
	}
	return len(seen) >= 2 && n >= drawNeeds[d]
}

func (m *model) Enabled(i int) bool {
	o := m.ops[i]
	if m.cfg.runs && (m.nEvents == 0) != (o.kind == oRun) {
		return false
	}
	switch o.kind {
	case oAdd, oBuild:
		if len(m.recs) >= m.cfg.maxBuilt {
			return false
		}
		if o.kind == oBuild && m.handBuilds >= handCap {
			return false
		}
		k := o.k
		if k < 0 {
			k = m.recs[0].tmpl
		}
		if c := m.cfg.tmpls[k].can; c != nil && !c(m) {
			return false
		}
		return m.cl.GetRegion(regionIDs[m.cfg.tmpls[k].region]) != nil
	case oAddHand:
		return len(m.hand) > 0
	case oAddWaitHand:
		if len(m.hand) == 0 {
			return false
		}
		var extra []*operator.Operator
		for _, h := range m.hand {
			extra = append(extra, m.recs[h].op)
		}
		return m.drawMatters(o.draw, extra)
	case oRemove:
		return m.oc.GetOperator(regionIDs[o.r]) != nil
	case oHB:
		if m.sims[o.r].Merged {
			return false
		}
		return m.drawMatters(o.draw, nil)
	case oPush:
		return m.drawMatters(o.draw, nil)
	case oExec:
		return len(m.mail[o.r]) > 0
	case oInfluence:
		return len(m.oc.GetOperators()) > 0
	case oCatchup:
		return m.sims[o.r].HasPending()
	case oForeign:
		f := m.cfg.foreign[o.k]
		r := m.sims[f.region]
		if r.Merged {
			return false
		}
		cmd := f.cmd(r)
		if cmd == nil {
			return false
		}
		return r.Clone().ApplyCommand(cmd) == nil
	}
	return true
}

// record reads the controller's remembered end status of a region (shadowed by the
// running operator in GetOperatorStatus).
func (m *model) record(regionID uint64) *schedule.OperatorWithStatus {
	f := reflect.ValueOf(m.oc).Elem().FieldByName("opRecords")
	if !f.IsValid() || f.Kind() != reflect.Ptr {
		infra("OperatorController.opRecords not found")
	}
	recs := (*schedule.OperatorRecords)(unsafe.Pointer(f.Pointer()))
	return recs.Get(regionID)
}

// notifier queue (hidden state that decides what PushOperators does), read for the state key only
func (m *model) notifierKey() string {
	f := reflect.ValueOf(m.oc).Elem().FieldByName("opNotifierQueue")
	if !f.IsValid() {
		infra("OperatorController.opNotifierQueue not found")
	}
	var b strings.Builder
	for i := 0; i < f.Len(); i++ {
		e := f.Index(i).Elem()
		opp := e.FieldByName("op").Pointer()
		t := *(*time.Time)(unsafe.Pointer(e.FieldByName("time").UnsafeAddr()))
		var region uint64
		for _, rc := range m.recs {
			if uintptr(unsafe.Pointer(rc.op)) == opp {
				region = rc.region
			}
		}
		due := t.Sub(vclock.Epoch) - m.now // the entry serves whatever operator runs on the region when it is due
		if due < 0 {
			due = 0
		}
		fmt.Fprintf(&b, "r%d+%d,", region, int64(due/time.Millisecond))
	}
	return b.String()
}

func cmdStr(c *pdpb.RegionHeartbeatResponse) string {
	if c == nil {
		return "none"
	}
	var s string
	switch {
	case c.GetTransferLeader() != nil:
		s = fmt.Sprintf("transfer-leader->%d", c.GetTransferLeader().GetPeer().GetStoreId())
	case c.GetChangePeer() != nil:
		s = fmt.Sprintf("%s(%d@%d)", c.GetChangePeer().GetChangeType(), c.GetChangePeer().GetPeer().GetId(), c.GetChangePeer().GetPeer().GetStoreId())
	case c.GetChangePeerV2() != nil:
		s = "v2["
		for _, ch := range c.GetChangePeerV2().GetChanges() {
			s += fmt.Sprintf("%s(%d@%d)", ch.GetChangeType(), ch.GetPeer().GetId(), ch.GetPeer().GetStoreId())
		}
		s += "]"
	case c.GetMerge() != nil:
		s = fmt.Sprintf("merge->%d", c.GetMerge().GetTarget().GetId())
	case c.GetSplitRegion() != nil:
		s = "split"
	default:
		s = "empty"
	}
	if c.GetRegionEpoch() != nil || c.GetTargetPeer() != nil {
		s += fmt.Sprintf("{ep %d/%d to %d@%d}", c.GetRegionEpoch().GetVersion(), c.GetRegionEpoch().GetConfVer(), c.GetTargetPeer().GetId(), c.GetTargetPeer().GetStoreId())
	}
	return s
}

func (m *model) recOf(op *operator.Operator) *opRec {
	for _, rc := range m.recs {
		if rc.op == op {
			return rc
		}
	}
	return nil
}

func (m *model) Key() string {
	var b strings.Builder
	for i, r := range m.sims {
		fmt.Fprintf(&b, "|%s", r)
		if m.cl.GetRegion(r.ID) == nil {
			b.WriteString(" view:gone")
		} else if vs := m.views[i].String(); vs != r.String() {
			fmt.Fprintf(&b, " view:%s", vs)
		}
		for _, c := range m.mail[i] {
			fmt.Fprintf(&b, " <%s>", cmdStr(c))
		}
		if ws := m.oc.GetOperatorStatus(r.ID); ws != nil {
			if rc := m.recOf(ws.Op); rc != nil {
				fmt.Fprintf(&b, " rec:%d/%s", rc.idx, ws.Status)
			}
		}
		if hr := m.record(r.ID); hr != nil {
			if rc := m.recOf(hr.Op); rc != nil {
				fmt.Fprintf(&b, " kept:%d/%s", rc.idx, hr.Status)
			}
		}
	}
	// times are kept as ages, saturated at the thresholds they are compared with
	for _, rc := range m.recs {
		st := rc.op.Status()
		if rc.loc == locGone {
			fmt.Fprintf(&b, "|#%d:gone:%s", rc.idx, operator.OpStatusToString(st))
			continue
		}
		fmt.Fprintf(&b, "|#%d:%s ep%d/%d %s", rc.idx, m.cfg.tmpls[rc.tmpl].name, rc.ver, rc.cv, operator.OpStatusToString(st))
		switch st {
		case operator.CREATED:
			age := m.now - rc.created
			if age > operator.OperatorExpireTime {
				age = operator.OperatorExpireTime
			}
			fmt.Fprintf(&b, " age%d", int64(age/time.Millisecond))
		case operator.STARTED:
			age := m.now - rc.started
			if age > rc.limit {
				age = rc.limit
			}
			fmt.Fprintf(&b, " run%d", int64(age/time.Millisecond))
		}
		fmt.Fprintf(&b, " cur%d loc%d", rc.refCur, rc.loc)
		if len(rc.steps) > 0 {
			// allocated peer ids are part of the operator's identity
			if _, id, _, ok := addArgs(rc.steps[0]); ok {
				fmt.Fprintf(&b, " p%d", id)
			}
		}
	}
	b.WriteString("|w:")
	for _, w := range m.oc.GetWaitingOperators() {
		if rc := m.recOf(w); rc != nil {
			fmt.Fprintf(&b, "%d,", rc.idx)
		}
	}
	fmt.Fprintf(&b, "|h:%v/%d|q:%s", m.hand, m.handBuilds, m.notifierKey())
	return b.String()
}

// ---------------------------------------------------------------- events

func bad(key, f string, a ...interface{}) *hist.Violation {
	return &hist.Violation{Key: key, Msg: fmt.Sprintf(f, a...)}
}

func (m *model) viewInfo(ridx int) *core.RegionInfo { return m.cl.GetRegion(regionIDs[ridx]) }

func (m *model) ridxOf(id uint64) int {
	for i, r := range regionIDs[:m.cfg.regions] {
		if r == id {
			return i
		}
	}
	return -1
}

func (m *model) describe(rc *opRec) string {
	var st []string
	for _, s := range rc.steps {
		st = append(st, s.String())
	}
	return fmt.Sprintf("operator #%d %s (region %d, epoch %d/%d, status %s, steps [%s], reference current step %d)", rc.idx, m.cfg.tmpls[rc.tmpl].name, rc.region, rc.ver, rc.cv,
		operator.OpStatusToString(rc.op.Status()), strings.Join(st, "; "), rc.refCur+1)
}

// build creates the operators of template k from PD's current view.
func (m *model) build(k int) ([]*opRec, *hist.Violation) {
	t := m.cfg.tmpls[k]
	ops, err := t.build(m)
	if err != nil || len(ops) == 0 {
		return nil, nil // the builder refuses in this state: the event changes nothing
	}
	var out []*opRec
	for _, op := range ops {
		ridx := m.ridxOf(op.RegionID())
		if ridx < 0 {
			infra("operator for unknown region %d", op.RegionID())
		}
		v := m.views[ridx]
		rc := &opRec{idx: len(m.recs), op: op, tmpl: k, region: op.RegionID(), ridx: ridx, ver: op.RegionEpoch().GetVersion(), cv: op.RegionEpoch().GetConfVer(),
			created: m.now, last: op.Status(), loc: locHand, limit: operator.FastOperatorWaitTime}
		if op.Kind()&operator.OpRegion != 0 {
			rc.limit = operator.SlowOperatorWaitTime
		}
		for i := 0; i < op.Len(); i++ {
			rc.steps = append(rc.steps, op.Step(i))
			if _, ok := op.Step(i).(operator.ChangePeerV2Enter); ok {
				rc.hasEnter = true
			}
		}
		if rc.ver != v.Version || rc.cv != v.ConfVer {
			return nil, bad("epoch-recorded", "%s built from PD's view %s records epoch %d/%d", m.describe(rc), v, rc.ver, rc.cv)
		}
		if op.Status() != operator.CREATED {
			return nil, bad("status-backwards", "%s is not CREATED when built", m.describe(rc))
		}
		m.recs = append(m.recs, rc)
		out = append(out, rc)
	}
	return out, nil
}

type snapshot struct {
	running []int // per region: index of the running operator or -1
	record  []*operator.Operator
}

func (m *model) snap() *snapshot {
	s := &snapshot{}
	for i := 0; i < m.cfg.regions; i++ {
		idx := -1
		if g := m.oc.GetOperator(regionIDs[i]); g != nil {
			if rc := m.recOf(g); rc != nil {
				idx = rc.idx
			}
		}
		s.running = append(s.running, idx)
	}
	return s
}

func (m *model) advance(rc *opRec) {
	v := m.views[rc.ridx]
	for rc.refCur < len(rc.steps) && refFinished(rc.steps[rc.refCur], v) {
		rc.refCur++
	}
}

func (m *model) accounted(rc *opRec, v *regionsim.Region) uint64 {
	var n uint64
	for i := 0; i <= rc.refCur && i < len(rc.steps); i++ {
		n += refDelta(rc.steps[i], v, rc.hasEnter)
	}
	return n
}

// pdCall runs a call into pd with the draw of the waiting queue fixed.
func (m *model) pdCall(draw int, f func()) {
	k := 0
	vrand.Chooser = func(n int, _ string) int {
		high := draw == 1 || (draw == 2 && k > 0) || (draw == 3 && k == 0)
		k++
		if high {
			return n - 1
		}
		return 0
	}
	f()
	vrand.Chooser = func(n int, _ string) int { return 0 }
}

// observe evaluates everything that must hold after every event.
func (m *model) observe(pre *snapshot, what string) *hist.Violation {
	waiting := map[*operator.Operator]bool{}
	for _, w := range m.oc.GetWaitingOperators() {
		waiting[w] = true
	}
	running := make([]*opRec, m.cfg.regions)
	for i := 0; i < m.cfg.regions; i++ {
		if g := m.oc.GetOperator(regionIDs[i]); g != nil {
			rc := m.recOf(g)
			if rc == nil || rc.ridx != i {
				return bad("unknown-running-op", "after %s: region %d runs an operator that was never submitted for it: %v", what, regionIDs[i], g.Desc())
			}
			running[i] = rc
		}
	}
	endedNow := make([][]*opRec, m.cfg.regions)
	admitted := map[*opRec]bool{}
	// (1) status moves
	for _, rc := range m.recs {
		st := rc.op.Status()
		name := operator.OpStatusToString(st)
		if st != rc.last {
			if operator.IsEndStatus(rc.last) {
				return bad("status-after-end", "after %s: %s moved from the end status %s to %s", what, m.describe(rc), operator.OpStatusToString(rc.last), name)
			}
			if st == operator.CREATED {
				return bad("status-backwards", "after %s: %s moved from %s back to Created", what, m.describe(rc), operator.OpStatusToString(rc.last))
			}
		}
		if rc.op.HasStarted() && !rc.hasStart {
			rc.hasStart, rc.started = true, m.now
			admitted[rc] = true
			v := m.views[rc.ridx]
			if m.cl.GetRegion(rc.region) == nil || rc.ver != v.Version || rc.cv != v.ConfVer {
				return bad("admitted-stale-epoch", "after %s: %s was admitted although the region's epoch is %d/%d (region %s)", what, m.describe(rc), v.Version, v.ConfVer, v)
			}
			if m.now-rc.created >= operator.OperatorExpireTime {
				return bad("started-after-expiry", "after %s: %s was started %v after it was created", what, m.describe(rc), m.now-rc.created)
			}
		}
		switch st {
		case operator.SUCCESS, operator.REPLACED, operator.TIMEOUT:
			if !rc.op.HasStarted() {
				return bad("status-skips-started", "after %s: %s reached %s without having been started", what, m.describe(rc), name)
			}
		case operator.EXPIRED:
			if rc.op.HasStarted() {
				return bad("expired-after-start", "after %s: %s expired after it was started", what, m.describe(rc))
			}
		}
		if st != rc.last {
			switch st {
			case operator.EXPIRED:
				if m.now-rc.created < operator.OperatorExpireTime {
					return bad("expired-too-early", "after %s: %s expired %v after it was created", what, m.describe(rc), m.now-rc.created)
				}
			case operator.TIMEOUT:
				if m.now-rc.started < rc.limit {
					return bad("timeout-too-early", "after %s: %s timed out %v after it was started (limit %v)", what, m.describe(rc), m.now-rc.started, rc.limit)
				}
			}
			if operator.IsEndStatus(st) {
				endedNow[rc.ridx] = append(endedNow[rc.ridx], rc)
			}
		}
		rc.last = st
		// (2) one running operator per region
		isRunning := running[rc.ridx] == rc
		if st == operator.STARTED && !isRunning {
			return bad("started-not-running", "after %s: %s is Started but is not the running operator of its region (running: %v)", what, m.describe(rc), running[rc.ridx] != nil)
		}
		if isRunning && !(st == operator.STARTED || st == operator.SUCCESS || st == operator.TIMEOUT) {
			return bad("running-op-bad-status", "after %s: %s is in the running set with status %s", what, m.describe(rc), name)
		}
		wasRunning := pre.running[rc.ridx] == rc.idx
		if (wasRunning || rc.loc == locRunning) && !isRunning {
			if !operator.IsEndStatus(st) {
				return bad("left-running-non-end", "after %s: %s left the running set with status %s", what, m.describe(rc), name)
			}
			if n := len(endedNow[rc.ridx]); n == 0 || endedNow[rc.ridx][n-1] != rc {
				endedNow[rc.ridx] = append(endedNow[rc.ridx], rc)
			}
		}
		wasWaiting := rc.loc == locWaiting
		switch {
		case isRunning:
			rc.loc = locRunning
		case waiting[rc.op]:
			rc.loc = locWaiting
			if st != operator.CREATED {
				return bad("running-op-bad-status", "after %s: %s waits with status %s", what, m.describe(rc), name)
			}
		case rc.loc != locHand || operator.IsEndStatus(st):
			rc.loc = locGone
		}
		if rc.loc == locGone && !operator.IsEndStatus(st) && wasWaiting {
			return bad("left-waiting-non-end", "after %s: %s left the waiting queue, does not run and its status is %s", what, m.describe(rc), name)
		}
	}
	// (3) end statuses are remembered
	for i := 0; i < m.cfg.regions; i++ {
		ws := m.oc.GetOperatorStatus(regionIDs[i])
		if running[i] != nil {
			if ws == nil || ws.Op != running[i].op || ws.Status != operator.OpStatusToPDPB(running[i].op.Status()) {
				return bad("end-status-not-remembered", "after %s: GetOperatorStatus(%d) does not report the running %s", what, regionIDs[i], m.describe(running[i]))
			}
			// operators that left the running set in this event while another one took
			// their place: GetOperatorStatus reports the new one, the end status must be
			// in the controller's records all the same
			var left []*opRec
			for _, rc := range endedNow[i] {
				if pre.running[i] == rc.idx && rc != running[i] {
					left = append(left, rc)
				}
			}
			if len(left) > 0 {
				rec := m.record(regionIDs[i])
				ok := false
				for _, rc := range endedNow[i] {
					if rec != nil && rec.Op == rc.op && rec.Status == operator.OpStatusToPDPB(rc.op.Status()) {
						ok = true
					}
				}
				if !ok {
					got := "nothing"
					if rec != nil {
						got = rec.Status.String()
						if rc := m.recOf(rec.Op); rc != nil {
							got += fmt.Sprintf(" for operator #%d", rc.idx)
						}
					}
					return bad("end-status-not-remembered", "after %s: %s left the running set (another operator took its place) but the controller's records hold %s for region %d", what, m.describe(left[0]), got, regionIDs[i])
				}
			}
			continue
		}
		if len(endedNow[i]) == 0 {
			if ws != nil && ws.Status != operator.OpStatusToPDPB(ws.Op.Status()) {
				return bad("end-status-not-remembered", "after %s: GetOperatorStatus(%d) reports %s for an operator whose status is %s", what, regionIDs[i], ws.Status, operator.OpStatusToString(ws.Op.Status()))
			}
			continue
		}
		ok := false
		for _, rc := range endedNow[i] {
			if ws != nil && ws.Op == rc.op && ws.Status == operator.OpStatusToPDPB(rc.op.Status()) {
				ok = true
			}
		}
		if !ok {
			got := "nothing"
			if ws != nil {
				got = ws.Status.String()
				if rc := m.recOf(ws.Op); rc != nil {
					got += fmt.Sprintf(" for operator #%d", rc.idx)
				}
			}
			return bad("end-status-not-remembered", "after %s: %s ended but GetOperatorStatus(%d) reports %s", what, m.describe(endedNow[i][0]), regionIDs[i], got)
		}
	}
	// (4) commands: exactly the command of the current step of every operator that
	// was admitted in this event or whose region's heartbeat was dispatched
	// (a push may or may not send, but only the current step's command)
	expect := make([][]*pdpb.RegionHeartbeatResponse, m.cfg.regions)
	owner := make([][]*opRec, m.cfg.regions)
	for _, rc := range m.recs {
		st := rc.op.Status()
		isRunning := running[rc.ridx] == rc && st == operator.STARTED
		if !(admitted[rc] || isRunning) || m.cl.GetRegion(rc.region) == nil {
			continue
		}
		m.advance(rc) // pd checks the steps against its view when it admits / dispatches
		if rc.refCur >= len(rc.steps) || !(admitted[rc] || m.dispatched[rc.ridx] || m.isPush) {
			continue
		}
		if c := regionsim.CommandFor(rc.steps[rc.refCur], m.viewInfo(rc.ridx)); c != nil {
			expect[rc.ridx] = append(expect[rc.ridx], c)
			owner[rc.ridx] = append(owner[rc.ridx], rc)
		}
	}
	msgs := m.hbs.VerifDrain()
	// the stream queues message objects and fills in region id, epoch and target peer when they
	// are queued: an object queued twice means that the command queued first now carries the
	// address of the second one
	for i := range msgs {
		for j := i + 1; j < len(msgs); j++ {
			if msgs[i] == msgs[j] {
				return bad("command-misaddressed", "after %s: one message object was queued twice (positions %d and %d of %d): the command queued first was overwritten and is now %s for region %d", what, i, j, len(msgs), cmdStr(msgs[i]), msgs[i].GetRegionId())
			}
		}
	}
	got := make([]int, m.cfg.regions)
	used := make([][]bool, m.cfg.regions)
	for i := range used {
		used[i] = make([]bool, len(expect[i]))
	}
	for _, msg := range msgs {
		ridx := m.ridxOf(msg.GetRegionId())
		if ridx < 0 {
			return bad("command-misaddressed", "after %s: command %s for unknown region %d", what, cmdStr(msg), msg.GetRegionId())
		}
		v := m.views[ridx]
		lp := v.LeaderPeer()
		if m.cl.GetRegion(regionIDs[ridx]) == nil || lp == nil || msg.GetRegionEpoch().GetVersion() != v.Version || msg.GetRegionEpoch().GetConfVer() != v.ConfVer ||
			msg.GetTargetPeer().GetId() != lp.ID || msg.GetTargetPeer().GetStoreId() != lp.Store || msg.GetHeader().GetClusterId() != m.cl.ID {
			return bad("command-misaddressed", "after %s: command %s for region %d, whose current state is %s", what, cmdStr(msg), regionIDs[ridx], v)
		}
		if len(expect[ridx]) == 0 {
			if rc := running[ridx]; rc != nil && rc.op.Status() == operator.STARTED {
				return bad("command-unexpected", "after %s: command %s was sent for region %d although nothing is to be sent for %s", what, cmdStr(msg), regionIDs[ridx], m.describe(rc))
			}
			return bad("command-without-operator", "after %s: command %s for region %d which has no started operator", what, cmdStr(msg), regionIDs[ridx])
		}
		match := -1
		for j, c := range expect[ridx] {
			if sameCommand(c, msg) && (match < 0 || (used[ridx][match] && !used[ridx][j])) {
				match = j
			}
		}
		if match < 0 {
			return bad("command-not-current-step", "after %s: command %s was sent for %s; the current step asks for %s (region %s)", what, cmdStr(msg), m.describe(owner[ridx][0]), cmdStr(expect[ridx][0]), v)
		}
		if used[ridx][match] && !m.isPush {
			return bad("command-unexpected", "after %s: command %s was sent more often than expected for region %d", what, cmdStr(msg), regionIDs[ridx])
		}
		used[ridx][match] = true
		got[ridx]++
		m.mail[ridx] = append(m.mail[ridx], msg)
	}
	if !m.isPush {
		for i := range expect {
			for j, c := range expect[i] {
				if !used[i][j] {
					return bad("command-missing", "after %s: no command was sent for %s; its current step asks for %s (region %s)", what, m.describe(owner[i][j]), cmdStr(c), m.views[i])
				}
			}
		}
	}
	// operators refused by an add are no longer in the hand
	var hand []int
	for _, h := range m.hand {
		if m.recs[h].loc == locHand && !operator.IsEndStatus(m.recs[h].op.Status()) {
			hand = append(hand, h)
		}
	}
	m.hand = hand
	return nil
}

func sameCommand(a, b *pdpb.RegionHeartbeatResponse) bool {
	return proto.Equal(a.GetTransferLeader(), b.GetTransferLeader()) && proto.Equal(a.GetChangePeer(), b.GetChangePeer()) &&
		proto.Equal(a.GetChangePeerV2(), b.GetChangePeerV2()) && proto.Equal(a.GetMerge(), b.GetMerge()) && proto.Equal(a.GetSplitRegion(), b.GetSplitRegion())
}

func (m *model) submit(recs []*opRec, waitingRoute bool, draw int, what string) *hist.Violation {
	pre := m.snap()
	var ops []*operator.Operator
	for _, rc := range recs {
		ops = append(ops, rc.op)
	}
	// a refused or admitted operator leaves the hand; only queued ones stay known as waiting
	for _, rc := range recs {
		rc.loc = locGone
	}
	var admittedAll bool
	m.pdCall(draw, func() {
		if waitingRoute {
			m.oc.AddWaitingOperator(ops...)
		} else {
			admittedAll = m.oc.AddOperator(ops...)
		}
	})
	if v := m.observe(pre, what); v != nil {
		return v
	}
	if !waitingRoute {
		for _, rc := range recs {
			if admittedAll && !rc.hasStart {
				return bad("refused-not-ended", "%s returned true but %s was not started", what, m.describe(rc))
			}
			if !admittedAll && (rc.hasStart || !(rc.op.Status() == operator.CANCELED || rc.op.Status() == operator.EXPIRED)) {
				return bad("refused-not-ended", "%s returned false but %s is not cancelled / expired", what, m.describe(rc))
			}
		}
	}
	return nil
}

func (m *model) doHB(ridx int, draw int) *hist.Violation {
	what := fmt.Sprintf("hb(r%d)", regionIDs[ridx])
	pre := m.snap()
	sim := m.sims[ridx]
	m.views[ridx] = sim.Clone()
	v := m.views[ridx]
	info := sim.Info()
	m.cl.PutRegion(info)
	// expectation for the running operator
	var x *opRec
	expect := ""
	reason := ""
	if pre.running[ridx] >= 0 {
		x = m.recs[pre.running[ridx]]
		if x.op.Status() == operator.STARTED {
			m.advance(x)
			adv := v.ConfVer - x.cv
			switch {
			case x.refCur >= len(x.steps):
				expect = "Success"
			case m.now-x.started >= x.limit:
				expect = "Timeout"
			case adv > m.accounted(x, v):
				expect, reason = "Canceled", "confver"
			case !refPrecond(x.steps[x.refCur], v):
				expect, reason = "Canceled", "precondition:"+stepKey(x.steps[x.refCur])
			default:
				expect = "Started"
			}
			if !m.foreign && adv != m.accounted(x, v) && x.refCur < len(x.steps) && len(m.recs) == 1 {
				return bad("oracle-self-check", "%s: no foreign event happened, the region's conf_ver advanced by %d since the operator was built but the reference accounts for %d (region %s; %s)", what, adv, m.accounted(x, v), v, m.describe(x))
			}
		}
	}
	m.dispatched = map[int]bool{ridx: true}
	m.pdCall(draw, func() { m.oc.Dispatch(info, schedule.DispatchFromHeartBeat) })
	viol := m.observe(pre, what)
	m.dispatched = nil
	if viol != nil {
		return viol
	}
	if x != nil && expect != "" {
		got := operator.OpStatusToString(x.op.Status())
		if got != expect {
			ctx := fmt.Sprintf("%s with region %s (conf_ver advanced by %d since the operator was built, its finished and current steps account for %d): %s is %s, expected %s", what, v, v.ConfVer-x.cv, m.accounted(x, v), m.describe(x), got, expect)
			switch {
			case expect == "Canceled" && got == "Started" && reason == "confver":
				key := "stale-not-cancelled:confver"
				for i := 0; i <= x.refCur && i < len(x.steps); i++ {
					if d := x.steps[i].ConfVerChanged(info); d != refDelta(x.steps[i], v, x.hasEnter) {
						key += ":overcount:" + stepKey(x.steps[i])
						ctx += fmt.Sprintf("; step %d (%s) reports ConfVerChanged=%d where %d of its changes are visible", i+1, x.steps[i], d, refDelta(x.steps[i], v, x.hasEnter))
						break
					}
				}
				return bad(key, "%s", ctx)
			case expect == "Canceled" && got == "Started":
				return bad("stale-not-cancelled:"+reason, "%s", ctx)
			case expect == "Started" && got == "Canceled":
				return bad("cancelled-not-stale:"+stepKey(x.steps[x.refCur]), "%s (foreign events so far: %v)", ctx, m.foreign)
			case expect == "Success":
				return bad("finished-not-success", "%s", ctx)
			case expect == "Timeout":
				return bad("timeout-missed", "%s", ctx)
			}
			return bad("hb-outcome:"+expect+"->"+got, "%s", ctx)
		}
	}
	return nil
}

func (m *model) doExec(ridx int) *hist.Violation {
	what := fmt.Sprintf("exec(r%d)", regionIDs[ridx])
	pre := m.snap()
	sim := m.sims[ridx]
	msgs := m.mail[ridx]
	m.mail[ridx] = nil
	for _, msg := range msgs {
		if sim.Merged || msg.GetRegionEpoch().GetVersion() != sim.Version || msg.GetRegionEpoch().GetConfVer() != sim.ConfVer || msg.GetTargetPeer().GetId() != sim.Leader {
			continue // stale or misdirected: the store ignores it
		}
		if mg := msg.GetMerge(); mg != nil {
			tidx := m.ridxOf(mg.GetTarget().GetId())
			if tidx < 0 {
				return bad("command-refused", "%s: merge into unknown region %d", what, mg.GetTarget().GetId())
			}
			t := m.sims[tidx]
			if t.Merged || t.Version != mg.GetTarget().GetRegionEpoch().GetVersion() || t.ConfVer != mg.GetTarget().GetRegionEpoch().GetConfVer() {
				continue // the target moved on: the store refuses the merge (epoch of the target)
			}
			src := sim.Meta()
			if err := sim.ApplyCommand(msg); err != nil {
				if v := m.refused(ridx, msg, err, what); v != nil {
					return v
				}
				continue
			}
			t.AbsorbMerge(src)
			continue
		}
		if err := sim.ApplyCommand(msg); err != nil {
			if v := m.refused(ridx, msg, err, what); v != nil {
				return v
			}
		}
	}
	return m.observe(pre, what)
}

// refused: the store refuses a command that carries the current epoch and leader.
// That is expected when the precondition of the operator's current step does
// not hold in the store's state (the next heartbeat must then cancel the
// operator, which the heartbeat oracle checks); otherwise PD sent a command
// that cannot be executed although the reference says it can.
func (m *model) refused(ridx int, msg *pdpb.RegionHeartbeatResponse, err error, what string) *hist.Violation {
	sim := m.sims[ridx]
	if g := m.oc.GetOperator(regionIDs[ridx]); g != nil {
		if rc := m.recOf(g); rc != nil && rc.refCur < len(rc.steps) {
			want := regionsim.CommandFor(rc.steps[rc.refCur], sim.Info())
			if want != nil && sameCommand(want, msg) && refPrecond(rc.steps[rc.refCur], sim) {
				return bad("command-refused", "%s: the store refuses %s although it carries the current epoch and leader and the step's precondition holds: %v (region %s; %s)", what, cmdStr(msg), err, sim, m.describe(rc))
			}
		}
	}
	return nil
}

func (m *model) doAdd(k int) *hist.Violation {
	recs, v := m.build(k)
	if v != nil || recs == nil {
		return v
	}
	return m.submit(recs, false, 0, "add("+m.cfg.tmpls[k].name+")")
}

func (m *model) Apply(i int) *hist.Violation {
	o := m.ops[i]
	m.nEvents++
	m.isPush = false
	switch o.kind {
	case oAdd:
		if o.k < 0 {
			return m.doAdd(m.recs[0].tmpl)
		}
		return m.doAdd(o.k)
	case oBuild:
		recs, v := m.build(o.k)
		if v != nil {
			return v
		}
		for _, rc := range recs {
			m.hand = append(m.hand, rc.idx)
		}
		if len(recs) > 0 {
			m.handBuilds++
		}
		return m.observe(m.snap(), m.OpName(i))
	case oAddHand, oAddWaitHand:
		var recs []*opRec
		for _, h := range m.hand {
			recs = append(recs, m.recs[h])
		}
		m.hand, m.handBuilds = nil, 0
		return m.submit(recs, o.kind == oAddWaitHand, o.draw, m.OpName(i))
	case oRemove:
		pre := m.snap()
		g := m.oc.GetOperator(regionIDs[o.r])
		removed := m.oc.RemoveOperator(g)
		if v := m.observe(pre, m.OpName(i)); v != nil {
			return v
		}
		if !removed || m.oc.GetOperator(regionIDs[o.r]) == g {
			return bad("left-running-non-end", "%s did not remove the running operator", m.OpName(i))
		}
		return nil
	case oHB:
		return m.doHB(o.r, o.draw)
	case oPush:
		pre := m.snap()
		m.isPush = true
		before := map[*opRec]operator.OpStatus{}
		for _, rc := range m.recs {
			before[rc] = rc.op.Status()
		}
		m.pdCall(o.draw, func() { m.oc.PushOperators() })
		v := m.observe(pre, "push")
		m.isPush = false
		if v != nil {
			return v
		}
		for _, rc := range m.recs {
			if before[rc] == operator.STARTED && rc.op.Status() == operator.CANCELED && m.cl.GetRegion(rc.region) != nil {
				return bad("cancelled-not-stale:push", "push cancelled %s although its region still exists (only a heartbeat can show that an operator is stale)", m.describe(rc))
			}
		}
		return nil
	case oExec:
		return m.doExec(o.r)
	case oCatchup:
		pre := m.snap()
		m.sims[o.r].CatchUp()
		return m.observe(pre, m.OpName(i))
	case oForeign:
		pre := m.snap()
		f := m.cfg.foreign[o.k]
		r := m.sims[f.region]
		if err := r.ApplyCommand(f.cmd(r)); err != nil {
			infra("foreign event %s refused: %v", f.name, err)
		}
		m.foreign = true
		return m.observe(pre, m.OpName(i))
	case oTime:
		pre := m.snap()
		vclock.Advance(o.d)
		m.now += o.d
		return m.observe(pre, m.OpName(i))
	case oInfluence:
		// what every scheduler round does first: it also marks running operators that
		// have timed out / finished, which stay in the running set until the next dispatch
		pre := m.snap()
		_ = m.oc.GetOpInfluence(m.cl)
		return m.observe(pre, m.OpName(i))
	case oRun:
		if v := m.doAdd(o.k); v != nil {
			return v
		}
		ridx := m.cfg.tmpls[o.k].region
		for j := 0; j < o.j; j++ {
			if len(m.mail[ridx]) == 0 {
				break
			}
			if v := m.doExec(ridx); v != nil {
				return v
			}
			if m.sims[ridx].Merged {
				break
			}
			if m.sims[ridx].HasPending() {
				if v := m.doHB(ridx, 0); v != nil { // PD first sees the new peer pending
					return v
				}
				m.sims[ridx].CatchUp()
			}
			if v := m.doHB(ridx, 0); v != nil {
				return v
			}
		}
		return nil
	}
	panic("unknown op")
}

// ---------------------------------------------------------------- templates and foreign events

func peerMap(ps ...*metapb.Peer) map[uint64]*metapb.Peer {
	out := map[uint64]*metapb.Peer{}
	for _, p := range ps {
		out[p.StoreId] = p
	}
	return out
}

func vp(store uint64) *metapb.Peer { return &metapb.Peer{StoreId: store, Role: roleV} }
func lp(store uint64) *metapb.Peer { return &metapb.Peer{StoreId: store, Role: roleL} }

func one(op *operator.Operator, err error) ([]*operator.Operator, error) {
	if err != nil {
		return nil, err
	}
	return []*operator.Operator{op}, nil
}

func tLeader(name string, r int, to uint64, kind operator.OpKind) tmpl {
	return tmpl{name: name, region: r, build: func(m *model) ([]*operator.Operator, error) {
		v := m.viewInfo(r)
		return one(operator.CreateTransferLeaderOperator("c09-"+name, m.cl, v, v.GetLeader().GetStoreId(), to, kind))
	}}
}

func tRemove(name string, r int, store uint64) tmpl {
	return tmpl{name: name, region: r, build: func(m *model) ([]*operator.Operator, error) {
		return one(operator.CreateRemovePeerOperator("c09-"+name, m.cl, operator.OpRegion, m.viewInfo(r), store))
	}}
}

func tAddPeer(name string, r int, p *metapb.Peer) tmpl {
	return tmpl{name: name, region: r, build: func(m *model) ([]*operator.Operator, error) {
		return one(operator.CreateAddPeerOperator("c09-"+name, m.cl, m.viewInfo(r), p, operator.OpRegion))
	}}
}

func tMovePeer(name string, r int, from, to uint64) tmpl {
	return tmpl{name: name, region: r, build: func(m *model) ([]*operator.Operator, error) {
		return one(operator.CreateMovePeerOperator("c09-"+name, m.cl, m.viewInfo(r), operator.OpRegion, from, vp(to)))
	}}
}

func tMoveLeader(name string, r int, from, to uint64) tmpl {
	return tmpl{name: name, region: r, build: func(m *model) ([]*operator.Operator, error) {
		return one(operator.CreateMoveLeaderOperator("c09-"+name, m.cl, m.viewInfo(r), operator.OpRegion, from, vp(to)))
	}}
}

func tSetPeers(name string, r int, light bool, leader uint64, ps ...*metapb.Peer) tmpl {
	return tmpl{name: name, region: r, build: func(m *model) ([]*operator.Operator, error) {
		// new peers get their ids here, in store order: the builder would allocate
		// them in map order, which differs from run to run
		v := m.viewInfo(r)
		sorted := append([]*metapb.Peer(nil), ps...)
		sort.Slice(sorted, func(i, j int) bool { return sorted[i].StoreId < sorted[j].StoreId })
		var withIDs []*metapb.Peer
		for _, p := range sorted {
			q := &metapb.Peer{StoreId: p.StoreId, Role: p.Role}
			if v.GetStorePeer(p.StoreId) == nil {
				q.Id, _ = m.cl.AllocID()
			}
			withIDs = append(withIDs, q)
		}
		b := operator.NewBuilder("c09-"+name, m.cl, v).SetPeers(peerMap(withIDs...))
		if leader != 0 {
			b.SetLeader(leader)
		}
		if light {
			b.EnableLightWeight()
		}
		return one(b.Build(operator.OpRegion))
	}}
}

func tSplit(name string, r int) tmpl {
	return tmpl{name: name, region: r, build: func(m *model) ([]*operator.Operator, error) {
		v := m.viewInfo(r)
		return one(operator.CreateSplitRegionOperator("c09-"+name, v, 0, pdpb.CheckPolicy_USEKEY, [][]byte{append(append([]byte(nil), v.GetStartKey()...), 'm')}))
	}}
}

func tMerge(name string, src, dst int) tmpl {
	return tmpl{name: name, region: src, build: func(m *model) ([]*operator.Operator, error) {
		s, t := m.viewInfo(src), m.viewInfo(dst)
		if s == nil || t == nil {
			return nil, fmt.Errorf("region gone")
		}
		return operator.CreateMergeRegionOperator("c09-"+name, m.cl, s, t, 0)
	}}
}

// hand-made operators for the step kinds the builder never emits
func tHandAddPeer(name string, r int, light bool, to, remove uint64) tmpl {
	return tmpl{name: name, region: r, build: func(m *model) ([]*operator.Operator, error) {
		v := m.viewInfo(r)
		if v.GetStorePeer(to) != nil || v.GetStorePeer(remove) == nil || v.GetLeader().GetStoreId() == remove {
			return nil, fmt.Errorf("not applicable")
		}
		id, _ := m.cl.AllocID()
		var first operator.OpStep = operator.AddPeer{ToStore: to, PeerID: id}
		if light {
			first = operator.AddLightPeer{ToStore: to, PeerID: id}
		}
		return []*operator.Operator{operator.NewOperator("c09-"+name, name, v.GetID(), v.GetRegionEpoch(), operator.OpRegion, first,
			operator.RemovePeer{FromStore: remove, PeerID: v.GetStorePeer(remove).GetId()})}, nil
	}}
}

func changePeer(t eraftpb.ConfChangeType, p *metapb.Peer) *pdpb.RegionHeartbeatResponse {
	return &pdpb.RegionHeartbeatResponse{ChangePeer: &pdpb.ChangePeer{ChangeType: t, Peer: p}}
}

func fAddLearner(r int, store uint64) foreignDef {
	return foreignDef{name: fmt.Sprintf("add-learner(r%d,store %d)", regionIDs[r], store), region: r, cmd: func(s *regionsim.Region) *pdpb.RegionHeartbeatResponse {
		if s.StorePeer(store) != nil {
			return nil
		}
		id := foreignBase + regionIDs[r]*10 + store
		for s.PeerByID(id) != nil {
			id += 100
		}
		return changePeer(eraftpb.ConfChangeType_AddLearnerNode, &metapb.Peer{Id: id, StoreId: store, Role: roleL})
	}}
}

func fRemove(r int, store uint64) foreignDef {
	return foreignDef{name: fmt.Sprintf("remove-peer(r%d,store %d)", regionIDs[r], store), region: r, cmd: func(s *regionsim.Region) *pdpb.RegionHeartbeatResponse {
		p := s.StorePeer(store)
		if p == nil {
			return nil
		}
		return changePeer(eraftpb.ConfChangeType_RemoveNode, &metapb.Peer{Id: p.ID, StoreId: p.Store, Role: p.Role})
	}}
}

func fPromote(r int, store uint64) foreignDef {
	return foreignDef{name: fmt.Sprintf("promote-learner(r%d,store %d)", regionIDs[r], store), region: r, cmd: func(s *regionsim.Region) *pdpb.RegionHeartbeatResponse {
		p := s.StorePeer(store)
		if p == nil || p.Role != roleL {
			return nil
		}
		return changePeer(eraftpb.ConfChangeType_AddNode, &metapb.Peer{Id: p.ID, StoreId: p.Store, Role: roleV})
	}}
}

func fLeader(r int, store uint64) foreignDef {
	return foreignDef{name: fmt.Sprintf("leader-change(r%d,store %d)", regionIDs[r], store), region: r, cmd: func(s *regionsim.Region) *pdpb.RegionHeartbeatResponse {
		p := s.StorePeer(store)
		if p == nil || p.ID == s.Leader {
			return nil
		}
		return &pdpb.RegionHeartbeatResponse{TransferLeader: &pdpb.TransferLeader{Peer: &metapb.Peer{Id: p.ID, StoreId: p.Store, Role: p.Role}}}
	}}
}

var (
	sec4  = 4 * time.Second
	min11 = 11 * time.Minute
)

func jointTemplates() []tmpl {
	return []tmpl{
		tMovePeer("move-peer(3->4)", 0, 3, 4),                                               // AddLearner, Enter{promote 4, demote 3}, Leave, RemovePeer
		tMoveLeader("move-leader(1->4)", 0, 1, 4),                                           // AddLearner, Enter, TransferLeader, Leave, RemovePeer
		tSetPeers("demote(2,3)", 0, false, 0, vp(1), lp(2), lp(3)),                          // Enter{demote 2,3}, Leave
		tSetPeers("replace-voter-by-learner(3->4)", 0, false, 0, vp(1), vp(2), lp(4)),       // AddLearner, demotion of 3 alone (a single change: Enter+Leave before the builder repair, DemoteFollower after it), RemovePeer
		tSetPeers("add-voter+learner(4,5)", 0, false, 0, vp(1), vp(2), vp(3), vp(4), lp(5)), // AddLearner x2, promotion of 4 alone (single change)
		tAddPeer("add-voter(4)", 0, vp(4)),                                                  // AddLearner, PromoteLearner
		tRemove("remove-leader-peer(1)", 0, 1),                                              // TransferLeader, RemovePeer
		tSetPeers("light-move(3->4)", 0, true, 0, vp(1), vp(2), vp(4)),                      // AddLightLearner, Enter, Leave, RemovePeer
		tSetPeers("move-2-peers+leader", 0, false, 4, vp(1), vp(4), vp(5)),                  // AddLearner x2, Enter{promote 4,5 demote 2,3}, TransferLeader?, Leave, RemovePeer x2
		tSplit("split", 0),
		tHandAddPeer("hand:add-peer(4)+remove(3)", 0, false, 4, 3),
		tHandAddPeer("hand:add-light-peer(4)+remove(3)", 0, true, 4, 3),
	}
}

func plainTemplates() []tmpl {
	return []tmpl{
		tMovePeer("move-peer(3->4)", 0, 3, 4),                    // AddLearner, PromoteLearner, RemovePeer
		tMoveLeader("move-leader(1->4)", 0, 1, 4),                // AddLearner, PromoteLearner, TransferLeader, RemovePeer
		tSetPeers("demote(3)", 0, false, 0, vp(1), vp(2), lp(3)), // RemovePeer + AddLearner (demote not allowed without joint consensus support)
		tSetPeers("promote-after-add(4)+remove(2,3)", 0, false, 0, vp(1), vp(4)),
	}
}

func offTemplates() []tmpl {
	return []tmpl{
		tMovePeer("move-peer(3->4)", 0, 3, 4),                           // AddLearner, PromoteLearner, RemovePeer
		tSetPeers("demote(3)", 0, false, 0, vp(1), vp(2), lp(3)),        // DemoteFollower
		tSetPeers("demote(2,3)", 0, false, 0, vp(1), lp(2), lp(3)),      // DemoteFollower x2
		tSetPeers("demote-leader(1)", 0, false, 0, lp(1), vp(2), vp(3)), // TransferLeader, DemoteFollower
		tSetPeers("swap-roles(3,4)", 0, false, 0, vp(1), vp(2), lp(3), vp(4)),
	}
}

func runForeign() []foreignDef {
	return []foreignDef{fAddLearner(0, 5), fRemove(0, 5), fRemove(0, 2), fRemove(0, 3), fRemove(0, 4), fPromote(0, 4), fLeader(0, 1), fLeader(0, 2), fLeader(0, 3), fLeader(0, 4)}
}

func scopeAPI() *scopeCfg {
	return &scopeCfg{name: "api-orders", mode: modeJoint, regions: 1, maxBuilt: 3, adds: true, hand: true, times: []time.Duration{sec4, min11},
		tmpls: []tmpl{
			tLeader("leader->2", 0, 2, operator.OpLeader),
			tLeader("admin-leader->3", 0, 3, operator.OpAdmin),
			tRemove("remove-peer(3)", 0, 3),
			tAddPeer("add-learner(4)", 0, lp(4)),
		},
		foreign: []foreignDef{fAddLearner(0, 5), fRemove(0, 3), fLeader(0, 2)}}
}

func scopeMerge() *scopeCfg {
	return &scopeCfg{name: "merge+2regions", mode: modeJoint, regions: 2, maxBuilt: 4, adds: true, hand: true, times: []time.Duration{sec4, min11},
		tmpls: []tmpl{
			tMerge("merge(11->12)", 0, 1),
			tLeader("leader(r12)->2", 1, 2, operator.OpLeader),
			tLeader("admin-leader(r11)->3", 0, 3, operator.OpAdmin),
		},
		foreign: []foreignDef{fAddLearner(0, 5), fAddLearner(1, 5)}}
}

// scopeLeaveJoint: two regions are in the joint state and get a leave-joint operator each; a
// push re-sends both commands in one call.
func scopeLeaveJoint() *scopeCfg {
	leave := func(r int) tmpl {
		return tmpl{name: fmt.Sprintf("leave-joint(r%d)", regionIDs[r]), region: r, can: func(m *model) bool { return m.views[r].InJoint() }, build: func(m *model) ([]*operator.Operator, error) {
			v := m.viewInfo(r)
			if !core.IsInJointState(v.GetPeers()...) {
				return nil, fmt.Errorf("not in joint state")
			}
			return one(operator.CreateLeaveJointStateOperator("c09-leave-joint", m.cl, v))
		}}
	}
	return &scopeCfg{name: "2regions/leave-joint", mode: modeJoint, regions: 2, maxBuilt: 2, adds: true, hand: false, jointStart: true, times: []time.Duration{sec4},
		tmpls: []tmpl{leave(0), leave(1)}}
}

// scopeMergeTimeout: the merge pair alone, long enough for: admitted, executed by the
// store, timed out (noticed by a scheduler round), source region gone, pushed.
func scopeMergeTimeout() *scopeCfg {
	return &scopeCfg{name: "merge-timeout", mode: modeJoint, regions: 2, maxBuilt: 2, adds: true, hand: false, times: []time.Duration{min11},
		tmpls: []tmpl{tMerge("merge(11->12)", 0, 1)}}
}

func scopeRuns(name string, mode int, tmpls []tmpl, times []time.Duration) *scopeCfg {
	nRun := len(tmpls)
	if mode == modeJoint {
		// what the joint state checker does for a region left in the joint state
		tmpls = append(tmpls, tmpl{name: "leave-joint", region: 0, can: func(m *model) bool { return m.views[0].InJoint() }, build: func(m *model) ([]*operator.Operator, error) {
			v := m.viewInfo(0)
			if !core.IsInJointState(v.GetPeers()...) {
				return nil, fmt.Errorf("not in joint state")
			}
			return one(operator.CreateLeaveJointStateOperator("c09-leave-joint", m.cl, v))
		}})
	}
	return &scopeCfg{name: name, mode: mode, nRun: nRun, regions: 1, maxBuilt: 2, runs: true, adds: false, hand: false, times: times, tmpls: tmpls, foreign: runForeign()}
}

func main() {
	log.ReplaceGlobals(zap.NewNop(), &log.ZapProperties{})
	mk := func(c func() *scopeCfg, tiers string, depth int, suffix string) *hist.Scope {
		return &hist.Scope{Name: c().name + suffix, Tiers: tiers, Depth: depth,
			NewModel: func() hist.Model { return newModel(c()) }}
	}
	runsJ := func() *scopeCfg { return scopeRuns("runs/joint", modeJoint, jointTemplates(), []time.Duration{min11}) }
	runsO := func() *scopeCfg {
		return scopeRuns("runs/joint-off", modeJointOff, offTemplates(), []time.Duration{min11})
	}
	runsP := func() *scopeCfg {
		return scopeRuns("runs/no-joint", modeNoJoint, plainTemplates(), []time.Duration{min11})
	}
	explore.Main(&explore.Config{
		Property: "C09",
		Scenarios: []*explore.Scenario{
			statusRace("status-race/finished", 3, "", false),
			statusRace("status-race/timed-out", 3, "", true),
		},
		HistScopes: []*hist.Scope{
			mk(scopeAPI, "quick", 5, ""),
			mk(scopeMerge, "quick", 5, ""),
			mk(scopeMergeTimeout, "quick", 8, ""),
			mk(scopeLeaveJoint, "quick", 6, ""),
			mk(runsJ, "quick", 5, ""),
			mk(runsO, "quick", 5, ""),
			mk(runsP, "quick", 5, ""),
			mk(scopeMerge, "thorough", 7, "@7"),
			mk(runsP, "thorough", 7, "@7"),
			mk(runsO, "thorough", 7, "@7"),
			mk(runsJ, "thorough", 7, "@7"),
			mk(scopeAPI, "thorough", 7, "@7"), // the largest scope runs last and may use all the remaining time
		},
		Rule: "breadth-first over all event sequences of the alphabet up to the depth (add / build / add-hand / add-waiting-hand with both bucket draws / remove / heartbeat / push / store executes the queued commands / pending peers catch up / foreign conf changes and leader changes / +4s / +11min; in the runs scopes the first event admits one operator and lets a faithful store execute 0..all of its steps, every later event is free); states are deduplicated by the canonical form of store regions, PD's view, queued commands, every operator's template/epoch/status/times/step pointer/place, waiting list, remembered end statuses and the controller's push queue; after every event the reference oracle written from the statement is evaluated on the real controller",
		Assumptions: []string{
			"verif/engine/regionsim is the store: it executes a queued command only when the command carries the region's current epoch and is addressed to the current leader (a faithful TiKV store), new peers are first pending; a ChangePeerV2 with one change is applied as a simple conf change",
			"pkg/mock/mockcluster is the opt.Cluster (5 stores up, regions of size 0 so that store limits never bind); a region heartbeat = PutRegion(store state) followed by OperatorController.Dispatch(region, heartbeat) as the server does",
			"time is virtual in server/schedule and server/schedule/operator (vclock); the TTL caches of pkg/cache keep real time, so remembered end statuses never expire within a run",
			"the random bucket draws of the waiting queue (math/rand in server/schedule, through the vrand shim) are a parameter of the event: always the lowest non-empty bucket, always the highest, low-then-high, high-then-low; with the two priority levels and at most three waiting entries of the scopes these are all outcomes",
			"'the region's current leader / epoch' of a command is PD's current knowledge of the region (the last heartbeat); 'accounted for' is evaluated by a reference that counts the membership changes of the finished and the current step that are visible in the heartbeat's region",
			"the controller's push queue is read by reflection for the state key only",
		},
	})
}

func init() {
	if os.Getenv("VERIF_C09_DET") == "" {
		return
	}
	log.ReplaceGlobals(zap.NewNop(), &log.ZapProperties{})
	for _, mode := range []int{modeJoint, modeJointOff, modeNoJoint} {
		tm := map[int][]tmpl{modeJoint: jointTemplates(), modeJointOff: offTemplates(), modeNoJoint: plainTemplates()}[mode]
		cfg := &scopeCfg{name: "det", mode: mode, regions: 1, maxBuilt: 2, tmpls: tm}
		m := newModel(cfg)
		for k, t := range tm {
			seen := map[string]int{}
			for i := 0; i < 200; i++ {
				m.Reset()
				ops, err := t.build(m)
				if err != nil {
					seen["ERR "+err.Error()]++
					continue
				}
				var st []string
				for j := 0; j < ops[0].Len(); j++ {
					st = append(st, ops[0].Step(j).String())
				}
				seen[strings.Join(st, "; ")]++
			}
			fmt.Println(mode, k, t.name, len(seen))
			if len(seen) > 1 {
				for s, n := range seen {
					fmt.Println("   ", n, s)
				}
			}
		}
	}
	os.Exit(0)
}
