package main

// Concurrent part of C09 (engine A): a heartbeat that completes a started operator
// (Operator.Check -> SUCCESS), RemoveOperator's Cancel and a replacing AddOperator's Replace
// race on one operator. Oracle: the status only ever makes legal moves - once an end status is
// reached it stays, exactly one of the racing end transitions reports success, and that one
// names the final status.

import (
	"fmt"
	"strings"

	"github.com/pingcap/kvproto/pkg/metapb"
	"github.com/tikv/pd/pkg/verifshim/sched"
	"github.com/tikv/pd/pkg/verifshim/vclock"
	"github.com/tikv/pd/server/core"
	"github.com/tikv/pd/server/schedule/operator"
	"verif/engine/explore"
)

func statusRace(name string, pre int, tiers string, timeout bool) *explore.Scenario {
	return &explore.Scenario{Name: name, MaxPre: pre, Tiers: tiers, Setup: func() *explore.Instance {
		vclock.Enable(vclock.Epoch)
		peers := []*metapb.Peer{{Id: 101, StoreId: 1}, {Id: 102, StoreId: 2}, {Id: 103, StoreId: 3}}
		meta := &metapb.Region{Id: 1, RegionEpoch: &metapb.RegionEpoch{Version: 1, ConfVer: 1}, Peers: peers}
		done := core.NewRegionInfo(meta, peers[1]) // the leader has already moved to store 2
		op := operator.NewOperator("race", "verif", 1, meta.RegionEpoch, operator.OpLeader, operator.TransferLeader{FromStore: 1, ToStore: 2})
		if !op.Start() {
			panic("operator does not start")
		}
		if timeout {
			vclock.Advance(11 * 60 * 1e9)
		}
		type ev struct {
			what string
			won  bool
			now  operator.OpStatus
		}
		var log []ev
		rec := func(what string, won bool) {
			sched.Atomic(func() { log = append(log, ev{what, won, op.Status()}) })
		}
		return &explore.Instance{Names: []string{"heartbeat", "remove", "replace"}, Threads: []func(){
			func() {
				_ = op.Check(done)
				rec("check", op.Status() == operator.SUCCESS || op.Status() == operator.TIMEOUT)
			},
			func() { rec("cancel", op.Cancel()) },
			func() { rec("replace", op.Replace()) },
		}, Check: func(r *sched.Run) (string, *explore.Violation) {
			var l []string
			var first operator.OpStatus
			seenEnd := false
			wins := 0
			for _, e := range log {
				l = append(l, fmt.Sprintf("%s:%v:%s", e.what, e.won, operator.OpStatusToString(e.now)))
				if seenEnd && e.now != first {
					return "", &explore.Violation{Key: "status-after-end", Msg: fmt.Sprintf("the status moved from the end status %s to %s (%s)", operator.OpStatusToString(first), operator.OpStatusToString(e.now), strings.Join(l, " "))}
				}
				if operator.IsEndStatus(e.now) && !seenEnd {
					seenEnd, first = true, e.now
				}
				if e.what != "check" && e.won {
					wins++
				}
			}
			final := op.Status()
			if !operator.IsEndStatus(final) || (seenEnd && final != first) {
				return "", &explore.Violation{Key: "status-after-end", Msg: fmt.Sprintf("final status %s after %s", operator.OpStatusToString(final), strings.Join(l, " "))}
			}
			// Cancel / Replace report success only if they made the move: at most one of them, and
			// none when the heartbeat had already ended the operator with another status
			if wins > 1 || (wins == 1 && final != operator.CANCELED && final != operator.REPLACED) {
				return "", &explore.Violation{Key: "status-after-end", Msg: fmt.Sprintf("%d of Cancel / Replace reported success, final status %s (%s)", wins, operator.OpStatusToString(final), strings.Join(l, " "))}
			}
			return operator.OpStatusToString(final), nil
		}}
	}}
}
