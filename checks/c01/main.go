// Check C01: timestamps are unique and strictly increasing in real-time order.
package main

import (
	"fmt"

	"github.com/pingcap/kvproto/pkg/pdpb"
	pd "github.com/tikv/pd/client"
	"github.com/tikv/pd/pkg/tsoutil"
	"github.com/tikv/pd/pkg/typeutil"
	"google.golang.org/grpc"
	"strings"
	"time"
	"verif/engine/evidence"

	"github.com/tikv/pd/pkg/verifshim/sched"
	"github.com/tikv/pd/pkg/verifshim/vclock"
	"verif/checks/tsoh"
	"verif/engine/explore"
)

func scenario(name string, ad tsoh.Admin, pre, dev int, tiers string, faults bool, bigCount uint32, rounds int, kinds uint32, fixedClock time.Duration) *explore.Scenario {
	return &explore.Scenario{Name: name, MaxPre: pre, MaxDev: dev, Tiers: tiers, Opts: sched.Options{Kinds: kinds}, Setup: func() *explore.Instance {
		w := tsoh.NewWorld(false)
		n1 := w.AddNode(1, nil)
		w.AddNode(2, nil)
		if err := n1.Campaign(); err != nil {
			panic(err)
		}
		w.St.FaultWrites = faults
		return &explore.Instance{
			Names: []string{"req1", "req2", "upd", "admin"},
			Threads: []func(){
				func() { w.Request(n1, 1); w.Request(n1, bigCount) },
				func() { w.Request(n1, 2) },
				func() {
					sched.SetMember(1)
					if fixedClock != 0 {
						vclock.Advance(fixedClock)
					} else {
						tsoh.ClockChoice(50*time.Millisecond, time.Millisecond, 3*time.Second, -time.Hour, time.Hour)
					}
					n1.AM.VerifAllocatorUpdaterSync()
					if rounds > 1 {
						tsoh.ClockChoice(50*time.Millisecond, time.Millisecond, 3*time.Second)
						n1.AM.VerifAllocatorUpdaterSync()
					}
				},
				func() { ad.Run(w, n1) },
			},
			Check: func(r *sched.Run) (string, *explore.Violation) {
				defer w.Close()
				return w.Outcome(), w.CheckC01()
			},
		}
	}}
}

// fakeStream answers each TSO batch request the way the allocator does: the raw logical
// counter advances by count, the response carries raw<<bits + suffix (reference of the
// statement: a response with count n owns the n consecutive values ending at it).
type fakeStream struct {
	grpc.ClientStream
	phys, raw    int64
	bits, suffix uint32
	last         *pdpb.TsoRequest
	override     *pdpb.Timestamp
}

func (f *fakeStream) Send(r *pdpb.TsoRequest) error { f.last = r; return nil }
func (f *fakeStream) Recv() (*pdpb.TsoResponse, error) {
	if f.override != nil {
		t := f.override
		f.override = nil
		return &pdpb.TsoResponse{Count: f.last.Count, Timestamp: t}, nil
	}
	f.raw += int64(f.last.Count)
	return &pdpb.TsoResponse{Count: f.last.Count, Timestamp: &pdpb.Timestamp{Physical: f.phys, Logical: f.raw<<f.bits + int64(f.suffix), SuffixBits: f.bits}}, nil
}
func (f *fakeStream) CloseSend() error { return nil }

// clientHalf: engine C over suffix widths x suffixes x batch-size sequences: the timestamps the
// real client code hands to the individual requests of each batch must be exactly the values
// owned by the response, strictly increasing across batches, and a regressing response must
// be refused by the client's fallback detection.
func clientHalf(tier string, rep *evidence.Reporter, cov *evidence.Coverage) {
	maxCount, nBatches := 6, 3
	if tier == "thorough" {
		maxCount, nBatches = 12, 4
	}
	cases := int64(0)
	var sample interface{}
	counts := make([]int, nBatches)
	var rec func(d int)
	check := func(bits, suffix uint32, physStep int64) {
		cl := pd.VerifNewTSOClient()
		fs := &fakeStream{phys: 1000, bits: bits, suffix: suffix}
		var prev uint64
		seen := map[uint64]bool{}
		for b, n := range counts {
			if physStep != 0 && b > 0 {
				fs.phys += physStep
				fs.raw = 0
			}
			rawBefore := fs.raw
			ph, lg, err := cl.Process(fs, "dc", n)
			cases++
			key := fmt.Sprintf("bits=%d suffix=%d counts=%v batch=%d", bits, suffix, counts, b)
			if err != nil {
				rep.Report(&evidence.Violation{Scenario: "client-half", Key: "client-refused-valid-response", Message: key + ": " + err.Error(), Replay: key})
				return
			}
			for i := 0; i < n; i++ {
				want := (rawBefore+int64(i)+1)<<bits + int64(suffix)
				if ph[i] != fs.phys || lg[i] != want {
					rep.Report(&evidence.Violation{Scenario: "client-half", Key: "client-request-timestamp", Message: fmt.Sprintf("%s: request %d got %d.%d, the response owns %d.%d", key, i, ph[i], lg[i], fs.phys, want), Replay: key})
					return
				}
				v := tsoutil.ComposeTS(ph[i], lg[i])
				if seen[v] || v <= prev {
					rep.Report(&evidence.Violation{Scenario: "client-half", Key: "client-order", Message: fmt.Sprintf("%s: request %d got %d which is not above the previous %d", key, i, v, prev), Replay: key})
					return
				}
				seen[v], prev = true, v
			}
			if sample == nil && b == nBatches-1 && bits == 2 {
				sample = map[string]interface{}{"scope": "client-half", "bits": bits, "suffix": suffix, "counts": append([]int(nil), counts...), "last_batch_logicals": lg}
			}
		}
		// a response that does not advance (same physical, logical not above the last one) must be refused
		fs.override = &pdpb.Timestamp{Physical: fs.phys, Logical: fs.raw<<bits + int64(suffix), SuffixBits: bits}
		if _, _, err := cl.Process(fs, "dc", 1); err == nil {
			rep.Report(&evidence.Violation{Scenario: "client-half", Key: "client-fallback-not-detected", Message: fmt.Sprintf("bits=%d suffix=%d counts=%v: a response equal to the last timestamp was accepted", bits, suffix, counts), Replay: fmt.Sprint(counts)})
		}
		cases++
	}
	rec = func(d int) {
		if d == nBatches {
			for bits := uint32(0); bits <= 4; bits++ {
				for suffix := uint32(0); suffix < 1<<bits; suffix++ {
					for _, step := range []int64{0, 1} {
						check(bits, suffix, step)
					}
				}
			}
			return
		}
		for n := 1; n <= maxCount; n++ {
			counts[d] = n
			rec(d + 1)
		}
	}
	rec(0)
	cov.States += cases
	cov.Transitions += cases
	cov.TracesValidatedAgainstImpl += cases
	cov.Evaluations += cases
	cov.Scenarios = append(cov.Scenarios, map[string]interface{}{"scope": "client-half", "batches_processed_by_real_client_code": cases, "suffix_bits": "0..4", "max_count": maxCount, "batches": nBatches})
	if sample != nil {
		cov.Samples = append(cov.Samples, sample)
	}
	fmt.Printf("C01 client-half batches=%d\n", cases)
}

func main() {
	var l []*explore.Scenario
	noAtomics := uint32(1<<sched.KLock | 1<<sched.KRLock | 1<<sched.KEtcd | 1<<sched.KUser | 1<<sched.KWait | 1<<sched.KStart)
	allButFunc := uint32(1<<(sched.KFunc+1)-1) &^ uint32(1<<sched.KFunc)
	ads := append(tsoh.Admins(), tsoh.Handover(0), tsoh.Handover(-time.Hour), tsoh.Handover(time.Hour))
	ads = append(ads, tsoh.Handover2(-time.Hour), tsoh.HandoverBack(0))
	ads = append(ads, tsoh.Seq("handover-after-lost-retry", tsoh.LostRetry(), tsoh.Handover(0)))
	ads = append(ads, tsoh.Seq("handover-after-set+10s", tsoh.Admins()[6], tsoh.Handover(0)))
	for _, ad := range ads {
		lead := strings.HasPrefix(ad.Name, "reset") || strings.HasPrefix(ad.Name, "handover")
		switch {
		case strings.Contains(ad.Name, "after-lost-retry"):
			l = append(l, scenario(ad.Name+"/clk+50ms", ad, 2, 0, "quick", false, 3, 1, noAtomics, 50*time.Millisecond))
		case strings.Contains(ad.Name, "after-set"):
			l = append(l, scenario(ad.Name+"/clk+50ms", ad, 2, 0, "quick", false, 3, 1, noAtomics, 50*time.Millisecond))
			// the periodic update has to save a new window (clock at the end of the saved one)
			l = append(l, scenario(ad.Name+"/clk+3s", ad, 2, 0, "quick", false, 3, 1, noAtomics, 3*time.Second))
		case lead:
			// leadership changes: lease/leader atomics are scheduling points too; the
			// clock answer is a scenario parameter in the quick tier.
			l = append(l, scenario(ad.Name+"/clk+50ms", ad, 2, 0, "quick", false, 3, 1, allButFunc, 50*time.Millisecond))
			l = append(l, scenario(ad.Name+"/clk-1h", ad, 2, 0, "quick", false, 3, 1, allButFunc, -time.Hour))
		case strings.Contains(ad.Name, "overflow"):
			l = append(l, scenario(ad.Name, ad, 2, 0, "quick", false, 3, 1, noAtomics, 0))
		default:
			l = append(l, scenario(ad.Name, ad, 2, 1, "quick", false, 3, 1, noAtomics, 0))
		}
		l = append(l, scenario(ad.Name+"@3", ad, 3, 2, "thorough", false, 3, 2, allButFunc, 0))
	}
	// the stored window is one hour ahead of the clock and the logical part is more than half
	// used at every update (tso-save-interval 3 ms so that the window is reached within the
	// scenario), then the leadership moves: the successor must start above everything granted
	creep := func(name string, pre int, tiers string) *explore.Scenario {
		return &explore.Scenario{Name: name, MaxPre: pre, Tiers: tiers, Opts: sched.Options{Kinds: noAtomics}, Setup: func() *explore.Instance {
			w := tsoh.NewWorld(false)
			w.SaveInterval = 3 * time.Millisecond
			w.St.PutDirect(tsoh.TSKey, string(typeutil.Uint64ToBytes(uint64(vclock.Epoch.Add(time.Hour).UnixNano()))))
			n1 := w.AddNode(1, nil)
			w.AddNode(2, nil)
			if err := n1.Campaign(); err != nil {
				panic(err)
			}
			return &explore.Instance{
				Names: []string{"driver", "req2"},
				Threads: []func(){
					func() {
						for i := 0; i < 5; i++ {
							w.Request(n1, 140000)
							old := sched.SetMember(1)
							vclock.Advance(time.Millisecond)
							n1.AM.VerifAllocatorUpdaterSync()
							sched.SetMember(old)
						}
						w.Request(n1, 1)
						tsoh.Handover(0).Run(w, n1)
					},
					func() { w.Request(n1, 1) },
				},
				Check: func(r *sched.Run) (string, *explore.Violation) {
					defer w.Close()
					return w.Outcome(), w.CheckC01()
				},
			}
		}}
	}
	l = append(l, creep("preloaded+1h/logical-creep+handover", 1, "quick"), creep("preloaded+1h/logical-creep+handover@2", 2, "thorough"))
	// function-call granularity (entries of server/tso, pkg/typeutil, pkg/tsoutil are scheduling
	// points): state that is shared without a lock or an atomic
	l = append(l, scenario("fn/none", tsoh.Admins()[0], 2, 0, "quick", false, 3, 1, 0, 50*time.Millisecond))
	l = append(l, scenario("fn/none@2", tsoh.Admins()[0], 2, 1, "thorough", false, 3, 2, 0, 0))
	_ = vclock.Epoch
	explore.Main(&explore.Config{
		Property:    "C01",
		QuickBudget: 480,
		Scenarios:   l,
		Extra:     clientHalf,
		Rule:      "all schedules (preemption bound) x clock answers (deviation bound) of 2 requesters + updater + one admin action per scenario; outcome = multiset of returned timestamps",
		Assumptions: []string{
			"fake etcd conformance-checked against embedded etcd",
			"atomicity between scheduling points (locks, atomics, etcd requests); separate -race pass for unsynchronised accesses",
			"virtual clock: time moves only through explorer-chosen clock events and Sleep",
		},
	})
}
