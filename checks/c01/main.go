// Check C01: timestamps are unique and strictly increasing in real-time order.
package main

import (
	"strings"
	"time"

	"github.com/tikv/pd/pkg/verifshim/sched"
	"github.com/tikv/pd/pkg/verifshim/vclock"
	"verif/checks/tsoh"
	"verif/engine/explore"
)

func scenario(name string, ad tsoh.Admin, pre, dev int, tiers string, faults bool, bigCount uint32, rounds int, kinds uint32, fixedClock time.Duration) *explore.Scenario {
	return &explore.Scenario{Name: name, MaxPre: pre, MaxDev: dev, Tiers: tiers, Opts: sched.Options{Kinds: kinds}, Setup: func() *explore.Instance {
		w := tsoh.NewWorld(false)
		n1 := w.AddNode(1, nil)
		w.AddNode(2, nil)
		if err := n1.Campaign(); err != nil {
			panic(err)
		}
		w.St.FaultWrites = faults
		return &explore.Instance{
			Names: []string{"req1", "req2", "upd", "admin"},
			Threads: []func(){
				func() { w.Request(n1, 1); w.Request(n1, bigCount) },
				func() { w.Request(n1, 2) },
				func() {
					sched.SetMember(1)
					if fixedClock != 0 {
						vclock.Advance(fixedClock)
					} else {
						tsoh.ClockChoice(50*time.Millisecond, time.Millisecond, 3*time.Second, -time.Hour, time.Hour)
					}
					n1.AM.VerifAllocatorUpdaterSync()
					if rounds > 1 {
						tsoh.ClockChoice(50*time.Millisecond, time.Millisecond, 3*time.Second)
						n1.AM.VerifAllocatorUpdaterSync()
					}
				},
				func() { ad.Run(w, n1) },
			},
			Check: func(r *sched.Run) (string, *explore.Violation) {
				defer w.Close()
				return w.Outcome(), w.CheckC01()
			},
		}
	}}
}

func main() {
	var l []*explore.Scenario
	noAtomics := uint32(1<<sched.KLock | 1<<sched.KRLock | 1<<sched.KEtcd | 1<<sched.KUser | 1<<sched.KWait | 1<<sched.KStart)
	ads := append(tsoh.Admins(), tsoh.Handover(0), tsoh.Handover(-time.Hour), tsoh.Handover(time.Hour))
	ads = append(ads, tsoh.Seq("handover-after-set+10s", tsoh.Admins()[6], tsoh.Handover(0)))
	for _, ad := range ads {
		lead := strings.HasPrefix(ad.Name, "reset") || strings.HasPrefix(ad.Name, "handover")
		switch {
		case strings.Contains(ad.Name, "after-set"):
			l = append(l, scenario(ad.Name+"/clk+50ms", ad, 2, 0, "quick", false, 3, 1, noAtomics, 50*time.Millisecond))
		case lead:
			// leadership changes: lease/leader atomics are scheduling points too; the
			// clock answer is a scenario parameter in the quick tier.
			l = append(l, scenario(ad.Name+"/clk+50ms", ad, 2, 0, "quick", false, 3, 1, 0, 50*time.Millisecond))
			l = append(l, scenario(ad.Name+"/clk-1h", ad, 2, 0, "quick", false, 3, 1, 0, -time.Hour))
		case strings.Contains(ad.Name, "overflow"):
			l = append(l, scenario(ad.Name, ad, 2, 0, "quick", false, 3, 1, noAtomics, 0))
		default:
			l = append(l, scenario(ad.Name, ad, 2, 1, "quick", false, 3, 1, noAtomics, 0))
		}
		l = append(l, scenario(ad.Name+"@3", ad, 3, 2, "thorough", false, 3, 2, 0, 0))
	}
	_ = vclock.Epoch
	explore.Main(&explore.Config{
		Property:  "C01",
		Scenarios: l,
		Rule:      "all schedules (preemption bound) x clock answers (deviation bound) of 2 requesters + updater + one admin action per scenario; outcome = multiset of returned timestamps",
		Assumptions: []string{
			"fake etcd conformance-checked against embedded etcd",
			"atomicity between scheduling points (locks, atomics, etcd requests); separate -race pass for unsynchronised accesses",
			"virtual clock: time moves only through explorer-chosen clock events and Sleep",
		},
	})
}
