// Check C16: followers converge to the leader's region view through region sync.
//
// Part 1 (engine B): every Record / RecordsFrom / ResetWithIndex / restart
// sequence on history buffers of small capacities against a list reference.
// Part 2 (input-exhaustive): the leader's real syncHistoryRegion for region sets
// around every batch boundary, with a recording stream: the parallel arrays must
// describe the same regions. Part 3: a real follower (StartSyncWithLeader) talks
// to the real leader side (Sync) over loopback gRPC and must end with the same
// range, peers, leader and flow statistics for every region.
package main

import (
	"context"
	"fmt"
	"net"
	"os"
	"strings"
	"time"

	"github.com/pingcap/kvproto/pkg/metapb"
	"github.com/pingcap/kvproto/pkg/pdpb"
	"github.com/pingcap/log"
	"github.com/tikv/pd/pkg/grpcutil"
	"github.com/tikv/pd/server/core"
	"github.com/tikv/pd/server/kv"
	syncer "github.com/tikv/pd/server/region_syncer"
	"go.uber.org/zap"
	"google.golang.org/grpc"
	"verif/engine/evidence"
	"verif/engine/hist"
)

func init() { log.ReplaceGlobals(zap.NewNop(), &log.ZapProperties{}) }

// ---------- part 1: history buffer ----------

type hop struct {
	kind string // record, record100, reset, restart
	arg  uint64
}

type hmodel struct {
	cap   int
	ops   []hop
	kvb   kv.Base
	buf   *syncer.VerifHistoryBuffer
	ref   []uint64 // ids of the records in the window, oldest first
	next  uint64   // reference next index
	nrec  uint64   // running id of recorded regions
	persisted   uint64 // reference of what a restart may fall back to (last persisted index)
	sinceFlush  int
	sinceReset  bool
}

func region(id uint64) *core.RegionInfo {
	return core.NewRegionInfo(&metapb.Region{Id: id, StartKey: []byte(fmt.Sprintf("%06d", id)), EndKey: []byte(fmt.Sprintf("%06d", id+1))}, nil)
}

func newH(capacity int, resets []uint64) *hmodel {
	m := &hmodel{cap: capacity}
	m.ops = append(m.ops, hop{kind: "record"}, hop{kind: "record100"}, hop{kind: "restart"})
	for _, r := range resets {
		m.ops = append(m.ops, hop{kind: "reset", arg: r})
	}
	return m
}

func (m *hmodel) NumOps() int         { return len(m.ops) }
func (m *hmodel) Enabled(op int) bool { return true }
func (m *hmodel) OpName(i int) string {
	o := m.ops[i]
	if o.kind == "reset" {
		return fmt.Sprintf("ResetWithIndex(%d)", o.arg)
	}
	return o.kind
}

func (m *hmodel) Reset() {
	m.kvb = kv.NewMemoryKV()
	m.buf = syncer.VerifNewHistoryBuffer(m.cap, m.kvb)
	m.ref, m.next, m.nrec, m.persisted, m.sinceFlush, m.sinceReset = nil, 0, 0, 0, 0, false
}

func (m *hmodel) record() {
	m.nrec++
	m.buf.Record(region(m.nrec))
	m.ref = append(m.ref, m.nrec)
	if len(m.ref) > m.cap {
		m.ref = m.ref[len(m.ref)-m.cap:]
	}
	m.next++
	m.sinceFlush++
	if m.sinceFlush >= 100 {
		m.persisted = m.next
		m.sinceFlush = 0
	}
}

func (m *hmodel) Apply(i int) *hist.Violation {
	o := m.ops[i]
	switch o.kind {
	case "record":
		m.record()
	case "record100":
		for k := 0; k < 100; k++ {
			m.record()
		}
	case "reset":
		m.buf.ResetWithIndex(o.arg)
		m.ref, m.next, m.sinceFlush = nil, o.arg, 0
		m.sinceReset = true
	case "restart":
		before := m.buf.GetNextIndex()
		m.buf = syncer.VerifNewHistoryBuffer(m.cap, m.kvb)
		after := m.buf.GetNextIndex()
		// The statement: the next index survives a restart without going backwards by more
		// than the flush interval (100 records). It is evaluated for indexes reached by
		// recording; an explicit ResetWithIndex is not persisted by design of the follower
		// protocol (the follower re-synchronises from the leader), so after a reset only
		// "what was persisted is what is reloaded" is required.
		if after != m.persisted {
			return &hist.Violation{Key: "restart-index-not-persisted-one", Msg: fmt.Sprintf("after restart the next index is %d, the last persisted one is %d", after, m.persisted)}
		}
		if !m.sinceReset {
			if after > before || before-after >= 100 {
				return &hist.Violation{Key: "restart-index-window", Msg: fmt.Sprintf("next index was %d before the restart and %d after it (allowed: at most 99 back, never ahead)", before, after)}
			}
		}
		m.ref, m.next, m.sinceFlush = nil, after, 0
		m.sinceReset = false
	}
	return m.compare(m.OpName(i))
}

func (m *hmodel) compare(after string) *hist.Violation {
	if g := m.buf.GetNextIndex(); g != m.next {
		return &hist.Violation{Key: "next-index", Msg: fmt.Sprintf("after %s: GetNextIndex=%d want %d", after, g, m.next)}
	}
	first := m.next - uint64(len(m.ref))
	lo := uint64(0)
	if first > 2 {
		lo = first - 2
	}
	for idx := lo; idx <= m.next+2; idx++ {
		got := m.buf.RecordsFrom(idx)
		var want []uint64
		if idx >= first && idx < m.next {
			want = m.ref[idx-first:]
		}
		var g []uint64
		for _, r := range got {
			if r == nil {
				g = append(g, 0)
			} else {
				g = append(g, r.GetID())
			}
		}
		if fmt.Sprint(g) != fmt.Sprint(want) {
			return &hist.Violation{Key: "records-from", Msg: fmt.Sprintf("after %s (capacity %d, window [%d,%d)): RecordsFrom(%d) returns ids %v, want %v", after, m.cap, first, m.next, idx, g, want)}
		}
	}
	return nil
}

func (m *hmodel) Key() string {
	return fmt.Sprintf("%d|%v|%d|%d|%v", m.next, m.ref, m.persisted, m.sinceFlush, m.sinceReset)
}

// ---------- part 2/3: leader and follower ----------

type mockServer struct {
	ctx     context.Context
	name    string
	storage *core.Storage
	bc      *core.BasicCluster
	addr    string
	dir     string
}

func (s *mockServer) LoopContext() context.Context { return s.ctx }
func (s *mockServer) ClusterID() uint64            { return 7 }
func (s *mockServer) GetMemberInfo() *pdpb.Member {
	return &pdpb.Member{Name: s.name, ClientUrls: []string{s.addr}}
}
func (s *mockServer) GetLeader() *pdpb.Member             { return &pdpb.Member{Name: "leader"} }
func (s *mockServer) GetStorage() *core.Storage           { return s.storage }
func (s *mockServer) Name() string                        { return s.name }
func (s *mockServer) GetRegions() []*core.RegionInfo      { return s.bc.GetRegions() }
func (s *mockServer) GetTLSConfig() *grpcutil.TLSConfig   { return &grpcutil.TLSConfig{} }
func (s *mockServer) GetBasicCluster() *core.BasicCluster { return s.bc }

var tmpBase = func() string {
	for _, d := range []string{"/dev/shm", os.TempDir()} {
		if p, err := os.MkdirTemp(d, "verif-c16-"); err == nil {
			return p
		}
	}
	panic("no temp dir")
}()

var dirSeq int

// sharedMeta: the members of one cluster share the meta store (etcd) and have a region storage each.
var sharedMeta kv.Base

func newMock(ctx context.Context, name string) *mockServer {
	dirSeq++
	dir := fmt.Sprintf("%s/%d-%d", tmpBase, os.Getpid(), dirSeq)
	rs, err := core.NewRegionStorage(ctx, dir, nil)
	if err != nil {
		panic(err)
	}
	return &mockServer{ctx: ctx, name: name, storage: core.NewStorage(metaKV(), core.WithRegionStorage(rs)), bc: core.NewBasicCluster(), dir: dir, addr: "http://127.0.0.1:1"}
}

func metaKV() kv.Base {
	if sharedMeta != nil {
		return sharedMeta
	}
	return kv.NewMemoryKV()
}

func (s *mockServer) close() { s.storage.Close(); os.RemoveAll(s.dir) }

// leaderRegion builds region i of a leader set; withLeader selects regions that report a leader.
func leaderRegion(i int, withLeader func(int) bool) *core.RegionInfo {
	id := uint64(i + 1)
	end := fmt.Sprintf("%06d", i+1)
	meta := &metapb.Region{Id: id, StartKey: []byte(fmt.Sprintf("%06d", i)), EndKey: []byte(end), RegionEpoch: &metapb.RegionEpoch{Version: 1 + uint64(i%3), ConfVer: 1},
		Peers: []*metapb.Peer{{Id: id*10 + 1, StoreId: 1}, {Id: id*10 + 2, StoreId: 2}, {Id: id*10 + 3, StoreId: 3}}}
	if i == 0 {
		meta.StartKey = nil
	}
	var leader *metapb.Peer
	if withLeader(i) {
		leader = meta.Peers[i%3]
	}
	opts := []core.RegionCreateOption{core.SetWrittenBytes(uint64(1000 + i)), core.SetWrittenKeys(uint64(10 + i)), core.SetReadBytes(uint64(2000 + i)), core.SetReadKeys(uint64(20 + i))}
	if i%4 == 1 {
		// as the heartbeat handler builds it: flow figures are rounded for the statistics only
		// (pd-server.flow-round-by-digit, default 3), the cached raw values are what is synchronised
		opts = append(opts, core.WithFlowRoundByDigit(3))
	}
	return core.NewRegionInfo(meta, leader, opts...)
}

type recStream struct {
	grpc.ServerStream
	msgs []*pdpb.SyncRegionResponse
}

func (r *recStream) Send(m *pdpb.SyncRegionResponse) error {
	// the code reuses the slices between batches: deep copy at Send, as gRPC serialises here
	b, _ := m.Marshal()
	c := &pdpb.SyncRegionResponse{}
	c.Unmarshal(b)
	r.msgs = append(r.msgs, c)
	return nil
}
func (r *recStream) Recv() (*pdpb.SyncRegionRequest, error) { return nil, fmt.Errorf("not used") }
func (r *recStream) Context() context.Context                { return context.Background() }

func describe(r *core.RegionInfo) string {
	l := uint64(0)
	if r.GetLeader() != nil {
		l = r.GetLeader().GetId()
	}
	return fmt.Sprintf("r%d[%q,%q)v%d peers=%d leader=%d w=%d/%d r=%d/%d", r.GetID(), r.GetStartKey(), r.GetEndKey(), r.GetRegionEpoch().GetVersion(), len(r.GetPeers()), l,
		r.GetBytesWritten(), r.GetKeysWritten(), r.GetBytesRead(), r.GetKeysRead())
}

// checkMessages: parallel arrays aligned and every region sent exactly once, in order.
func checkMessages(what string, msgs []*pdpb.SyncRegionResponse, want []*core.RegionInfo, startIndex uint64, ordered bool) *evidence.Violation {
	pos := 0
	next := startIndex
	byID := map[uint64]*core.RegionInfo{}
	for _, w := range want {
		byID[w.GetID()] = w
	}
	seen := map[uint64]bool{}
	for mi, m := range msgs {
		if len(m.Regions) != len(m.RegionStats) || len(m.Regions) != len(m.RegionLeaders) {
			return &evidence.Violation{Key: "parallel-arrays-length", Message: fmt.Sprintf("%s: message %d carries %d regions, %d stats, %d leaders", what, mi, len(m.Regions), len(m.RegionStats), len(m.RegionLeaders))}
		}
		if m.StartIndex != next {
			return &evidence.Violation{Key: "start-index", Message: fmt.Sprintf("%s: message %d has start index %d, want %d", what, mi, m.StartIndex, next)}
		}
		next += uint64(len(m.Regions))
		for i, r := range m.Regions {
			if pos >= len(want) {
				return &evidence.Violation{Key: "too-many-regions", Message: fmt.Sprintf("%s: more regions sent than the leader holds", what)}
			}
			w := want[pos]
			pos++
			if !ordered {
				// a full synchronisation sends the cached regions in no particular order
				w = byID[r.GetId()]
				if w == nil {
					return &evidence.Violation{Key: "unknown-region-sent", Message: fmt.Sprintf("%s: message %d position %d is region %d which the leader does not hold", what, mi, i, r.GetId())}
				}
			}
			if seen[r.GetId()] {
				return &evidence.Violation{Key: "region-sent-twice", Message: fmt.Sprintf("%s: region %d is sent twice", what, r.GetId())}
			}
			seen[r.GetId()] = true
			if r.GetId() != w.GetID() {
				return &evidence.Violation{Key: "region-order", Message: fmt.Sprintf("%s: message %d position %d is region %d, want %d", what, mi, i, r.GetId(), w.GetID())}
			}
			wl := uint64(0)
			if w.GetLeader() != nil {
				wl = w.GetLeader().GetId()
			}
			if m.RegionLeaders[i].GetId() != wl {
				return &evidence.Violation{Key: "leader-misaligned", Message: fmt.Sprintf("%s: message %d position %d: region %d is sent with leader peer %d, the leader holds %d", what, mi, i, r.GetId(), m.RegionLeaders[i].GetId(), wl)}
			}
			if m.RegionStats[i].GetBytesWritten() != w.GetBytesWritten() || m.RegionStats[i].GetKeysRead() != w.GetKeysRead() {
				return &evidence.Violation{Key: "stats-misaligned", Message: fmt.Sprintf("%s: message %d position %d: region %d is sent with the flow statistics of another region", what, mi, i, r.GetId())}
			}
		}
	}
	if pos != len(want) {
		return &evidence.Violation{Key: "regions-missing", Message: fmt.Sprintf("%s: %d of %d regions were sent", what, pos, len(want))}
	}
	return nil
}

type syncSrvStream struct{ grpc.ServerStream }

func (s *syncSrvStream) Send(m *pdpb.SyncRegionResponse) error { return s.ServerStream.SendMsg(m) }
func (s *syncSrvStream) Recv() (*pdpb.SyncRegionRequest, error) {
	m := new(pdpb.SyncRegionRequest)
	if err := s.ServerStream.RecvMsg(m); err != nil {
		return nil, err
	}
	return m, nil
}

// leaderFollower runs one case; returns (violation, converged).
// formerLeader: the follower used to be the leader: its cache holds an older view of the same
// regions (same epoch, another leader) that came from heartbeats, i.e. with a raft term.
var formerLeader bool

// staleStats: the follower already holds every region with the same epoch and leader but older
// flow statistics (statistics change without an epoch change).
var staleStats bool

func leaderFollower(n int, withLeader func(int) bool, incremental int, label string, endToEnd bool) (*evidence.Violation, bool, int) {
	ctx, cancel := context.WithCancel(context.Background())
	defer cancel()
	sharedMeta = kv.NewMemoryKV()
	defer func() { sharedMeta = nil }()
	leaderSrv := newMock(ctx, "leader")
	defer leaderSrv.close()
	var regions []*core.RegionInfo
	for i := 0; i < n; i++ {
		r := leaderRegion(i, withLeader)
		regions = append(regions, r)
		leaderSrv.bc.PutRegion(r)
	}
	ls := syncer.NewRegionSyncer(leaderSrv)
	// a leader that has been serving for a while: its change log is at index base
	const base = 5000
	ls.VerifHistory().ResetWithIndex(base)
	// incremental > 0: the last `incremental` regions are also in the change log
	for i := n - incremental; i >= 0 && i < n && incremental > 0; i++ {
		ls.VerifHistory().Record(regions[i])
	}
	what := fmt.Sprintf("%s n=%d", label, n)
	msgs := 0
	// --- part 2: recording stream ---
	{
		rec := &recStream{}
		start := uint64(0)
		want := regions
		if incremental > 0 {
			// the follower already has everything but the logged changes
			start = base
			want = regions[n-incremental:]
		}
		req := &pdpb.SyncRegionRequest{Header: &pdpb.RequestHeader{ClusterId: 7}, Member: &pdpb.Member{Name: "f", ClientUrls: []string{"http://f"}}, StartIndex: start}
		if err := ls.VerifSyncHistoryRegion(req, rec); err != nil {
			return &evidence.Violation{Key: "sync-error", Message: what + ": " + err.Error()}, true, 0
		}
		msgs = len(rec.msgs)
		if v := checkMessages(what, rec.msgs, want, start, incremental > 0); v != nil {
			return v, true, msgs
		}
	}
	if !endToEnd {
		return nil, true, msgs
	}
	// --- part 3: real follower over loopback gRPC ---
	lis, err := net.Listen("tcp", "127.0.0.1:0")
	if err != nil {
		return nil, false, msgs
	}
	gs := grpc.NewServer()
	gs.RegisterService(&grpc.ServiceDesc{ServiceName: "pdpb.PD", HandlerType: (*interface{})(nil), Streams: []grpc.StreamDesc{{
		StreamName: "SyncRegions", ServerStreams: true, ClientStreams: true,
		Handler: func(srv interface{}, stream grpc.ServerStream) error { return ls.Sync(&syncSrvStream{stream}) },
	}}}, struct{}{})
	go gs.Serve(lis)
	defer gs.Stop()
	folSrv := newMock(ctx, "follower")
	defer folSrv.close()
	fs := syncer.NewRegionSyncer(folSrv)
	if idx := fs.VerifHistory().GetNextIndex(); idx != 0 {
		// its own region storage is empty: whatever it loaded is somebody else's index
		return &evidence.Violation{Key: "follower-index-not-its-own", Message: fmt.Sprintf("%s: a follower with an empty region storage starts at index %d (the leader is at %d)", what, idx, ls.VerifHistory().GetNextIndex())}, true, msgs
	}
	if formerLeader {
		for _, r := range regions {
			old := r.GetMeta().Peers[(int(r.GetID())+1)%3]
			folSrv.bc.PutRegion(core.RegionFromHeartbeat(&pdpb.RegionHeartbeatRequest{Region: r.GetMeta(), Leader: old, Term: 5}))
		}
	}
	if staleStats {
		for _, r := range regions {
			folSrv.bc.PutRegion(r.Clone(core.SetWrittenBytes(1), core.SetWrittenKeys(1), core.SetReadBytes(1), core.SetReadKeys(1)))
		}
	}
	if incremental > 0 {
		// the follower holds everything except the logged changes and is at index base
		for i := 0; i < n-incremental; i++ {
			folSrv.bc.PutRegion(regions[i])
		}
		fs.VerifHistory().ResetWithIndex(base)
	}
	fs.StartSyncWithLeader("http://" + lis.Addr().String())
	defer fs.StopSyncWithLeader()
	deadline := time.Now().Add(60 * time.Second)
	converged := false
	for time.Now().Before(deadline) {
		wantIdx := uint64(n)
		if incremental > 0 {
			wantIdx = uint64(base + incremental)
		}
		if fs.VerifHistory().GetNextIndex() >= wantIdx && folSrv.bc.GetRegionCount() >= n {
			converged = true
			break
		}
		time.Sleep(5 * time.Millisecond)
	}
	if !converged {
		return nil, false, msgs
	}
	for _, r := range regions {
		g := folSrv.bc.GetRegion(r.GetID())
		if g == nil {
			return &evidence.Violation{Key: "follower-missing-region", Message: fmt.Sprintf("%s: follower does not hold region %d", what, r.GetID())}, true, msgs
		}
		if describe(g) != describe(r) {
			return &evidence.Violation{Key: "follower-differs", Message: fmt.Sprintf("%s: follower holds %s, leader holds %s", what, describe(g), describe(r))}, true, msgs
		}
	}
	return nil, true, msgs
}

func main() {
	defer os.RemoveAll(tmpBase)
	hist.Main(&hist.Config{
		Property: "C16",
		Scopes: []*hist.Scope{
			{Name: "buffer/cap1", Tiers: "quick", Depth: 6, NewModel: func() hist.Model { return newH(1, []uint64{0, 5}) }},
			{Name: "buffer/cap2", Tiers: "quick", Depth: 6, NewModel: func() hist.Model { return newH(2, []uint64{0, 5}) }},
			{Name: "buffer/cap3", Tiers: "quick", Depth: 6, NewModel: func() hist.Model { return newH(3, []uint64{0, 7}) }},
			{Name: "buffer/cap5", Tiers: "quick", Depth: 7, NewModel: func() hist.Model { return newH(5, []uint64{3}) }},
			{Name: "buffer/cap1@9", Tiers: "thorough", Depth: 9, NewModel: func() hist.Model { return newH(1, []uint64{0, 5, 1000}) }},
			{Name: "buffer/cap3@9", Tiers: "thorough", Depth: 9, NewModel: func() hist.Model { return newH(3, []uint64{0, 7, 1000}) }},
			{Name: "buffer/cap5@10", Tiers: "thorough", Depth: 10, NewModel: func() hist.Model { return newH(5, []uint64{0, 3, 1000}) }},
			{Name: "buffer/cap150@6", Tiers: "thorough", Depth: 6, NewModel: func() hist.Model { return newH(150, []uint64{0, 99, 100}) }},
		},
		Extra: func(tier string, rep *evidence.Reporter, cov *evidence.Coverage) {
			sizes := []int{0, 1, 2, 99, 100, 101, 199, 200, 201, 250}
			e2e := map[int]bool{0: true, 1: true, 100: true, 101: true, 250: true}
			if tier == "thorough" {
				sizes = append(sizes, 3, 50, 150, 299, 300, 301, 400, 1000)
				for _, s := range sizes {
					e2e[s] = true
				}
			}
			leaderModes := []struct {
				name string
				f    func(int) bool
			}{
				{"all-leaders", func(int) bool { return true }},
				{"no-leaders", func(int) bool { return false }},
				{"every-other", func(i int) bool { return i%2 == 0 }},
				{"first-batch-only", func(i int) bool { return i < 100 }},
			}
			cases, notConverged := 0, 0
			for _, n := range sizes {
				for _, lm := range leaderModes {
					incs := []int{0}
					if n >= 2 {
						incs = append(incs, 1, n/2)
					}
					for _, inc := range incs {
						label := lm.name
						if inc > 0 {
							label += fmt.Sprintf("/incremental-%d", inc)
						}
						for mode := 0; mode < 2 && inc == 0 && e2e[n] && n > 0 && lm.name == "all-leaders"; mode++ {
							// once more with a follower that used to be the leader, and with one that
							// holds the same regions with older flow statistics
							formerLeader, staleStats = mode == 0, mode == 1
							v, conv, msgs := leaderFollower(n, lm.f, inc, label+[]string{"/former-leader", "/stale-statistics"}[mode], true)
							formerLeader, staleStats = false, false
							cases++
							cov.States++
							cov.Transitions += int64(msgs + 1)
							cov.TracesValidatedAgainstImpl++
							cov.Evaluations++
							if v != nil {
								v.Scenario = "leader-follower"
								v.Replay = map[string]interface{}{"regions": n, "leaders": lm.name, "former_leader": true}
								rep.Report(v)
							}
							if !conv {
								notConverged++
							}
						}
						v, conv, msgs := leaderFollower(n, lm.f, inc, label, e2e[n])
						cases++
						cov.States++
						cov.Transitions += int64(msgs + 1)
						cov.TracesValidatedAgainstImpl++
						cov.Evaluations++
						cov.DistinctNontrivial++
						if v != nil {
							v.Scenario = "leader-follower"
							v.Replay = map[string]interface{}{"regions": n, "leaders": lm.name, "incremental": inc}
							rep.Report(v)
						}
						if !conv {
							notConverged++
						}
					}
				}
			}
			if notConverged > 0 {
				cov.Exhaustive = false
				cov.CapsHit = append(cov.CapsHit, fmt.Sprintf("%d end-to-end follower runs did not reach the expected index within the internal deadline (not counted as violations)", notConverged))
			}
			cov.Scenarios = append(cov.Scenarios, map[string]interface{}{"scope": "leader-follower", "cases": cases, "sizes": sizes, "end_to_end_not_converged": notConverged})
			cov.Samples = append(cov.Samples, map[string]interface{}{"scope": "leader-follower", "case": "n=201 every-other full sync: 3 messages of 100/100/1 regions, arrays aligned, follower equals leader"})
			fmt.Printf("C16 leader-follower cases=%d not_converged=%d\n", cases, notConverged)
			orderScope(tier, rep, cov)
		},
		Rule: "history buffer: BFS over Record / Record x100 / ResetWithIndex / restart sequences on capacities 1,2,3,5 (thorough also 150) with RecordsFrom evaluated for every index in [first-2, next+2] after every step; leader/follower: every region set size around the batch boundaries x 4 leader patterns x full and incremental start",
		Assumptions: []string{
			"the end-to-end follower part is input-exhaustive over the listed sizes but free-running (real goroutines, loopback gRPC), not schedule-explored; a run that does not converge within the internal deadline is reported as a cap, never as a violation",
			"restart clause evaluated for indexes reached by recording; after an explicit ResetWithIndex only 'reloaded = last persisted' is required (see DESIGN.md C16)",
		},
	})
	_ = strings.Join
}
