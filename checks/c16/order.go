package main

// Part 4 of C16: a region change that is recorded and broadcast while a follower's Sync
// call is in progress. The real RegionSyncer.RunServer goroutine and the real Sync run;
// the instant of the change is enumerated over every call the Sync goroutine makes into
// its environment (the server's ClusterID(), every Send on the follower's stream, the
// stream's Recv). Oracle on the messages the follower's stream received, in order: for
// one region, a record is never delivered after a newer record of the same region (a
// follower applies what it receives in order and would end with the older one although
// the newer one was sent), and the newest record delivered is what the leader holds
// whenever the change happened before the Sync call read the change log.

import (
	"context"
	"fmt"
	"io"
	"runtime"
	"sync"
	"time"

	"github.com/pingcap/kvproto/pkg/metapb"
	"github.com/pingcap/kvproto/pkg/pdpb"
	"github.com/tikv/pd/server/core"
	syncer "github.com/tikv/pd/server/region_syncer"
	"google.golang.org/grpc"
	"verif/engine/evidence"
)

func goid() string {
	var b [64]byte
	n := runtime.Stack(b[:], false)
	s := string(b[:n]) // "goroutine 12 [running]:..."
	for i := 10; i < len(s); i++ {
		if s[i] == ' ' {
			return s[10:i]
		}
	}
	return s
}

type ordStream struct {
	grpc.ServerStream
	mu     sync.Mutex
	msgs   []*pdpb.SyncRegionResponse
	reqs   []*pdpb.SyncRegionRequest
	point  func(string)
	notify chan struct{}
}

func (r *ordStream) Send(m *pdpb.SyncRegionResponse) error {
	r.point("send")
	b, _ := m.Marshal()
	c := &pdpb.SyncRegionResponse{}
	c.Unmarshal(b)
	r.mu.Lock()
	r.msgs = append(r.msgs, c)
	r.mu.Unlock()
	select {
	case r.notify <- struct{}{}:
	default:
	}
	return nil
}
func (r *ordStream) Recv() (*pdpb.SyncRegionRequest, error) {
	r.point("recv")
	if len(r.reqs) == 0 {
		return nil, io.EOF
	}
	q := r.reqs[0]
	r.reqs = r.reqs[1:]
	return q, nil
}
func (r *ordStream) Context() context.Context { return context.Background() }

type hookedMock struct {
	*mockServer
	point func(string)
}

func (s *hookedMock) ClusterID() uint64 {
	if s.point != nil {
		s.point("cluster-id")
	}
	return 7
}

// syncVsBroadcast runs one case: the change is injected at the at-th environment call of
// the Sync goroutine (at < 0: before Sync starts; at >= number of calls: after it returned).
// It returns the number of environment calls seen, a violation, and whether the run was conclusive.
func syncVsBroadcast(full bool, at int) (int, *evidence.Violation, bool) {
	ctx, cancel := context.WithCancel(context.Background())
	defer cancel()
	base := newMock(ctx, "leader")
	defer base.close()
	srv := &hookedMock{mockServer: base}
	peers := []*metapb.Peer{{Id: 11, StoreId: 1}, {Id: 12, StoreId: 2}, {Id: 13, StoreId: 3}}
	meta := &metapb.Region{Id: 1, RegionEpoch: &metapb.RegionEpoch{Version: 1, ConfVer: 1}, Peers: peers}
	older := core.NewRegionInfo(meta, peers[0])
	newer := core.NewRegionInfo(meta, peers[1]) // same epoch, the leader moved
	other := core.NewRegionInfo(&metapb.Region{Id: 2, StartKey: []byte("zz"), RegionEpoch: &metapb.RegionEpoch{Version: 1, ConfVer: 1}, Peers: []*metapb.Peer{{Id: 21, StoreId: 1}}}, nil)
	_ = other
	ls := syncer.NewRegionSyncer(srv)
	notifier := make(chan *core.RegionInfo, 16)
	quit := make(chan struct{})
	done := make(chan struct{})
	go func() { ls.RunServer(notifier, quit); close(done) }()
	defer func() { close(quit); <-done }()
	waitIndex := func(want uint64) bool {
		for i := 0; i < 2000; i++ {
			if ls.VerifHistory().GetNextIndex() >= want {
				return true
			}
			time.Sleep(time.Millisecond)
		}
		return false
	}
	base.bc.PutRegion(older)
	startIndex := uint64(0)
	if !full {
		// the older record is in the change log (index 0); the follower asks from 0
		notifier <- older
		if !waitIndex(1) {
			return 0, nil, false
		}
	} else {
		// the change log does not reach back to what the follower asks for: full synchronisation
		ls.VerifHistory().ResetWithIndex(7)
	}
	next := ls.VerifHistory().GetNextIndex()
	st := &ordStream{notify: make(chan struct{}, 64)}
	st.reqs = []*pdpb.SyncRegionRequest{{Header: &pdpb.RequestHeader{ClusterId: 7}, Member: &pdpb.Member{Name: "f1", ClientUrls: []string{"http://f1"}}, StartIndex: startIndex}}
	calls := 0
	injected := false
	conclusive := true
	var syncG string
	inject := func() {
		injected = true
		base.bc.PutRegion(newer)
		notifier <- newer
		if !waitIndex(next + 1) {
			conclusive = false
			return
		}
		// the broadcast follows the record at once; give it time to reach a bound stream
		select {
		case <-st.notify:
		case <-time.After(150 * time.Millisecond):
		}
	}
	point := func(string) {
		if goid() != syncG {
			return // a call made by the broadcasting goroutine
		}
		if calls == at && !injected {
			inject()
		}
		calls++
	}
	st.point, srv.point = point, point
	syncG = goid()
	if at < 0 {
		inject()
	}
	if err := ls.Sync(st); err != nil {
		return calls, &evidence.Violation{Key: "sync-error", Message: err.Error()}, true
	}
	if !injected {
		inject()
	}
	if !conclusive {
		return calls, nil, false
	}
	time.Sleep(20 * time.Millisecond)
	st.mu.Lock()
	defer st.mu.Unlock()
	var seq []uint64
	for _, m := range st.msgs {
		for i, r := range m.Regions {
			if r.GetId() != 1 {
				continue
			}
			l := uint64(0)
			if i < len(m.RegionLeaders) {
				l = m.RegionLeaders[i].GetId()
			}
			seq = append(seq, l)
		}
	}
	mode := "incremental"
	if full {
		mode = "full"
	}
	what := fmt.Sprintf("%s sync, the region's leader moves from peer 11 to peer 12 (same epoch) at environment call %d of %d", mode, at, calls)
	sawNewer := false
	for _, l := range seq {
		if l == 12 {
			sawNewer = true
		} else if l == 11 && sawNewer {
			return calls, &evidence.Violation{Key: "older-record-after-newer", Message: fmt.Sprintf("%s: the follower's stream received the records of region 1 in the order %v (leader peer ids): the older record arrives after the newer one, a follower ends with leader 11 while the leader holds 12", what, seq)}, true
		}
	}
	if at < 0 && !sawNewer {
		return calls, &evidence.Violation{Key: "change-before-sync-not-sent", Message: fmt.Sprintf("%s: the change happened before the synchronisation began but the stream received %v", what, seq)}, true
	}
	return calls, nil, true
}

func orderScope(tier string, rep *evidence.Reporter, cov *evidence.Coverage) {
	cases, inconclusive := 0, 0
	for _, full := range []bool{false, true} {
		n, _, _ := syncVsBroadcast(full, 1<<30)
		for at := -1; at <= n; at++ {
			var v *evidence.Violation
			ok := false
			for try := 0; try < 3 && !ok; try++ {
				_, v, ok = syncVsBroadcast(full, at)
			}
			cases++
			if !ok {
				inconclusive++
				continue
			}
			if v != nil {
				// believe it only if it reproduces
				if _, v2, ok2 := syncVsBroadcast(full, at); ok2 && v2 != nil && v2.Key == v.Key {
					v.Scenario = "sync-vs-broadcast"
					v.Replay = map[string]interface{}{"full": full, "at": at}
					rep.Report(v)
				} else {
					inconclusive++
				}
			}
		}
	}
	// broadcast batches on a bound stream
	for try := 0; try < 3; try++ {
		n, v, ok := broadcastBatches()
		if !ok {
			if try == 2 {
				inconclusive++
			}
			continue
		}
		cases++
		cov.Transitions += int64(n)
		if v != nil {
			if _, v2, ok2 := broadcastBatches(); ok2 && v2 != nil && v2.Key == v.Key {
				v.Scenario = "broadcast-batches"
				rep.Report(v)
			} else {
				inconclusive++
			}
		}
		break
	}
	cov.States += int64(cases)
	cov.Transitions += int64(cases)
	cov.Evaluations += int64(cases)
	cov.TracesValidatedAgainstImpl += int64(cases)
	cov.Scenarios = append(cov.Scenarios, map[string]interface{}{"scope": "sync-vs-broadcast", "cases": cases, "inconclusive": inconclusive})
	if inconclusive > 0 {
		cov.Exhaustive = false
		cov.CapsHit = append(cov.CapsHit, fmt.Sprintf("sync-vs-broadcast: %d cases inconclusive (the RunServer goroutine did not record the change in time, or a violation did not reproduce)", inconclusive))
	}
	fmt.Printf("C16 sync-vs-broadcast cases=%d inconclusive=%d\n", cases, inconclusive)
}

// broadcastBatches: a follower stream that is bound and then receives several broadcast
// batches (1, 2 and 3 regions pushed at once; how RunServer groups them is its business): in
// every message the parallel arrays must describe the same regions - the leader and the flow
// statistics at position i belong to region i.
func broadcastBatches() (int, *evidence.Violation, bool) {
	ctx, cancel := context.WithCancel(context.Background())
	defer cancel()
	base := newMock(ctx, "leader")
	defer base.close()
	ls := syncer.NewRegionSyncer(base)
	notifier := make(chan *core.RegionInfo, 16)
	quit := make(chan struct{})
	done := make(chan struct{})
	go func() { ls.RunServer(notifier, quit); close(done) }()
	defer func() { close(quit); <-done }()
	st := &ordStream{notify: make(chan struct{}, 64), point: func(string) {}}
	st.reqs = []*pdpb.SyncRegionRequest{{Header: &pdpb.RequestHeader{ClusterId: 7}, Member: &pdpb.Member{Name: "f1", ClientUrls: []string{"http://f1"}}, StartIndex: ls.VerifHistory().GetNextIndex()}}
	if err := ls.Sync(st); err != nil {
		return 0, &evidence.Violation{Key: "sync-error", Message: err.Error()}, true
	}
	type exp struct {
		leader  uint64
		written uint64
	}
	want := map[uint64]exp{}
	sent := 0
	id := uint64(0)
	for round, k := range []int{1, 2, 3, 1} {
		for j := 0; j < k; j++ {
			id++
			peers := []*metapb.Peer{{Id: id*10 + 1, StoreId: 1}, {Id: id*10 + 2, StoreId: 2}, {Id: id*10 + 3, StoreId: 3}}
			meta := &metapb.Region{Id: id, StartKey: []byte(fmt.Sprintf("%04d", id)), EndKey: []byte(fmt.Sprintf("%04d", id+1)), RegionEpoch: &metapb.RegionEpoch{Version: 1, ConfVer: 1}, Peers: peers}
			// regions reach the notifier from region heartbeats: they always name a leader
			leader := peers[(round+j)%3]
			r := core.NewRegionInfo(meta, leader, core.SetWrittenBytes(1000+id))
			want[id] = exp{leader: leader.GetId(), written: 1000 + id}
			notifier <- r
			sent++
		}
		// wait until everything pushed so far has been broadcast
		deadline := time.Now().Add(3 * time.Second)
		for {
			st.mu.Lock()
			n := 0
			for _, m := range st.msgs {
				n += len(m.Regions)
			}
			st.mu.Unlock()
			if n >= sent {
				break
			}
			if time.Now().After(deadline) {
				return sent, nil, false
			}
			time.Sleep(time.Millisecond)
		}
	}
	st.mu.Lock()
	defer st.mu.Unlock()
	for mi, m := range st.msgs {
		if len(m.Regions) == 0 {
			continue // keep-alive
		}
		if len(m.RegionLeaders) != len(m.Regions) || len(m.RegionStats) != len(m.Regions) {
			return sent, &evidence.Violation{Key: "parallel-arrays-length", Message: fmt.Sprintf("broadcast message %d carries %d regions, %d leaders, %d stats", mi, len(m.Regions), len(m.RegionLeaders), len(m.RegionStats))}, true
		}
		for i, r := range m.Regions {
			e := want[r.GetId()]
			if m.RegionLeaders[i].GetId() != e.leader {
				return sent, &evidence.Violation{Key: "broadcast-leader-misaligned", Message: fmt.Sprintf("broadcast message %d, position %d: region %d is sent with leader peer %d, the leader holds %d", mi, i, r.GetId(), m.RegionLeaders[i].GetId(), e.leader)}, true
			}
			if m.RegionStats[i].GetBytesWritten() != e.written {
				return sent, &evidence.Violation{Key: "broadcast-stats-misaligned", Message: fmt.Sprintf("broadcast message %d, position %d: region %d is sent with bytes-written %d, the leader holds %d", mi, i, r.GetId(), m.RegionStats[i].GetBytesWritten(), e.written)}, true
			}
		}
	}
	return sent, nil, true
}
