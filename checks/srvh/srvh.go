// Package srvh builds real pd Servers (server.VerifNewServer hook) on the fake etcd.
package srvh

import (
	"context"
	"fmt"
	"os"

	"github.com/pingcap/kvproto/pkg/metapb"
	"github.com/pingcap/kvproto/pkg/pdpb"
	"github.com/pingcap/log"
	"github.com/tikv/pd/pkg/typeutil"
	"github.com/tikv/pd/pkg/verifshim/vrand"
	"github.com/tikv/pd/server"
	"github.com/tikv/pd/server/config"
	"go.uber.org/zap"
	"verif/engine/fakeetcd"
)

// ClusterID is the pre-seeded cluster id (keeps etcd paths deterministic).
const ClusterID = 7

// Root is the root path of the cluster in etcd.
const Root = "/pd/7"

var tmpBase = func() string {
	for _, d := range []string{"/dev/shm", os.TempDir()} {
		if p, err := os.MkdirTemp(d, "verif-srv-"); err == nil {
			return p
		}
	}
	panic("no temp dir")
}()

var seq int

func init() {
	if os.Getenv("VERIF_PDLOG") == "" { // VERIF_PDLOG=1 keeps pd's own log output (debugging)
		log.ReplaceGlobals(zap.NewNop(), &log.ZapProperties{})
	}
	server.EnableZap = false
}

// Cleanup removes all scratch directories of this process.
func Cleanup() { os.RemoveAll(tmpBase) }

// NewConfig builds a server configuration by hand (what NewTestSingleConfig does, without check.C).
func NewConfig(id int) *config.Config {
	seq++
	dir := fmt.Sprintf("%s/%d-%d", tmpBase, os.Getpid(), seq)
	cfg := config.NewConfig()
	cfg.Name = fmt.Sprintf("pd%d", id)
	cfg.DataDir = dir
	cfg.ClientUrls = fmt.Sprintf("http://127.0.0.1:%d", 20000+id*2)
	cfg.PeerUrls = fmt.Sprintf("http://127.0.0.1:%d", 20001+id*2)
	cfg.AdvertiseClientUrls = cfg.ClientUrls
	cfg.AdvertisePeerUrls = cfg.PeerUrls
	cfg.InitialCluster = fmt.Sprintf("%s=%s", cfg.Name, cfg.PeerUrls)
	cfg.InitialClusterState = "new"
	cfg.Log.Level = "fatal"
	cfg.DisableStrictReconfigCheck = true
	cfg.TickInterval = typeutil.NewDuration(100 * 1000 * 1000)
	cfg.ElectionInterval = typeutil.NewDuration(3 * 1000 * 1000 * 1000)
	cfg.LeaderPriorityCheckInterval = typeutil.NewDuration(100 * 1000 * 1000)
	if err := cfg.SetupLogger(); err != nil {
		panic(err)
	}
	if err := cfg.Adjust(nil, false); err != nil {
		panic(err)
	}
	return cfg
}

// Srv is one server with its scratch dir.
type Srv struct {
	*server.Server
	ID     int
	Cfg    *config.Config
	cancel context.CancelFunc
	tsoOnly bool
}

// SeedClusterID stores the cluster id so that every server uses Root.
func SeedClusterID(st *fakeetcd.Store) {
	st.PutDirect("/pd/cluster_id", string(typeutil.Uint64ToBytes(ClusterID)))
}

// New creates a server on the store.
func New(st *fakeetcd.Store, id int, mod func(*config.Config)) (*Srv, error) {
	vrand.ResetDet()
	cfg := NewConfig(id)
	if mod != nil {
		mod(cfg)
	}
	ctx, cancel := context.WithCancel(context.Background())
	s, err := server.VerifNewServer(ctx, cfg, st.Client(), uint64(id))
	if err != nil {
		cancel()
		os.RemoveAll(cfg.DataDir)
		return nil, err
	}
	return &Srv{Server: s, ID: id, Cfg: cfg, cancel: cancel}, nil
}

// NewTSO creates a TSO-only server (server.VerifNewTSOServer): no storage, no raft cluster.
func NewTSO(st *fakeetcd.Store, id int, mod func(*config.Config)) (*Srv, error) {
	vrand.ResetDet()
	cfg := cachedConfig(id)
	if mod != nil {
		mod(cfg)
	}
	ctx, cancel := context.WithCancel(context.Background())
	s, err := server.VerifNewTSOServer(ctx, cfg, st.Client(), uint64(id))
	if err != nil {
		cancel()
		return nil, err
	}
	return &Srv{Server: s, ID: id, Cfg: cfg, cancel: cancel, tsoOnly: true}, nil
}

var cfgCache = map[int]*config.Config{}

// cachedConfig returns a copy of a once-adjusted configuration (SetupLogger / Adjust are slow
// and start a logger goroutine each time).
func cachedConfig(id int) *config.Config {
	c, ok := cfgCache[id]
	if !ok {
		c = NewConfig(id)
		cfgCache[id] = c
	}
	cp := c.Clone()
	cp.Labels = map[string]string{}
	return cp
}

// Close stops the server and removes its scratch dir.
func (s *Srv) Close() {
	if s.tsoOnly {
		s.VerifCloseTSO()
		s.cancel()
		return
	}
	s.VerifClose()
	s.cancel()
	os.RemoveAll(s.Cfg.DataDir)
}

// Header is a request header with the right cluster id.
func (s *Srv) Header() *pdpb.RequestHeader { return &pdpb.RequestHeader{ClusterId: s.ClusterID()} }

// BootstrapReq builds a valid bootstrap request for store/region/peer ids.
func (s *Srv) BootstrapReq(storeID, regionID, peerID uint64, addr string) *pdpb.BootstrapRequest {
	return &pdpb.BootstrapRequest{
		Header: s.Header(),
		Store:  &metapb.Store{Id: storeID, Address: addr},
		Region: &metapb.Region{Id: regionID, Peers: []*metapb.Peer{{Id: peerID, StoreId: storeID}},
			RegionEpoch: &metapb.RegionEpoch{ConfVer: 1, Version: 1}},
	}
}
