// The enumerated input space of check C12: rule alphabets, store layouts, regions.
package main

import (
	"fmt"
	"strings"

	"github.com/pingcap/kvproto/pkg/metapb"
	"github.com/tikv/pd/server/core"
	"github.com/tikv/pd/server/schedule/placement"
)

// ---- constraint lists and location labels ------------------------------

type consOpt struct {
	name string
	cs   []refCons
}

var consOpts = []consOpt{
	0:  {"-", nil},
	1:  {"zone in[z1]", []refCons{{"zone", "in", []string{"z1"}}}},
	2:  {"zone in[z1,z2]", []refCons{{"zone", "in", []string{"z1", "z2"}}}},
	3:  {"zone notIn[z1]", []refCons{{"zone", "notIn", []string{"z1"}}}},
	4:  {"host exists", []refCons{{"host", "exists", nil}}},
	5:  {"host notExists", []refCons{{"host", "notExists", nil}}},
	6:  {"engine in[tiflash]", []refCons{{"engine", "in", []string{"tiflash"}}}},
	7:  {"zone notIn[z3]+host exists", []refCons{{"zone", "notIn", []string{"z3"}}, {"host", "exists", nil}}},
	8:  {"engine notIn[tiflash]", []refCons{{"engine", "notIn", []string{"tiflash"}}}},
	9:  {"zone notExists", []refCons{{"zone", "notExists", nil}}},
	10: {"zone in[z2,z3]+engine exists", []refCons{{"zone", "in", []string{"z2", "z3"}}, {"engine", "exists", nil}}},
	11: {"zone in[z9]", []refCons{{"zone", "in", []string{"z9"}}}}, // no store matches
	12: {"$mode in[ro]", []refCons{{"$mode", "in", []string{"ro"}}}},
	13: {"zone in[z2,z1]", []refCons{{"zone", "in", []string{"z2", "z1"}}}},       // value lists are not sorted
	14: {"zone notIn[z3,z1]", []refCons{{"zone", "notIn", []string{"z3", "z1"}}}},
}

var locOpts = [][]string{
	0: nil,
	1: {"zone"},
	2: {"zone", "host"},
	3: {"host"},
}

var realRoles = []placement.PeerRoleType{placement.Voter, placement.Leader, placement.Follower, placement.Learner}

func realCons(cs []refCons) []placement.LabelConstraint {
	var out []placement.LabelConstraint
	for _, c := range cs {
		out = append(out, placement.LabelConstraint{Key: c.key, Op: placement.LabelConstraintOp(c.op), Values: c.values})
	}
	return out
}

// ---- store layouts -----------------------------------------------------

type layoutSpec struct {
	name   string
	stores []storeSpec
}

func st(id uint64, kv ...string) storeSpec {
	s := storeSpec{id: id}
	for i := 0; i+1 < len(kv); i += 2 {
		s.labels = append(s.labels, [2]string{kv[i], kv[i+1]})
	}
	return s
}

var layoutSpecs = []layoutSpec{
	0: {"zones", []storeSpec{
		st(1, "zone", "z1", "host", "h1"),
		st(2, "zone", "z1", "host", "h2"),
		st(3, "zone", "z2", "host", "h1"),
		st(4, "zone", "z2"),
		st(5, "zone", "z3", "host", "h3", "engine", "tiflash"),
	}},
	1: {"sparse", []storeSpec{
		st(1, "zone", "z1", "host", "h1"),
		st(2, "zone", "z1", "host", "h1"),
		st(3),
		st(4, "zone", "z2", "host", "h2"),
		st(5, "host", "h2", "engine", "tiflash"),
	}},
	2: {"six", []storeSpec{
		st(1, "zone", "z1", "host", "h1"),
		st(2, "zone", "z1", "host", "h2"),
		st(3, "zone", "z2", "host", "h3"),
		st(4, "zone", "z2", "host", "h3"),
		st(5, "zone", "z3"),
		st(6, "zone", "z1", "host", "h4", "engine", "tiflash"),
	}},
	3: {"three", []storeSpec{
		st(1, "zone", "z1", "host", "h1"),
		st(2, "zone", "z2", "host", "h1"),
		st(3, "host", "h2", "$mode", "ro"),
	}},
	4: {"four", []storeSpec{
		st(1, "zone", "z1", "host", "h1"),
		st(2, "zone", "z1", "host", "h2"),
		st(3, "zone", "z2"),
		st(4, "zone", "z3", "host", "h3", "engine", "tiflash"),
	}},
	6: {"no-zone", []storeSpec{ // stores without the first location label that differ on a later one
		st(1, "zone", "z1", "host", "h1"),
		st(2, "host", "h1"),
		st(3, "host", "h2"),
		st(4, "zone", "z1", "host", "h2"),
		st(5, "zone", "z2"),
	}},
	7: {"unknown-store", []storeSpec{ // store 4 holds peers but is not known to the cluster
		st(1, "zone", "z1", "host", "h1"),
		st(2, "zone", "z2", "host", "h1"),
		st(3, "zone", "z1", "host", "h2"),
		{ghost: true, id: 4},
	}},
	5: {"four-plain", []storeSpec{
		st(1, "zone", "z1", "host", "h1"),
		st(2, "zone", "z1", "host", "h2"),
		st(3, "zone", "z2", "host", "h1"),
		st(4, "zone", "z3"),
	}},
}

type layout struct {
	spec    layoutSpec
	set     *core.StoresInfo
	pair    [4][maxPeers + 1][maxPeers + 1]float64 // [loc][store idx][store idx]
	regions []*region
}

// ---- regions -----------------------------------------------------------

type region struct {
	n       int
	store   [maxPeers]int  // index into layout.spec.stores
	learner [maxPeers]bool //
	leader  int            // peer index or -1
	peers   [maxPeers]*metapb.Peer
	real    *core.RegionInfo
}

// peer ids are a scramble of the store ids so that the id order (which pd sorts
// by) differs from the order of the peers in the region meta.
func peerID(storeID uint64) uint64 { return 100 + (storeID*7)%11 }

func (r *region) describe(l *layout) string {
	var s []string
	for i := 0; i < r.n; i++ {
		role := "voter"
		if r.learner[i] {
			role = "learner"
		}
		if r.leader == i {
			role = "LEADER"
		}
		s = append(s, fmt.Sprintf("p%d@%s:%s", r.peers[i].Id, l.spec.stores[r.store[i]], role))
	}
	return "[" + strings.Join(s, " ") + "]"
}

func buildLayout(spec layoutSpec, minPeers, maxP int, leaderless bool) *layout {
	l := &layout{spec: spec, set: core.NewStoresInfo()}
	for _, s := range spec.stores {
		m := &metapb.Store{Id: s.id}
		for _, kv := range s.labels {
			m.Labels = append(m.Labels, &metapb.StoreLabel{Key: kv[0], Value: kv[1]})
		}
		if !s.ghost {
			l.set.SetStore(core.NewStoreInfo(m))
		}
	}
	for li, loc := range locOpts {
		for i, a := range spec.stores {
			for j, b := range spec.stores {
				l.pair[li][i][j] = refPairScore(a, b, loc)
			}
		}
	}
	ns := len(spec.stores)
	for sub := 1; sub < 1<<uint(ns); sub++ {
		var idx []int
		for i := 0; i < ns; i++ {
			if sub&(1<<uint(i)) != 0 {
				idx = append(idx, i)
			}
		}
		n := len(idx)
		if n < minPeers || n > maxP {
			continue
		}
		for lm := 0; lm < 1<<uint(n); lm++ { // learner mask
			for leader := -1; leader < n; leader++ {
				if leader >= 0 && lm&(1<<uint(leader)) != 0 {
					continue // a learner is never the leader
				}
				if leader < 0 && !leaderless {
					continue
				}
				r := &region{n: n, leader: leader}
				meta := &metapb.Region{Id: 1, RegionEpoch: &metapb.RegionEpoch{Version: 1, ConfVer: 1}}
				for i, si := range idx {
					r.store[i] = si
					r.learner[i] = lm&(1<<uint(i)) != 0
					role := metapb.PeerRole_Voter
					if r.learner[i] {
						role = metapb.PeerRole_Learner
					}
					r.peers[i] = &metapb.Peer{Id: peerID(spec.stores[si].id), StoreId: spec.stores[si].id, Role: role}
					meta.Peers = append(meta.Peers, r.peers[i])
				}
				var lp *metapb.Peer
				if leader >= 0 {
					lp = r.peers[leader]
				}
				r.real = core.NewRegionInfo(meta, lp)
				l.regions = append(l.regions, r)
			}
		}
	}
	return l
}

// ---- rules -------------------------------------------------------------

type ruleSpec struct {
	role, count, cons, loc int
}

func (r ruleSpec) String() string {
	s := fmt.Sprintf("%s*%d", roleNames[r.role], r.count)
	if r.cons != 0 {
		s += "{" + consOpts[r.cons].name + "}"
	}
	if r.loc != 0 {
		s += "@" + strings.Join(locOpts[r.loc], "/")
	}
	return s
}

type rule struct {
	spec  ruleSpec
	real  *placement.Rule
	match []uint8 // per layout of the scope: bit i = store i satisfies the constraints (reference)
}

// ---- scopes ------------------------------------------------------------

type scope struct {
	Name       string
	Tiers      string
	Roles      []int
	Counts     []int
	Cons       []int
	Locs       []int
	MinRules   int
	MaxRules   int
	Layouts    []int
	MinPeers   int
	MaxPeers   int
	Leaderless bool // also regions without a leader (and then all-learner regions)

	alphabet []*rule
	layouts  []*layout
	offsets  []int64 // offsets[k-MinRules] = index of the first list with k rules
	total    int64
}

func (sc *scope) build() {
	if sc.alphabet != nil {
		return
	}
	for _, li := range sc.Layouts {
		sc.layouts = append(sc.layouts, buildLayout(layoutSpecs[li], sc.MinPeers, sc.MaxPeers, sc.Leaderless))
	}
	for _, role := range sc.Roles {
		for _, count := range sc.Counts {
			for _, cons := range sc.Cons {
				locs := sc.Locs
				if count == 1 {
					locs = []int{0} // location labels cannot matter for a single peer
				}
				for _, loc := range locs {
					spec := ruleSpec{role, count, cons, loc}
					r := &rule{spec: spec, real: &placement.Rule{
						GroupID: "pd", ID: spec.String(), Role: realRoles[role], Count: count,
						LabelConstraints: realCons(consOpts[cons].cs), LocationLabels: locOpts[loc],
					}}
					for _, l := range sc.layouts {
						var m uint8
						for i, s := range l.spec.stores {
							if refMatch(s, consOpts[cons].cs) {
								m |= 1 << uint(i)
							}
						}
						r.match = append(r.match, m)
					}
					sc.alphabet = append(sc.alphabet, r)
				}
			}
		}
	}
	a := int64(len(sc.alphabet))
	var off int64
	for k := sc.MinRules; k <= sc.MaxRules; k++ {
		sc.offsets = append(sc.offsets, off)
		p := int64(1)
		for i := 0; i < k; i++ {
			p *= a
		}
		off += p
	}
	sc.total = off
}

// list decodes the idx-th rule list.
func (sc *scope) list(idx int64, buf []*rule) []*rule {
	k := sc.MinRules
	for i := len(sc.offsets) - 1; i >= 0; i-- {
		if idx >= sc.offsets[i] {
			k = sc.MinRules + i
			idx -= sc.offsets[i]
			break
		}
	}
	a := int64(len(sc.alphabet))
	buf = buf[:0]
	for i := 0; i < k; i++ {
		buf = append(buf, nil)
	}
	for i := k - 1; i >= 0; i-- {
		buf[i] = sc.alphabet[idx%a]
		idx /= a
	}
	return buf
}

func (sc *scope) casesPerList() int64 {
	var n int64
	for _, l := range sc.layouts {
		n += int64(len(l.regions))
	}
	return n
}

func (sc *scope) bounds() map[string]interface{} {
	sc.build()
	var roles, cons, locs, lays []string
	for _, r := range sc.Roles {
		roles = append(roles, roleNames[r])
	}
	for _, c := range sc.Cons {
		cons = append(cons, consOpts[c].name)
	}
	for _, l := range sc.Locs {
		locs = append(locs, "["+strings.Join(locOpts[l], ",")+"]")
	}
	for _, l := range sc.layouts {
		var ss []string
		for _, s := range l.spec.stores {
			ss = append(ss, s.String())
		}
		lays = append(lays, fmt.Sprintf("%s: %s (%d regions)", l.spec.name, strings.Join(ss, " "), len(l.regions)))
	}
	return map[string]interface{}{
		"scope": sc.Name, "rules_per_list": fmt.Sprintf("%d..%d", sc.MinRules, sc.MaxRules), "roles": roles, "counts": sc.Counts,
		"constraint_lists": cons, "location_labels_for_count_ge_2": locs, "rule_alphabet": len(sc.alphabet), "rule_lists": sc.total,
		"layouts": lays, "peers_per_region": fmt.Sprintf("%d..%d", sc.MinPeers, sc.MaxPeers), "leaderless_regions": sc.Leaderless,
		"regions": "every subset of the layout's stores of that size x every voter/learner pattern x every leader among the voters",
	}
}

func describeRules(rules []*rule) string {
	var s []string
	for _, r := range rules {
		s = append(s, r.spec.String())
	}
	return "rules<" + strings.Join(s, " ; ") + ">"
}
