// Check C12: rule fitting partitions peers correctly and picks the best assignment.
// Engine C: bounded exhaustive enumeration of (rule list, store layout, region)
// on the real placement.FitRegion / CompareRegionFit / IsSatisfied, against a
// brute-force reference (oracle.go) that generates every valid assignment.
package main

import (
	"bufio"
	"encoding/json"
	"flag"
	"fmt"
	"os"
	"os/exec"
	"runtime"
	"strings"
	"sync"
	"syscall"
	"time"

	"verif/engine/evidence"
)

const property = "C12"

var (
	allRoles = []int{roleVoter, roleLeader, roleFollower, roleLearner}
)

var scopes = []*scope{
	// ---- quick ----
	{Name: "1-2rules/full/zones", Tiers: "quick", Roles: allRoles, Counts: []int{1, 2, 3}, Cons: []int{0, 1, 2, 3, 4, 6, 7}, Locs: []int{0, 1, 2},
		MinRules: 1, MaxRules: 2, Layouts: []int{0}, MinPeers: 2, MaxPeers: 4},
	{Name: "1-2rules/mid/sparse", Tiers: "quick", Roles: allRoles, Counts: []int{1, 2, 3}, Cons: []int{0, 1, 3, 4, 5, 6}, Locs: []int{0, 2},
		MinRules: 1, MaxRules: 2, Layouts: []int{1}, MinPeers: 1, MaxPeers: 5, Leaderless: true},
	{Name: "3rules/small/four", Tiers: "quick", Roles: allRoles, Counts: []int{1, 2}, Cons: []int{0, 1, 4, 6}, Locs: []int{0, 2},
		MinRules: 3, MaxRules: 3, Layouts: []int{4}, MinPeers: 3, MaxPeers: 4},
	{Name: "4rules/tiny/four-plain", Tiers: "quick", Roles: allRoles, Counts: []int{1, 2}, Cons: []int{0, 1}, Locs: []int{2},
		MinRules: 4, MaxRules: 4, Layouts: []int{5}, MinPeers: 4, MaxPeers: 4},
	{Name: "1-2rules/unsorted-values/zones", Tiers: "quick", Roles: allRoles, Counts: []int{1, 2}, Cons: []int{0, 13, 14}, Locs: []int{0, 1},
		MinRules: 1, MaxRules: 2, Layouts: []int{0}, MinPeers: 2, MaxPeers: 3},
	{Name: "1-2rules/unknown-store", Tiers: "quick", Roles: allRoles, Counts: []int{1, 2, 3}, Cons: []int{0, 1, 4}, Locs: []int{0, 1},
		MinRules: 1, MaxRules: 2, Layouts: []int{7}, MinPeers: 2, MaxPeers: 4},
	{Name: "1-2rules/iso/no-zone", Tiers: "quick", Roles: allRoles, Counts: []int{1, 2, 3}, Cons: []int{0, 4}, Locs: []int{0, 1, 2, 3},
		MinRules: 1, MaxRules: 2, Layouts: []int{6}, MinPeers: 2, MaxPeers: 4},
	// ---- thorough ----
	{Name: "1-2rules/wide/3layouts", Tiers: "thorough", Roles: allRoles, Counts: []int{1, 2, 3}, Cons: []int{0, 1, 2, 3, 4, 5, 6, 7, 8, 9, 10, 11, 12}, Locs: []int{0, 1, 2, 3},
		MinRules: 1, MaxRules: 2, Layouts: []int{0, 1, 3}, MinPeers: 1, MaxPeers: 5, Leaderless: true},
	{Name: "3rules/mid/zones", Tiers: "thorough", Roles: allRoles, Counts: []int{1, 2, 3}, Cons: []int{0, 1, 4, 6}, Locs: []int{0, 2},
		MinRules: 3, MaxRules: 3, Layouts: []int{0}, MinPeers: 3, MaxPeers: 5},
	{Name: "4rules/small/six", Tiers: "thorough", Roles: allRoles, Counts: []int{1, 2}, Cons: []int{0, 1}, Locs: []int{2},
		MinRules: 4, MaxRules: 4, Layouts: []int{2}, MinPeers: 5, MaxPeers: 6},
}

type vrec struct {
	Key    string  `json:"key"`
	Msg    string  `json:"msg"`
	Replay []int64 `json:"replay"` // rule list index, layout index, region index
}

type result struct {
	counters
	Lists    int64    `json:"lists"`
	Complete bool     `json:"complete"`
	Viol     []vrec   `json:"viol,omitempty"`
	Samples  []string `json:"samples,omitempty"`
}

// search checks every rule list whose index is = shard (mod n).
func search(sc *scope, shard, n int, deadline time.Time) *result {
	sc.build()
	res := &result{Complete: true}
	c := &checker{}
	buf := make([]*rule, 0, maxRules)
	for idx := int64(shard); idx < sc.total; idx += int64(n) {
		if !deadline.IsZero() && time.Now().After(deadline) {
			res.Complete = false
			break
		}
		rules := sc.list(idx, buf)
		c.rules = rules
		for li, lay := range sc.layouts {
			c.lay, c.li = lay, li
			for ri, reg := range lay.regions {
				c.reg = reg
				v := c.run(ri == 0)
				if v != nil {
					dup := false
					for _, o := range res.Viol {
						if o.Key == v.Key {
							dup = true
						}
					}
					if !dup {
						res.Viol = append(res.Viol, vrec{Key: v.Key, Msg: v.Msg, Replay: []int64{idx, int64(li), int64(ri)}})
					}
					continue
				}
				// a few written-out cases, taken at different depths of the list enumeration
				if len(res.Samples) < 2 && c.nAsg >= 8 && ri%7 == 3 && idx >= int64(shard%4)*(sc.total/4) {
					res.Samples = append(res.Samples, c.input()+"  =>  "+describeFit(c.ret)+fmt.Sprintf("  (satisfied=%v; %d valid assignments compared)", c.ret.IsSatisfied(), c.nAsg))
				}
			}
		}
		res.Lists++
	}
	res.counters = c.cnt
	return res
}

func workerMain(arg string) {
	parts := strings.Split(arg, "\x1f")
	var shard, n int
	var dl int64
	fmt.Sscan(parts[1], &shard)
	fmt.Sscan(parts[2], &n)
	fmt.Sscan(parts[3], &dl)
	var sc *scope
	for _, s := range scopes {
		if s.Name == parts[0] {
			sc = s
		}
	}
	pfd, _ := syscall.Dup(1)
	if dn, err := os.OpenFile(os.DevNull, os.O_WRONLY, 0); err == nil {
		syscall.Dup2(int(dn.Fd()), 1)
		if os.Getenv("VERIF_WORKER_STDERR") == "" {
			syscall.Dup2(int(dn.Fd()), 2)
		}
	}
	res := search(sc, shard, n, time.UnixMilli(dl))
	b, _ := json.Marshal(res)
	out := bufio.NewWriter(os.NewFile(uintptr(pfd), "proto"))
	out.Write(b)
	out.WriteByte('\n')
	out.Flush()
}

func replayFile(path string) int {
	b, err := os.ReadFile(path)
	if err != nil {
		fmt.Fprintln(os.Stderr, err)
		return 2
	}
	var v struct {
		Scenario string  `json:"scenario"`
		Replay   []int64 `json:"replay"`
	}
	if err := json.Unmarshal(b, &v); err != nil || len(v.Replay) != 3 {
		fmt.Fprintln(os.Stderr, "bad replay file", err)
		return 2
	}
	var sc *scope
	for _, s := range scopes {
		if s.Name == v.Scenario {
			sc = s
		}
	}
	if sc == nil {
		fmt.Fprintln(os.Stderr, "unknown scope", v.Scenario)
		return 2
	}
	sc.build()
	c := &checker{}
	c.rules = sc.list(v.Replay[0], nil)
	c.li = int(v.Replay[1])
	c.lay = sc.layouts[c.li]
	// run the regions of this (list, layout) up to the failing one: the cross-region comparison needs the previous fit
	for ri := 0; ri <= int(v.Replay[2]); ri++ {
		c.reg = c.lay.regions[ri]
		viol := c.run(ri == 0)
		if ri == int(v.Replay[2]) {
			fmt.Printf("  input: %s\n  FitRegion returned: %s\n", c.input(), describeFit(c.ret))
		}
		if viol != nil {
			fmt.Printf("VIOLATION property=%s replay=%s\n  key=%s\n  %s\n", property, path, viol.Key, strings.ReplaceAll(viol.Msg, "\n", "\n  "))
			return 1
		}
	}
	fmt.Println("no violation on replay")
	return 0
}

func main() {
	tier := flag.String("tier", "quick", "quick|thorough")
	worker := flag.String("worker", "", "internal: scope, shard, n, deadline")
	replay := flag.String("replay", "", "replay a violation file")
	budget := flag.Int("budget", 0, "time budget in seconds")
	nworkers := flag.Int("workers", 0, "worker processes")
	only := flag.String("scope", "", "only this scope")
	flag.Parse()
	if *worker != "" {
		workerMain(*worker)
		return
	}
	if *replay != "" {
		os.Exit(replayFile(*replay))
	}
	if *budget == 0 {
		*budget = 150
		if *tier == "thorough" {
			*budget = 1080
		}
	}
	if *nworkers == 0 {
		*nworkers = runtime.NumCPU()
	}
	rep := evidence.NewReporter(property)
	cov := evidence.Coverage{Exhaustive: true}
	cov.Rule = "every rule list of the scope's alphabet (role x count x constraint list x location labels; a rule of count 1 has no location labels) x every store layout of the scope x every region (every subset of the layout's stores of the allowed sizes x every voter/learner pattern x every leader among the voters) is one distinct case, generated by nested counting (no sampling); a case is non-trivial when a real choice exists: some peer is eligible for two or more rules or some rule has more eligible peers than its count. For every case the real FitRegion result is validated and compared with ALL valid assignments (brute force)"
	deadline := time.Now().Add(time.Duration(*budget) * time.Second)

	var run []*scope
	for _, s := range scopes {
		if s.Tiers == *tier && (*only == "" || *only == s.Name) {
			run = append(run, s)
		}
	}
	var tot counters
	var bounds []interface{}
	for i, sc := range run {
		sc.build()
		remain := time.Until(deadline)
		dl := time.Now().Add(remain / time.Duration(len(run)-i))
		start := time.Now()
		n := *nworkers
		if sc.total < int64(n) {
			n = int(sc.total)
		}
		results := make([]*result, n)
		errs := make([]error, n)
		var wg sync.WaitGroup
		for sh := 0; sh < n; sh++ {
			wg.Add(1)
			go func(sh int) {
				defer wg.Done()
				cmd := exec.Command(os.Args[0], "-worker", fmt.Sprintf("%s\x1f%d\x1f%d\x1f%d", sc.Name, sh, n, dl.UnixMilli()))
				cmd.Stderr = os.Stderr
				out, err := cmd.Output()
				if err != nil {
					errs[sh] = fmt.Errorf("worker %d: %v", sh, err)
					return
				}
				var r result
				for _, line := range strings.Split(string(out), "\n") {
					if strings.HasPrefix(line, "{") && json.Unmarshal([]byte(line), &r) == nil {
						results[sh] = &r
					}
				}
				if results[sh] == nil {
					errs[sh] = fmt.Errorf("worker %d: no result", sh)
				}
			}(sh)
		}
		wg.Wait()
		var st counters
		var lists int64
		complete := true
		for sh := 0; sh < n; sh++ {
			if errs[sh] != nil {
				fmt.Fprintf(os.Stderr, "INFRA: %s scope %s: %v\n", property, sc.Name, errs[sh])
				os.Exit(2)
			}
			r := results[sh]
			lists += r.Lists
			st.Cases += r.Cases
			st.Nontrivial += r.Nontrivial
			st.Assignments += r.Assignments
			st.FitCalls += r.FitCalls
			st.CmpCalls += r.CmpCalls
			st.Satisfied += r.Satisfied
			if r.MaxAssign > st.MaxAssign {
				st.MaxAssign = r.MaxAssign
			}
			complete = complete && r.Complete
			for _, v := range r.Viol {
				rep.Report(&evidence.Violation{Scenario: sc.Name, Key: v.Key, Message: v.Msg, Replay: v.Replay})
			}
			if sh == 1 || sh == 3 {
				for si, s := range r.Samples {
					if si > 0 {
						break
					}
					if len(cov.Samples) < 12 {
						cov.Samples = append(cov.Samples, map[string]interface{}{"scope": sc.Name, "case": s})
					}
				}
			}
		}
		if !complete {
			cov.Exhaustive = false
			cov.CapsHit = append(cov.CapsHit, fmt.Sprintf("scope %s: time budget reached (%d of %d rule lists done)", sc.Name, lists, sc.total))
		}
		tot.Cases += st.Cases
		tot.Nontrivial += st.Nontrivial
		tot.Assignments += st.Assignments
		tot.FitCalls += st.FitCalls
		tot.CmpCalls += st.CmpCalls
		tot.Satisfied += st.Satisfied
		if st.MaxAssign > tot.MaxAssign {
			tot.MaxAssign = st.MaxAssign
		}
		wall := time.Since(start).Seconds()
		cov.Scenarios = append(cov.Scenarios, map[string]interface{}{"scope": sc.Name, "rule_lists": lists, "rule_lists_total": sc.total, "cases": st.Cases,
			"nontrivial_cases": st.Nontrivial, "satisfied_cases": st.Satisfied, "valid_assignments_compared": st.Assignments, "max_valid_assignments_per_case": st.MaxAssign,
			"fit_region_calls": st.FitCalls, "compare_region_fit_calls": st.CmpCalls, "exhaustive": complete, "wall_s": wall})
		bounds = append(bounds, sc.bounds())
		fmt.Printf("%s %-28s lists=%d/%d cases=%d nontrivial=%d satisfied=%d assignments=%d cmpcalls=%d exhaustive=%v %.1fs\n", property, sc.Name, lists, sc.total, st.Cases, st.Nontrivial, st.Satisfied, st.Assignments, st.CmpCalls, complete, wall)
	}
	cov.States = tot.Cases                        // distinct inputs
	cov.Transitions = tot.FitCalls + tot.CmpCalls // calls of the real functions
	cov.TracesValidatedAgainstImpl = tot.FitCalls
	cov.Evaluations = tot.Cases
	cov.DistinctNontrivial = tot.Nontrivial
	cov.Bounds = bounds
	cov.Explanation = fmt.Sprintf("input enumeration: states = distinct (rule list, stores, region) inputs; transitions = calls of the real FitRegion (%d) + CompareRegionFit (%d); %d valid assignments were generated by the reference and compared with the returned fits (at most %d per case); %d cases were reported satisfied", tot.FitCalls, tot.CmpCalls, tot.Assignments, tot.MaxAssign, tot.Satisfied)
	cov.KnownFindings = rep.KnownReported()
	ev := &evidence.File{PropertyID: property, Tier: *tier, Seed: evidence.Seed(), Level: "model_checking", Coverage: cov, WallS: rep.Wall(), Violations: len(rep.Unknown),
		Assumptions: []string{
			"reference = brute force over all assignments peer -> rule | orphan, written from the statement (oracle.go); label matching, role conversion and isolation score re-implemented from the documented semantics",
			"a store carrying a reserved label (engine / exclusive / $...) satisfies a rule's constraints only when the rule names that label (documented in label_constraint.go); label keys and values are lower case (pd compares keys case-insensitively)",
			"isolation score = sum over peer pairs of 100^(labels below the first location label on which both stores have a value and differ); RuleFit.IsolationScore is required to be exactly this value",
			"every peer lives on a store known to the store set, at most one peer per store; joint-consensus peer roles (IncomingVoter / DemotingVoter) are not enumerated",
			"FitRegion uses no randomness, clock or concurrency: nothing is rewritten",
		}}
	if err := evidence.Write(ev); err != nil {
		fmt.Fprintf(os.Stderr, "INFRA: write evidence: %v\n", err)
		os.Exit(2)
	}
	if rep.Failed() {
		os.Exit(1)
	}
}
