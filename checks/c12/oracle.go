// Reference side of check C12, written from the property statement and the
// documented semantics of placement rules; it shares no code with pd.
package main

import "strings"

// ---- label constraints -------------------------------------------------

type refCons struct {
	key    string
	op     string // "in" | "notIn" | "exists" | "notExists"
	values []string
}

type storeSpec struct {
	ghost  bool // the region has a peer on this store id but the cluster does not know the store
	id     uint64
	labels [][2]string // key, value (value never empty)
}

func (s storeSpec) label(key string) (string, bool) {
	for _, l := range s.labels {
		if l[0] == key {
			return l[1], true
		}
	}
	return "", false
}

func (s storeSpec) String() string {
	var l []string
	for _, kv := range s.labels {
		l = append(l, kv[0]+"="+kv[1])
	}
	return "s" + string(rune('0'+s.id)) + "{" + strings.Join(l, ",") + "}"
}

// A store carrying a label whose key is reserved ("engine", "exclusive" or a
// key starting with '$') may only be used by a rule that names this key in one
// of its constraints.
func refExclusiveKey(k string) bool {
	return k == "engine" || k == "exclusive" || strings.HasPrefix(k, "$")
}

// refMatch: does the store satisfy the constraint list of a rule?
//
//	in        - the store has the label and its value is listed
//	notIn     - the store has no such label or its value is not listed
//	exists    - the store has the label
//	notExists - the store does not have the label
func refMatch(s storeSpec, cs []refCons) bool {
	if s.ghost {
		return false // a peer on a store that does not exist matches no rule: it is an orphan
	}
	for _, l := range s.labels {
		if refExclusiveKey(l[0]) {
			named := false
			for _, c := range cs {
				if c.key == l[0] {
					named = true
				}
			}
			if !named {
				return false
			}
		}
	}
	for _, c := range cs {
		v, has := s.label(c.key)
		listed := false
		for _, x := range c.values {
			if has && x == v {
				listed = true
			}
		}
		ok := false
		switch c.op {
		case "in":
			ok = has && listed
		case "notIn":
			ok = !has || !listed
		case "exists":
			ok = has
		case "notExists":
			ok = !has
		}
		if !ok {
			return false
		}
	}
	return true
}

// ---- roles -------------------------------------------------------------

const (
	roleVoter = iota
	roleLeader
	roleFollower
	roleLearner
)

var roleNames = []string{"voter", "leader", "follower", "learner"}

// refStrict: the peer already has the role the rule asks for.
func refStrict(role int, learner, leader bool) bool {
	switch role {
	case roleVoter:
		return !learner
	case roleLeader:
		return leader
	case roleFollower:
		return !learner && !leader
	case roleLearner:
		return learner
	}
	return false
}

// refLoose: the peer can still be converted to the role by scheduling. The only
// impossible conversion is non-learner -> learner.
func refLoose(role int, learner bool) bool {
	if role == roleLearner {
		return learner
	}
	return true
}

// ---- isolation ---------------------------------------------------------

// refPairScore: two stores are isolated at level i when i is the first location
// label for which both have a value and the values differ; such a pair is worth
// 100^(number of labels below level i). Pairs that never differ are worth 0.
func refPairScore(a, b storeSpec, loc []string) float64 {
	for i, key := range loc {
		va, ha := a.label(key)
		vb, hb := b.label(key)
		if ha && hb && va != vb {
			w := 1.0
			for j := i + 1; j < len(loc); j++ {
				w *= 100
			}
			return w
		}
	}
	return 0
}

// ---- the documented order ---------------------------------------------

const maxRules = 4
const maxPeers = 6

// fitKey is what the documented order looks at.
type fitKey struct {
	k       int
	n       [maxRules]int     // peers per rule
	mis     [maxRules]int     // peers per rule whose role differs
	score   [maxRules]float64 // isolation score per rule
	orphans int
}

// cmpKey returns 1 when a is better than b: rule by rule more peers, then fewer
// role mismatches, then higher isolation score; finally fewer orphans.
func cmpKey(a, b *fitKey) int {
	for i := 0; i < a.k; i++ {
		switch {
		case a.n[i] > b.n[i]:
			return 1
		case a.n[i] < b.n[i]:
			return -1
		case a.mis[i] < b.mis[i]:
			return 1
		case a.mis[i] > b.mis[i]:
			return -1
		case a.score[i] > b.score[i]:
			return 1
		case a.score[i] < b.score[i]:
			return -1
		}
	}
	switch {
	case a.orphans < b.orphans:
		return 1
	case a.orphans > b.orphans:
		return -1
	}
	return 0
}
