// One case of check C12: run the real placement.FitRegion on (stores, region,
// rules), validate the returned fit and compare it with every valid assignment.
package main

import (
	"fmt"
	"strings"

	"github.com/pingcap/kvproto/pkg/metapb"
	"github.com/tikv/pd/server/schedule/placement"
)

type violation struct {
	Key string
	Msg string
}

type counters struct {
	Cases       int64 `json:"cases"`
	Nontrivial  int64 `json:"nontrivial"`
	Assignments int64 `json:"assignments"`
	FitCalls    int64 `json:"fit_calls"`
	CmpCalls    int64 `json:"cmp_calls"`
	Satisfied   int64 `json:"satisfied"`
	MaxAssign   int64 `json:"max_assign"`
}

// scratchFit is a RegionFit built by the check for one assignment.
type scratchFit struct {
	fit     placement.RegionFit
	rfs     [maxRules]placement.RuleFit
	peers   [maxRules][maxPeers]*metapb.Peer
	diff    [maxRules][maxPeers]*metapb.Peer
	orphans [maxPeers]*metapb.Peer
	key     fitKey
}

type checker struct {
	cnt counters

	lay   *layout
	li    int // index of lay in the scope
	rules []*rule
	reg   *region
	n, k  int

	elig   [maxPeers]uint8 // bit r: peer may be placed in rule r
	strict [maxPeers]uint8 // bit r: peer already has the role of rule r

	ret    *placement.RegionFit
	retKey fitKey
	retAsg [maxPeers]int8

	cur     [maxPeers]int8
	used    [maxRules]int
	best    fitKey
	bestAsg [maxPeers]int8
	nAsg    int64
	scratch [2]scratchFit
	which   int
	hasPrev bool
	viol    *violation

	// fit of the previous region of the same (rule list, layout): CompareRegionFit across regions
	prevRet *placement.RegionFit
	prevKey fitKey
	prevReg *region
}

func (c *checker) input() string {
	return fmt.Sprintf("%s  stores<%s>  region%s", describeRules(c.rules), c.lay.spec.name, c.reg.describe(c.lay))
}

func describeFit(f *placement.RegionFit) string {
	var s []string
	for i, rf := range f.RuleFits {
		if rf == nil {
			s = append(s, fmt.Sprintf("r%d:nil", i))
			continue
		}
		var p, d []string
		for _, x := range rf.Peers {
			p = append(p, fmt.Sprint(x.GetId()))
		}
		for _, x := range rf.PeersWithDifferentRole {
			d = append(d, fmt.Sprint(x.GetId()))
		}
		s = append(s, fmt.Sprintf("r%d:peers[%s] diffRole[%s] iso=%v", i, strings.Join(p, ","), strings.Join(d, ","), rf.IsolationScore))
	}
	var o []string
	for _, x := range f.OrphanPeers {
		o = append(o, fmt.Sprint(x.GetId()))
	}
	return strings.Join(s, " | ") + " | orphans[" + strings.Join(o, ",") + "]"
}

func (c *checker) describeAsg(a *[maxPeers]int8) string {
	var s []string
	for i := 0; i < c.n; i++ {
		if a[i] < 0 {
			s = append(s, fmt.Sprintf("p%d->orphan", c.reg.peers[i].Id))
		} else {
			s = append(s, fmt.Sprintf("p%d->r%d", c.reg.peers[i].Id, a[i]))
		}
	}
	return strings.Join(s, " ")
}

func describeKey(k *fitKey) string {
	var s []string
	for i := 0; i < k.k; i++ {
		s = append(s, fmt.Sprintf("r%d(peers=%d,diffRole=%d,iso=%v)", i, k.n[i], k.mis[i], k.score[i]))
	}
	return strings.Join(s, " ") + fmt.Sprintf(" orphans=%d", k.orphans)
}

func (c *checker) bad(key, f string, a ...interface{}) *violation {
	msg := fmt.Sprintf(f, a...) + "\n  input: " + c.input()
	if c.ret != nil {
		msg += "\n  FitRegion returned: " + describeFit(c.ret)
	}
	return &violation{Key: key, Msg: msg}
}

// keyOf computes what the documented order looks at for an assignment.
func (c *checker) keyOf(a *[maxPeers]int8, k *fitKey) {
	*k = fitKey{k: c.k}
	for i := 0; i < c.n; i++ {
		r := a[i]
		if r < 0 {
			k.orphans++
			continue
		}
		k.n[r]++
		if c.strict[i]&(1<<uint(r)) == 0 {
			k.mis[r]++
		}
		loc := c.rules[r].spec.loc
		if loc != 0 {
			for j := i + 1; j < c.n; j++ {
				if a[j] == r {
					k.score[r] += c.lay.pair[loc][c.reg.store[i]][c.reg.store[j]]
				}
			}
		}
	}
}

// fill builds a RegionFit for an assignment with the reference values.
func (c *checker) fill(s *scratchFit, a *[maxPeers]int8) {
	c.keyOf(a, &s.key)
	s.fit.RuleFits = s.fit.RuleFits[:0]
	var np, nd [maxRules]int
	no := 0
	for i := 0; i < c.n; i++ {
		r := a[i]
		if r < 0 {
			s.orphans[no] = c.reg.peers[i]
			no++
			continue
		}
		s.peers[r][np[r]] = c.reg.peers[i]
		np[r]++
		if c.strict[i]&(1<<uint(r)) == 0 {
			s.diff[r][nd[r]] = c.reg.peers[i]
			nd[r]++
		}
	}
	for r := 0; r < c.k; r++ {
		s.rfs[r] = placement.RuleFit{Rule: c.rules[r].real, Peers: s.peers[r][:np[r]], PeersWithDifferentRole: s.diff[r][:nd[r]], IsolationScore: s.key.score[r]}
		s.fit.RuleFits = append(s.fit.RuleFits, &s.rfs[r])
	}
	s.fit.OrphanPeers = s.orphans[:no]
}

func (c *checker) peerIndex(p *metapb.Peer) int {
	for i := 0; i < c.n; i++ {
		if c.reg.peers[i] == p {
			return i
		}
	}
	return -1
}

// run checks one case; newList tells that (rule list, layout) changed. A panic
// of the code under check is a violation of the case, not a crash of the check.
func (c *checker) run(newList bool) (v *violation) {
	defer func() {
		if r := recover(); r != nil {
			c.ret = nil
			c.prevRet = nil
			v = c.bad("panic", "panic while fitting / comparing: %v", r)
		}
	}()
	return c.run1(newList)
}

func (c *checker) run1(newList bool) *violation {
	c.n, c.k = c.reg.n, len(c.rules)
	c.ret = nil
	c.cnt.Cases++
	if newList {
		c.prevRet = nil
	}
	// reference eligibility
	choice := false
	for i := 0; i < c.n; i++ {
		c.elig[i], c.strict[i] = 0, 0
		ne := 0
		for r, ru := range c.rules {
			if ru.match[c.li]&(1<<uint(c.reg.store[i])) != 0 && refLoose(ru.spec.role, c.reg.learner[i]) {
				c.elig[i] |= 1 << uint(r)
				ne++
			}
			if refStrict(ru.spec.role, c.reg.learner[i], c.reg.leader == i) {
				c.strict[i] |= 1 << uint(r)
			}
		}
		if ne >= 2 {
			choice = true
		}
	}
	for r, ru := range c.rules {
		ne := 0
		for i := 0; i < c.n; i++ {
			if c.elig[i]&(1<<uint(r)) != 0 {
				ne++
			}
		}
		if ne > ru.spec.count {
			choice = true
		}
	}
	if choice {
		c.cnt.Nontrivial++
	}

	// the real thing
	realRules := make([]*placement.Rule, c.k)
	for i, r := range c.rules {
		realRules[i] = r.real
	}
	fit := placement.FitRegion(c.lay.set, c.reg.real, realRules)
	c.cnt.FitCalls++
	c.ret = fit
	if fit == nil {
		return c.bad("fit-nil", "FitRegion returned nil")
	}

	// ---- validity of the returned fit ----
	if len(fit.RuleFits) != c.k {
		return c.bad("rulefits-len", "%d rule fits for %d rules", len(fit.RuleFits), c.k)
	}
	for i := 0; i < c.n; i++ {
		c.retAsg[i] = -2
	}
	place := func(p *metapb.Peer, where int8, what string) *violation {
		ix := c.peerIndex(p)
		if ix < 0 {
			return c.bad("foreign-peer", "%s contains peer %v which is not a peer of the region", what, p)
		}
		if c.retAsg[ix] != -2 {
			return c.bad("peer-twice", "peer %d appears more than once in the fit (again in %s)", p.GetId(), what)
		}
		c.retAsg[ix] = where
		return nil
	}
	for r, rf := range fit.RuleFits {
		if rf == nil {
			return c.bad("rulefit-nil", "rule fit %d is nil", r)
		}
		if rf.Rule != realRules[r] {
			return c.bad("rulefit-rule", "rule fit %d belongs to rule %v, want %v", r, rf.Rule, realRules[r])
		}
		for _, p := range rf.Peers {
			if v := place(p, int8(r), fmt.Sprintf("rule fit %d", r)); v != nil {
				return v
			}
		}
		if len(rf.Peers) > c.rules[r].spec.count {
			return c.bad("over-count", "rule %d (%s) got %d peers, count is %d", r, c.rules[r].spec, len(rf.Peers), c.rules[r].spec.count)
		}
	}
	for _, p := range fit.OrphanPeers {
		if v := place(p, -1, "the orphan list"); v != nil {
			return v
		}
	}
	for i := 0; i < c.n; i++ {
		r := c.retAsg[i]
		if r == -2 {
			return c.bad("peer-lost", "peer %d is neither in a rule nor in the orphan list", c.reg.peers[i].Id)
		}
		if r < 0 {
			continue
		}
		ru := c.rules[r]
		if ru.match[c.li]&(1<<uint(c.reg.store[i])) == 0 {
			return c.bad("constraint-violated", "peer %d on %s was put into rule %d (%s) whose label constraints the store does not satisfy", c.reg.peers[i].Id, c.lay.spec.stores[c.reg.store[i]], r, ru.spec)
		}
		if !refLoose(ru.spec.role, c.reg.learner[i]) {
			return c.bad("role-not-convertible", "non-learner peer %d was put into learner rule %d (%s)", c.reg.peers[i].Id, r, ru.spec)
		}
	}
	c.keyOf(&c.retAsg, &c.retKey)
	allFilled := true
	for r, rf := range fit.RuleFits {
		// mismatch list exact
		var seen [maxPeers]bool
		for _, p := range rf.PeersWithDifferentRole {
			ix := c.peerIndex(p)
			if ix < 0 || c.retAsg[ix] != int8(r) {
				return c.bad("mismatch-list", "PeersWithDifferentRole of rule %d lists peer %v which is not a peer of this rule fit", r, p)
			}
			if seen[ix] {
				return c.bad("mismatch-list", "PeersWithDifferentRole of rule %d lists peer %d twice", r, p.GetId())
			}
			seen[ix] = true
			if c.strict[ix]&(1<<uint(r)) != 0 {
				return c.bad("mismatch-list", "PeersWithDifferentRole of rule %d (%s) lists peer %d whose role matches the rule", r, c.rules[r].spec, p.GetId())
			}
		}
		if len(rf.PeersWithDifferentRole) != c.retKey.mis[r] {
			return c.bad("mismatch-list", "PeersWithDifferentRole of rule %d (%s) has %d entries, %d peers of the rule fit have a different role", r, c.rules[r].spec, len(rf.PeersWithDifferentRole), c.retKey.mis[r])
		}
		if rf.IsolationScore != c.retKey.score[r] {
			return c.bad("isolation-score", "IsolationScore of rule %d (%s) is %v, reference says %v", r, c.rules[r].spec, rf.IsolationScore, c.retKey.score[r])
		}
		want := c.retKey.n[r] == c.rules[r].spec.count && c.retKey.mis[r] == 0
		if rf.IsSatisfied() != want {
			return c.bad("rulefit-satisfied", "RuleFit.IsSatisfied of rule %d (%s) = %v, want %v", r, c.rules[r].spec, rf.IsSatisfied(), want)
		}
		allFilled = allFilled && want
	}
	wantSat := allFilled && c.retKey.orphans == 0
	if fit.IsSatisfied() != wantSat {
		return c.bad("satisfied", "RegionFit.IsSatisfied = %v, want %v (every rule filled with matching roles: %v, orphans: %d)", fit.IsSatisfied(), wantSat, allFilled, c.retKey.orphans)
	}
	if wantSat {
		c.cnt.Satisfied++
	}

	// ---- optimality: every valid assignment ----
	c.nAsg = 0
	c.hasPrev = false
	c.viol = nil
	for r := range c.used {
		c.used[r] = 0
	}
	first := true
	c.enumerate(0, &first)
	c.cnt.Assignments += c.nAsg
	if c.nAsg > c.cnt.MaxAssign {
		c.cnt.MaxAssign = c.nAsg
	}
	if c.viol != nil {
		return c.viol
	}
	if cmpKey(&c.retKey, &c.best) != 0 {
		return c.bad("not-optimal", "the returned fit is not the best one: it has %s but assignment {%s} has %s", describeKey(&c.retKey), c.describeAsg(&c.bestAsg), describeKey(&c.best))
	}

	// ---- CompareRegionFit across regions of the same rule list (orphans, different peer sets) ----
	if c.prevRet != nil {
		want := cmpKey(&c.retKey, &c.prevKey)
		c.cnt.CmpCalls += 2
		if got := placement.CompareRegionFit(fit, c.prevRet); got != want {
			return c.bad("compare-across-regions", "CompareRegionFit(fit of this region, fit of region %s = %s) = %d, the documented order says %d", c.prevReg.describe(c.lay), describeFit(c.prevRet), got, want)
		}
		if got := placement.CompareRegionFit(c.prevRet, fit); got != -want {
			return c.bad("compare-across-regions", "CompareRegionFit(fit of region %s = %s, fit of this region) = %d, the documented order says %d", c.prevReg.describe(c.lay), describeFit(c.prevRet), got, -want)
		}
	}
	c.prevRet, c.prevKey, c.prevReg = fit, c.retKey, c.reg
	return nil
}

// enumerate generates every valid assignment: each peer goes to one rule it is
// eligible for (while the rule has room) or to the orphan list.
func (c *checker) enumerate(i int, first *bool) {
	if c.viol != nil {
		return
	}
	if i == c.n {
		c.leaf(first)
		return
	}
	for r := 0; r < c.k; r++ {
		if c.elig[i]&(1<<uint(r)) != 0 && c.used[r] < c.rules[r].spec.count {
			c.used[r]++
			c.cur[i] = int8(r)
			c.enumerate(i+1, first)
			c.used[r]--
		}
	}
	c.cur[i] = -1
	c.enumerate(i+1, first)
}

func (c *checker) leaf(first *bool) {
	c.nAsg++
	s := &c.scratch[c.which]
	c.fill(s, &c.cur)
	if *first || cmpKey(&s.key, &c.best) > 0 {
		c.best = s.key
		c.bestAsg = c.cur
		*first = false
	}
	want := cmpKey(&c.retKey, &s.key)
	if want < 0 {
		// keep going: the final report names the best assignment
		return
	}
	c.cnt.CmpCalls += 2
	if got := placement.CompareRegionFit(c.ret, &s.fit); got != want {
		c.viol = c.bad("compare-region-fit", "CompareRegionFit(returned fit, {%s} = %s) = %d, the documented order says %d", c.describeAsg(&c.cur), describeFit(&s.fit), got, want)
		return
	}
	if got := placement.CompareRegionFit(&s.fit, c.ret); got != -want {
		c.viol = c.bad("compare-region-fit", "CompareRegionFit({%s} = %s, returned fit) = %d, the documented order says %d", c.describeAsg(&c.cur), describeFit(&s.fit), got, -want)
		return
	}
	if c.hasPrev {
		p := &c.scratch[1-c.which]
		w := cmpKey(&s.key, &p.key)
		c.cnt.CmpCalls++
		if got := placement.CompareRegionFit(&s.fit, &p.fit); got != w {
			c.viol = c.bad("compare-region-fit", "CompareRegionFit(%s, %s) = %d, the documented order says %d", describeFit(&s.fit), describeFit(&p.fit), got, w)
			return
		}
	}
	c.hasPrev = true
	c.which = 1 - c.which
}
