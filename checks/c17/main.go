// Check C17: persisted stores and regions are loaded back completely and pruned consistently.
//
// Real core.Storage on the memory kv, on the real etcd kv (etcdKVBase over the fake
// etcd) and on a real RegionStorage (LevelDB in a scratch directory). A kv.Base
// wrapper refuses LoadRange page sizes / answer sizes, fails single calls and logs
// removals. Reference: per id "required (saved, not deleted, acknowledged) / acceptable
// versions" written from the statement; every full load is judged against it.
//
//	stores, regions  : bounded exhaustive input enumeration (engine C)
//	histories        : all save/delete/flush/close/crash sequences (engine B)
//	crash            : the process stops after every single save of N regions
//	prune            : all ordered tuples of stale / overlapping leftovers
package main

import (
	"fmt"
	"os"
	"runtime"
	"runtime/debug"
	"runtime/pprof"

	"verif/engine/hist"
)

func main() {
	sweepStale()
	defer cleanupScratch()
	for _, a := range os.Args {
		if a == "-worker" || a == "--worker" {
			// 16 single-threaded workers: keep the garbage collectors from fighting for the cores
			runtime.GOMAXPROCS(2)
			debug.SetGCPercent(400)
		}
	}
	if p := os.Getenv("VERIF_C17_PROF"); p != "" { // developer aid: CPU profile per process
		if f, err := os.Create(fmt.Sprintf("%s.%d", p, os.Getpid())); err == nil {
			pprof.StartCPUProfile(f)
			defer pprof.StopCPUProfile()
		}
	}
	top := maxID - 1
	pts4 := []string{"", "a", "b", "c", ""}      // 4 elementary intervals, 10 ranges
	pts5 := []string{"", "a", "b", "c", "d", ""} // 5 elementary intervals, 15 ranges
	one := func(name, tiers string, f func() hist.Model) *hist.Scope {
		return &hist.Scope{Name: name, Tiers: tiers, Depth: 1, NoDedup: true, NewModel: f}
	}
	scopes := []*hist.Scope{
		one("stores", "quick", func() hist.Model { return &bulkModel{inputs: storeInputs("quick")} }),
		one("regions", "quick", func() hist.Model { return &bulkModel{inputs: regionInputs("quick")} }),
		{Name: "hist-mem", Tiers: "quick", Depth: 4, NewModel: func() hist.Model { return newHistModel("mem", []uint64{1, 2, top}, 2, 0) }},
		{Name: "hist-etcd", Tiers: "quick", Depth: 3, NewModel: func() hist.Model { return newHistModel("etcd", []uint64{1, 2, top}, 2, 0) }},
		{Name: "hist-rs", Tiers: "quick", Depth: 4, NewModel: func() hist.Model { return newHistModel("rs", []uint64{1, 2, top}, 2, 0) }},
		{Name: "hist-rs-batch97", Tiers: "quick", Depth: 4, NewModel: func() hist.Model { return newHistModel("rs", []uint64{1, 2}, 1, 97) }},
		one("crash", "quick", func() hist.Model { return &crashModel{inputs: crashInputs("quick")} }),
		one("prune-mem", "quick", func() hist.Model { return newPruneModel("mem", pts4, 2, 4, 0, 300) }),
		one("prune-mem-nolimit", "quick", func() hist.Model { return newPruneModel("mem", pts4, 2, 3, 0, 0) }),
		one("prune-rs", "quick", func() hist.Model { return newPruneModel("rs", pts4, 2, 3, 0, 0) }),
		one("prune-etcd", "quick", func() hist.Model { return newPruneModel("etcd", pts4, 2, 3, 0, 0) }),
		one("prune-mem-paged", "quick", func() hist.Model { return newPruneModel("mem", pts4, 2, 3, 154, 300) }),

		one("stores+", "thorough", func() hist.Model { return &bulkModel{inputs: storeInputs("thorough")} }),
		one("regions+", "thorough", func() hist.Model { return &bulkModel{inputs: regionInputs("thorough")} }),
		{Name: "hist-mem+", Tiers: "thorough", Depth: 6, NewModel: func() hist.Model { return newHistModel("mem", []uint64{1, 2, top}, 2, 0) }},
		{Name: "hist-etcd+", Tiers: "thorough", Depth: 5, NewModel: func() hist.Model { return newHistModel("etcd", []uint64{1, 2, top}, 2, 0) }},
		{Name: "hist-rs+", Tiers: "thorough", Depth: 6, NewModel: func() hist.Model { return newHistModel("rs", []uint64{1, 2, top}, 2, 0) }},
		{Name: "hist-rs-batch97+", Tiers: "thorough", Depth: 6, NewModel: func() hist.Model { return newHistModel("rs", []uint64{1, 2}, 2, 97) }},
		one("crash+", "thorough", func() hist.Model { return &crashModel{inputs: crashInputs("thorough")} }),
		one("prune-mem+", "thorough", func() hist.Model { return newPruneModel("mem", pts5, 3, 4, 0, 300) }),
		one("prune-mem-5+", "thorough", func() hist.Model { return newPruneModel("mem", pts4, 2, 5, 0, 300) }),
		one("prune-mem-nolimit+", "thorough", func() hist.Model { return newPruneModel("mem", pts4, 2, 4, 0, 0) }),
		one("prune-rs+", "thorough", func() hist.Model { return newPruneModel("rs", pts5, 2, 4, 0, 0) }),
		one("prune-etcd+", "thorough", func() hist.Model { return newPruneModel("etcd", pts4, 2, 4, 0, 0) }),
		one("prune-mem-paged+", "thorough", func() hist.Model { return newPruneModel("mem", pts5, 2, 3, 154, 300) }),
		one("prune-rs-paged+", "thorough", func() hist.Model { return newPruneModel("rs", pts4, 2, 3, 154, 0) }),
	}
	for i, a := range os.Args {
		if (a == "-replay" || a == "--replay") && i+1 < len(os.Args) {
			// handled here so that the scratch directory is removed before exiting
			code := hist.ReplayFile("C17", scopes, os.Args[i+1])
			cleanupScratch()
			os.Exit(code)
		}
	}
	hist.Main(&hist.Config{
		Property: "C17",
		Scopes:   scopes,
		Rule: "bounded exhaustive enumeration on the real core.Storage: (stores/regions) every combination of back-end x set size around every page boundary x id distribution " +
			"(dense from 0/1, sparse, spread over the whole range, the n largest ids below MaxUint64, the n largest ids incl. MaxUint64) x save/delete/overwrite variant x weights pattern x page limit / answer-size limit x LoadRegions/LoadRegionsOnce x a failing LoadRange at every position; " +
			"(hist-*) breadth-first over all SaveRegion/DeleteRegion/Flush/Close+reopen/crash+reopen sequences, states deduplicated, a full load judged after every operation; " +
			"(crash) the process stops after every single save of N regions, for every N x position of an explicit Flush; " +
			"(prune-*) every ordered tuple of <=K leftovers (range over the key points x version) with ids in tuple order, loaded with BasicCluster.CheckAndPutRegion, then loaded twice more",
		Assumptions: []string{
			"reference written from the statement: an id is required when it was saved, not deleted afterwards, and the save was acknowledged (kv back-end: SaveRegion/SaveStore returned; region storage: a later Flush/Close returned); a required id must be returned exactly once with an acknowledged-or-later version and the saved content; deleted or unacknowledged ids may or may not come back (at most once, with a version that was saved); never-saved ids must not appear",
			"a load may return an error instead of a result only when a LoadRange failure was injected (stores) or when a page size below 2*minKVRangeLimit=200 was still refused (regions); an error is never counted as a complete load",
			"a process stop is modelled as: background flusher stopped, LevelDB files closed without flushing the RegionStorage batch, a new RegionStorage opened on the same directory (no power loss: what LevelDB was given is on disk)",
			"etcd back-end = the real etcdKVBase over the in-memory fake etcd (conformance-checked against embedded etcd)",
			"pruning reference: regions arrive in id order; one that is older (epoch version) than a cached region it overlaps is dropped, otherwise it replaces what it overlaps; pruning loads run with an empty RegionStorage batch (after Flush)",
		},
	})
}
