package main

import (
	"fmt"
	"sort"

	"github.com/tikv/pd/server/core"
	"verif/engine/hist"
)

// bulkIn is one input of the bounded exhaustive enumeration of "save a set, load it back".
type bulkIn struct {
	kind     string // "store" | "region"
	backend  string // "mem" | "etcd" | "rs"
	n        int
	ids      string // dense1 dense0 sparse wide top topmax
	variant  string // plain | del | over
	weights  string // none | all | alt   (stores)
	L        int    // LoadRange limits above L are refused (0: none)
	pad      int    // region key size
	maxBytes int    // LoadRange answers above maxBytes are refused (0: none)
	once     bool   // LoadRegionsOnce instead of LoadRegions
	failAt   int    // the failAt-th LoadRange of the load fails once
	damage   int    // region storage + LoadRegionsOnce: the damage-th record (1-based, id order) is unreadable at the first load and repaired before the second
}

func (in bulkIn) String() string {
	s := fmt.Sprintf("%s/%s n=%d ids=%s %s", in.kind, in.backend, in.n, in.ids, in.variant)
	if in.kind == "store" {
		s += " weights=" + in.weights
	} else {
		if in.L > 0 {
			s += fmt.Sprintf(" L=%d", in.L)
		}
		if in.pad > 0 {
			s += fmt.Sprintf(" keysize=%d maxbytes=%d", in.pad, in.maxBytes)
		}
		if in.once {
			s += " LoadRegionsOnce"
		}
	}
	if in.failAt > 0 {
		s += fmt.Sprintf(" LoadRange#%d-fails", in.failAt)
	}
	if in.damage > 0 {
		s += fmt.Sprintf(" record#%d-unreadable-then-repaired", in.damage)
	}
	return s
}

func idOf(dist string, i, n int) uint64 {
	switch dist {
	case "dense1":
		return uint64(i) + 1
	case "dense0":
		return uint64(i)
	case "sparse":
		return uint64(i)*1000003 + 7
	case "wide": // spread over the whole uint64 range, largest id below MaxUint64
		return (uint64(i) + 1) * (maxID / (uint64(n) + 1))
	case "top": // MaxUint64-n .. MaxUint64-1
		return maxID - uint64(n) + uint64(i)
	case "topmax": // MaxUint64-n+1 .. MaxUint64
		return maxID - uint64(n) + 1 + uint64(i)
	}
	panic("ids " + dist)
}

func weightsOf(pattern string, idx int) (has bool, leader, region float64) {
	switch pattern {
	case "all":
		has = true
	case "alt":
		has = idx%2 == 0
	case "digits": // more significant digits than a float32 holds
		return true, 0.123456789 + float64(idx%3), 1.0/3 + float64(idx%2)*16777217
	case "reset": // saved twice: first 2.5 / 0.5, then back to the default 1 for one or both weights
		switch idx % 3 {
		case 0:
			return true, 1, 1
		case 1:
			return true, 1, 0.75
		}
		return true, 1.5, 1
	}
	if !has {
		return false, 1, 1
	}
	return true, 0.5 + float64(idx%4), 0.25 * float64(idx%8)
}

type bulkModel struct {
	inputs []bulkIn
}

func (m *bulkModel) Reset()              {}
func (m *bulkModel) Key() string         { return "" }
func (m *bulkModel) NumOps() int         { return len(m.inputs) }
func (m *bulkModel) Enabled(int) bool    { return true }
func (m *bulkModel) OpName(i int) string { return m.inputs[i].String() }

func (m *bulkModel) Apply(i int) *hist.Violation {
	in := m.inputs[i]
	w := newWorld(in.backend)
	defer w.destroy()
	if in.kind == "store" {
		return runStores(w, in)
	}
	return runRegions(w, in)
}

func infra(ctx string, err error) *hist.Violation {
	return &hist.Violation{Key: "write-error", Msg: fmt.Sprintf("%s: unexpected error of a save/delete/flush on a healthy back-end: %v", ctx, err)}
}

func runStores(w *world, in bulkIn) *hist.Violation {
	ctx := in.String()
	ref := map[uint64]*want{}
	save := func(idx, ver int) error {
		id := idOf(in.ids, idx, in.n)
		if err := w.st.SaveStore(mkStore(idx, id, ver)); err != nil {
			return err
		}
		e := ref[id]
		if e == nil {
			e = &want{idx: idx}
			ref[id] = e
		}
		e.required, e.acc = true, 1<<uint(ver)
		e.ever |= 1 << uint(ver)
		return nil
	}
	for idx := 0; idx < in.n; idx++ {
		if err := save(idx, 1); err != nil {
			return infra(ctx, err)
		}
		if in.weights == "reset" {
			if err := w.st.SaveStoreWeight(idOf(in.ids, idx, in.n), 2.5, 0.5); err != nil {
				return infra(ctx, err)
			}
		}
		if has, l, r := weightsOf(in.weights, idx); has {
			if err := w.st.SaveStoreWeight(idOf(in.ids, idx, in.n), l, r); err != nil {
				return infra(ctx, err)
			}
		}
	}
	switch in.variant {
	case "del":
		for idx := 0; idx < in.n; idx++ {
			if idx%3 == 1 {
				id := idOf(in.ids, idx, in.n)
				if err := w.st.DeleteStore(mkStore(idx, id, 1)); err != nil {
					return infra(ctx, err)
				}
				ref[id].required = false
			}
		}
		for idx := 0; idx < in.n; idx++ {
			if idx%6 == 1 {
				if err := save(idx, 2); err != nil {
					return infra(ctx, err)
				}
			}
		}
	case "over":
		for idx := 0; idx < in.n; idx += 2 {
			if err := save(idx, 2); err != nil {
				return infra(ctx, err)
			}
		}
	}
	if err := w.st.Flush(); err != nil {
		return infra(ctx, err)
	}
	w.seam.failAt, w.seam.calls, w.seam.maxCalls = in.failAt, 0, in.n/50+64
	var items []got
	var wbad string
	err, aborted := w.loadStores(3*in.n+100, func(s *core.StoreInfo) {
		ver := 0
		fmt.Sscanf(s.GetMeta().GetVersion(), "5.0.%d", &ver)
		items = append(items, got{id: s.GetID(), ver: ver, enc: encStore(s.GetMeta())})
		if e := ref[s.GetID()]; e != nil && wbad == "" {
			_, l, r := weightsOf(in.weights, e.idx)
			if s.GetLeaderWeight() != l || s.GetRegionWeight() != r {
				wbad = fmt.Sprintf("store %d loaded with leader/region weight %v/%v, saved %v/%v", s.GetID(), s.GetLeaderWeight(), s.GetRegionWeight(), l, r)
			}
		}
	})
	enc := func(idx int, id uint64, ver int) string { return encStore(mkStore(idx, id, ver)) }
	if aborted {
		return &hist.Violation{Key: "store-load-does-not-terminate", Msg: fmt.Sprintf("%s: LoadStores was cut after %d callbacks / %d LoadRange calls for %d stores", ctx, len(items), w.seam.calls, in.n)}
	}
	if err != nil {
		if in.failAt > 0 && w.seam.calls >= in.failAt {
			// the failure was reported: fine; what was delivered before must still be sane
			for _, e := range ref {
				e.required = false
			}
			return judge("store", ref, items, enc, ctx+" (load returned the injected error)")
		}
		return &hist.Violation{Key: "store-load-error", Msg: fmt.Sprintf("%s: LoadStores failed on a healthy back-end: %v", ctx, err)}
	}
	if v := judge("store", ref, items, enc, ctx); v != nil {
		return v
	}
	if wbad != "" {
		return &hist.Violation{Key: "store-weight", Msg: ctx + ": " + wbad}
	}
	return nil
}

func runRegions(w *world, in bulkIn) *hist.Violation {
	ctx := in.String()
	ref := map[uint64]*want{}
	acked := in.backend != "rs"
	var pending []uint64
	save := func(idx, ver int) error {
		id := idOf(in.ids, idx, in.n)
		if err := w.st.SaveRegion(mkRegion(idx, id, ver, in.pad)); err != nil {
			return err
		}
		e := ref[id]
		if e == nil {
			e = &want{idx: idx}
			ref[id] = e
		}
		e.ever |= 1 << uint(ver)
		if acked {
			e.required, e.acc = true, 1<<uint(ver)
		} else {
			if e.required {
				e.acc |= 1 << uint(ver)
			}
			pending = append(pending, id)
			e.idx = idx
			e.pendingVer = ver
		}
		return nil
	}
	del := func(idx int) error {
		id := idOf(in.ids, idx, in.n)
		if err := w.st.DeleteRegion(mkRegion(idx, id, 1, in.pad)); err != nil {
			return err
		}
		ref[id].required = false
		ref[id].pendingVer = 0
		return nil
	}
	ack := func() {
		for _, id := range pending {
			if e := ref[id]; e.pendingVer > 0 {
				e.required, e.acc = true, 1<<uint(e.pendingVer)
				e.pendingVer = 0
			}
		}
		pending = pending[:0]
	}
	for idx := 0; idx < in.n; idx++ {
		if err := save(idx, 1); err != nil {
			return infra(ctx, err)
		}
	}
	switch in.variant {
	case "del":
		for idx := 0; idx < in.n; idx++ {
			if idx%3 == 1 {
				if err := del(idx); err != nil {
					return infra(ctx, err)
				}
			}
		}
		for idx := 0; idx < in.n; idx++ {
			if idx%6 == 1 {
				if err := save(idx, 2); err != nil {
					return infra(ctx, err)
				}
			}
		}
		if err := w.st.Flush(); err != nil {
			return infra(ctx, err)
		}
		ack()
	case "over":
		// first generation acknowledged by Flush, second by Close (new RegionStorage on the directory)
		if err := w.st.Flush(); err != nil {
			return infra(ctx, err)
		}
		ack()
		for idx := 0; idx < in.n; idx += 2 {
			if err := save(idx, 2); err != nil {
				return infra(ctx, err)
			}
		}
		if err := w.closeReopen(); err != nil {
			return infra(ctx, err)
		}
		ack()
	case "shutdown":
		if err := w.shutdownReopen(); err != nil {
			return infra(ctx, err)
		}
		ack()
	case "switch":
		// the configuration is reloaded while regions wait in the region storage's batch:
		// default storage selected, Flush (must still make them durable), region storage again
		w.st.SwitchToDefaultStorage()
		if err := w.st.Flush(); err != nil {
			return infra(ctx, err)
		}
		w.st.SwitchToRegionStorage()
		ack()
	default:
		if err := w.st.Flush(); err != nil {
			return infra(ctx, err)
		}
		ack()
	}
	w.seam.maxLimit, w.seam.maxBytes, w.seam.failAt = in.L, in.maxBytes, in.failAt
	w.seam.calls, w.seam.maxCalls = 0, in.n/50+64
	if in.backend == "rs" {
		// the region storage is not behind the seam: nothing to refuse there
		w.seam.maxLimit, w.seam.maxBytes = 0, 0
	}
	if in.damage > 0 && in.backend == "rs" && in.once {
		// one record cannot be decoded: the load must fail; after the record has been
		// repaired a load that reports success must deliver every region
		ks, vs, rerr := w.raw.LoadRange("raft/r/", "raft/r0", 0)
		if rerr != nil || len(ks) < in.damage {
			return infra(ctx, fmt.Errorf("cannot read the region records: %v (%d records)", rerr, len(ks)))
		}
		k, v := ks[in.damage-1], vs[in.damage-1]
		if err := w.rs.Save(k, "\xff\xfe not a region"); err != nil {
			return infra(ctx, err)
		}
		n1 := 0
		err1, _ := w.loadRegions(true, 3*in.n+100, func(r *core.RegionInfo) []*core.RegionInfo { n1++; return nil })
		if err := w.rs.Save(k, v); err != nil {
			return infra(ctx, err)
		}
		if err1 == nil {
			// the loader chose to skip the record and call that a success: nothing more can be asked of a retry
			return nil
		}
	}
	var items []got
	err, aborted := w.loadRegions(in.once, 3*in.n+100, func(r *core.RegionInfo) []*core.RegionInfo {
		items = append(items, got{id: r.GetID(), ver: int(r.GetRegionEpoch().GetVersion()), enc: encRegion(r.GetMeta())})
		return nil
	})
	enc := func(idx int, id uint64, ver int) string { return encRegion(mkRegion(idx, id, ver, in.pad)) }
	if aborted {
		return &hist.Violation{Key: "region-load-does-not-terminate", Msg: fmt.Sprintf("%s: the load was cut after %d callbacks / %d LoadRange calls for %d regions", ctx, len(items), w.seam.calls, in.n)}
	}
	if err != nil {
		// Giving up is legitimate only when a page size below 2*minKVRangeLimit(=200) was
		// still refused (halving cannot go further without dropping under the minimum).
		if w.seam.minRefused > 0 && w.seam.minRefused < 200 {
			for _, e := range ref {
				e.required = false
			}
			return judge("region", ref, items, enc, ctx+fmt.Sprintf(" (load gave up: page size %d refused)", w.seam.minRefused))
		}
		return &hist.Violation{Key: "region-load-gave-up-early", Msg: fmt.Sprintf("%s: the load returned %v although the smallest refused page size was %d (refusals %d)", ctx, err, w.seam.minRefused, w.seam.refusals)}
	}
	if v := judge("region", ref, items, enc, ctx); v != nil {
		return v
	}
	// a load with a callback that reports nothing must not change the storage
	raw, rerr := w.rawRegions()
	if rerr != nil {
		return &hist.Violation{Key: "storage-unreadable", Msg: ctx + ": " + rerr.Error()}
	}
	for id, e := range ref {
		if e.required && raw[id] == nil {
			return &hist.Violation{Key: "region-lost-by-load", Msg: fmt.Sprintf("%s: region %d is no longer in the storage after a load whose callback reported nothing", ctx, id)}
		}
	}
	if in.once && in.backend == "rs" {
		// LoadRegionsOnce: a second call on the region storage must not deliver anything again
		n := 0
		if err, _ := w.loadRegions(true, 10, func(r *core.RegionInfo) []*core.RegionInfo { n++; return nil }); err != nil || n != 0 {
			return &hist.Violation{Key: "load-once-twice", Msg: fmt.Sprintf("%s: second LoadRegionsOnce delivered %d regions, err=%v", ctx, n, err)}
		}
	}
	return nil
}

// ---------------------------------------------------------------------------
// input sets

var baseSizes = []int{0, 1, 99, 100, 101, 199, 200, 201, 250}
var idDists = []string{"dense1", "dense0", "sparse", "wide", "top", "topmax"}

func uniqSorted(l []int) []int {
	sort.Ints(l)
	var o []int
	for i, x := range l {
		if x >= 0 && (i == 0 || x != l[i-1]) {
			o = append(o, x)
		}
	}
	return o
}

func around(p int) []int { return []int{p - 1, p, p + 1, 2*p - 1, 2 * p, 2*p + 1, 2*p + p/2} }

func storeInputs(tier string) []bulkIn {
	sizes := append([]int{}, baseSizes...)
	if tier == "thorough" {
		sizes = append(sizes, 2, 50, 98, 102, 198, 202, 299, 300, 301, 399, 400, 401, 500, 1000, 1001)
	}
	var l []bulkIn
	for _, be := range []string{"mem", "etcd"} {
		for _, n := range uniqSorted(sizes) {
			for _, ids := range idDists {
				if n == 0 && ids != "dense1" {
					continue
				}
				for _, wt := range []string{"none", "all", "alt", "reset", "digits"} {
					for _, v := range []string{"plain", "del", "over"} {
						l = append(l, bulkIn{kind: "store", backend: be, n: n, ids: ids, weights: wt, variant: v})
					}
				}
			}
		}
		// one LoadRange of the load fails: the error must surface (or the load be complete)
		for _, n := range []int{101, 250} {
			for k := 1; k <= n/100+2; k++ {
				for _, ids := range []string{"dense1", "top"} {
					l = append(l, bulkIn{kind: "store", backend: be, n: n, ids: ids, weights: "alt", variant: "plain", failAt: k})
				}
			}
		}
	}
	sort.SliceStable(l, func(i, j int) bool { return l[i].n > l[j].n })
	return l
}

type regionCfg struct {
	backend  string
	L        int
	pad      int
	maxBytes int
	page     int   // page size the halving ends at (0: the load gives up)
	sizes    []int // extra sizes
}

func regionInputs(tier string) []bulkIn {
	thorough := tier == "thorough"
	cfgs := []regionCfg{
		{backend: "mem", page: 10000},
		{backend: "mem", L: 5000, page: 5000},
		{backend: "mem", L: 300, page: 156},
		{backend: "mem", L: 200, page: 156},
		{backend: "mem", L: 156, page: 156},
		{backend: "mem", L: 155},
		{backend: "mem", L: 100},
		{backend: "mem", L: 99},
		{backend: "etcd", page: 10000},
		{backend: "rs", page: 10000},
		// 1 KiB keys: an answer of more than ~490 regions exceeds 1 MiB: 10000 -> ... -> 312
		{backend: "mem", pad: 1024, maxBytes: 1 << 20, sizes: []int{311, 312, 313, 450, 470, 480, 490, 500, 510, 520, 623, 624, 625, 626, 780, 936, 937, 938, 1100}},
		// 150 KiB: even 156 regions are too many: the load must give up loudly once there are more than ~70
		{backend: "mem", pad: 1024, maxBytes: 150 << 10, sizes: []int{10, 60, 69, 70, 71, 72, 80, 156, 157}},
	}
	if thorough {
		cfgs = append(cfgs,
			regionCfg{backend: "mem", L: 2500, page: 2500},
			regionCfg{backend: "mem", L: 1250, page: 1250},
			regionCfg{backend: "mem", L: 625, page: 625},
			regionCfg{backend: "mem", L: 312, page: 312},
			regionCfg{backend: "mem", L: 9999, page: 5000},
			regionCfg{backend: "mem", L: 10000, page: 10000},
			regionCfg{backend: "etcd", L: 300, page: 156},
			regionCfg{backend: "etcd", L: 5000, page: 5000},
			regionCfg{backend: "mem", pad: 4096, maxBytes: 4 << 20, sizes: []int{311, 312, 313, 400, 480, 500, 520, 624, 625, 626, 937}},
		)
	}
	var l []bulkIn
	for _, c := range cfgs {
		sizes := append(append([]int{}, baseSizes...), c.sizes...)
		if c.page > 0 {
			sizes = append(sizes, around(c.page)...)
			if thorough {
				sizes = append(sizes, 3*c.page-1, 3*c.page, 3*c.page+1)
			}
		}
		for _, n := range uniqSorted(sizes) {
			big := n >= 2000
			for _, ids := range idDists {
				if n == 0 && ids != "dense1" {
					continue
				}
				for _, v := range []string{"plain", "del", "over"} {
					for _, once := range []bool{false, true} {
						if big && !thorough {
							// quick tier: the large sets in two of the six variant combinations
							if !((v == "plain" && !once) || (v == "del" && once)) {
								continue
							}
							if c.backend == "etcd" && v != "plain" {
								continue
							}
						}
						if c.pad >= 4096 && (v != "plain" || once) {
							continue
						}
						l = append(l, bulkIn{kind: "region", backend: c.backend, n: n, ids: ids, variant: v, L: c.L, pad: c.pad, maxBytes: c.maxBytes, once: once})
					}
				}
			}
		}
	}
	// one LoadRange fails once: the loader halves the page and goes on, the result must still be complete
	for _, c := range []struct{ L, n int }{{0, 250}, {300, 400}, {5000, 5001}} {
		calls := 12
		for k := 1; k <= calls; k++ {
			for _, ids := range []string{"dense1", "top"} {
				l = append(l, bulkIn{kind: "region", backend: "mem", n: c.n, ids: ids, variant: "plain", L: c.L, failAt: k})
			}
		}
	}
	// region storage: acknowledged by Close after the server context has been cancelled (shutdown order)
	for _, n := range []int{1, 7, 99, 100, 101, 250} {
		l = append(l, bulkIn{kind: "region", backend: "rs", n: n, ids: "dense1", variant: "shutdown"})
	}
	// region storage: the backend selection changes between the saves and the Flush
	for _, n := range []int{1, 7, 99, 100, 101, 250} {
		for _, once := range []bool{false, true} {
			l = append(l, bulkIn{kind: "region", backend: "rs", n: n, ids: "dense1", variant: "switch", once: once})
		}
	}
	// region storage: an unreadable record at the first LoadRegionsOnce, repaired before the retry
	for _, n := range []int{1, 2, 100, 101, 250} {
		for _, d := range uniqSorted([]int{1, n/2 + 1, n}) {
			if d >= 1 && d <= n {
				l = append(l, bulkIn{kind: "region", backend: "rs", n: n, ids: "dense1", variant: "plain", once: true, damage: d})
			}
		}
	}
	sort.SliceStable(l, func(i, j int) bool { return l[i].n*(1+l[i].pad/64) > l[j].n*(1+l[j].pad/64) })
	return l
}
