package main

import (
	"context"
	"errors"
	"fmt"
	"math"
	"os"
	"path/filepath"
	"sort"
	"strconv"
	"strings"

	"github.com/pingcap/kvproto/pkg/metapb"
	"github.com/tikv/pd/server/core"
	"github.com/tikv/pd/server/kv"
	"verif/engine/fakeetcd"
	"verif/engine/hist"
)

const maxID = uint64(math.MaxUint64)

var errRefused = errors.New("seamkv: LoadRange refused (limit / message size)")
var errInjected = errors.New("seamkv: injected LoadRange failure")

// seamKV wraps the kv.Base of a core.Storage: it refuses LoadRange requests whose
// limit is above maxLimit (or unbounded) or whose answer would be larger than
// maxBytes (the grpc message limit the adaptive page size exists for), can fail
// the failAt-th LoadRange once, and bounds the number of calls.
type seamKV struct {
	kv.Base
	maxLimit   int // 0: any limit accepted
	maxBytes   int // 0: any size accepted
	failAt     int // 1-based index of the LoadRange call that fails once; 0: none
	maxCalls   int
	calls      int
	refusals   int
	minRefused int // smallest limit that was refused for limit/size (0: none)
	removes    []string
}

func (s *seamKV) LoadRange(key, end string, limit int) ([]string, []string, error) {
	s.calls++
	if s.maxCalls > 0 && s.calls > s.maxCalls {
		// an error would only make a loader that retries on errors spin: cut the load
		panic(abortLoad{})
	}
	refuse := func() ([]string, []string, error) {
		s.refusals++
		if s.minRefused == 0 || limit < s.minRefused {
			s.minRefused = limit
		}
		return nil, nil, errRefused
	}
	if s.failAt > 0 && s.calls == s.failAt {
		refuse()
		return nil, nil, errInjected
	}
	if s.maxLimit > 0 && (limit <= 0 || limit > s.maxLimit) {
		return refuse()
	}
	ks, vs, err := s.Base.LoadRange(key, end, limit)
	if err == nil && s.maxBytes > 0 {
		n := 0
		for i := range ks {
			n += len(ks[i]) + len(vs[i])
		}
		if n > s.maxBytes {
			return refuse()
		}
	}
	return ks, vs, err
}

func (s *seamKV) Remove(key string) error {
	s.removes = append(s.removes, key)
	return s.Base.Remove(key)
}

// ---------------------------------------------------------------------------
// scratch directories (LevelDB): /dev/shm/verif-c17-<pid>/..., stale ones of dead
// processes are swept at start.

var scratchRoot string

func scratchBase() string {
	if fi, err := os.Stat("/dev/shm"); err == nil && fi.IsDir() {
		return "/dev/shm"
	}
	return os.TempDir()
}

func sweepStale() {
	ents, _ := filepath.Glob(filepath.Join(scratchBase(), "verif-c17-*"))
	for _, e := range ents {
		pid, err := strconv.Atoi(strings.TrimPrefix(filepath.Base(e), "verif-c17-"))
		if err != nil {
			continue
		}
		if _, err := os.Stat(fmt.Sprintf("/proc/%d", pid)); err != nil {
			os.RemoveAll(e)
		}
	}
}

var scratchSeq int

func newScratch() string {
	if scratchRoot == "" {
		scratchRoot = filepath.Join(scratchBase(), fmt.Sprintf("verif-c17-%d", os.Getpid()))
		os.MkdirAll(scratchRoot, 0o755)
	}
	scratchSeq++
	d := filepath.Join(scratchRoot, fmt.Sprintf("d%d", scratchSeq))
	os.RemoveAll(d)
	return d
}

func cleanupScratch() {
	if scratchRoot != "" {
		os.RemoveAll(scratchRoot)
	}
}

// ---------------------------------------------------------------------------
// back-ends

// world is one real core.Storage on one back-end.
type world struct {
	backend string // "mem", "etcd", "rs"
	st      *core.Storage
	seam    *seamKV
	rs      *core.RegionStorage
	dir     string
	cancel  context.CancelFunc
	raw     kv.Base // where the regions really live (unwrapped), for reading the contents
}

func newWorld(backend string) *world {
	w := &world{backend: backend}
	var base kv.Base
	switch backend {
	case "mem", "rs":
		base = kv.NewMemoryKV()
	case "etcd":
		base = kv.NewEtcdKVBase(fakeetcd.New().Client(), "/pd/17")
	default:
		panic("backend " + backend)
	}
	w.seam = &seamKV{Base: base}
	w.raw = base
	if backend == "rs" {
		w.dir = newScratch()
		w.openRS()
	} else {
		w.st = core.NewStorage(base)
		w.st.Base = w.seam
	}
	return w
}

func (w *world) openRS() {
	ctx, cancel := context.WithCancel(context.Background())
	rs, err := core.NewRegionStorage(ctx, w.dir, nil)
	if err != nil {
		panic(fmt.Sprintf("INFRA: NewRegionStorage(%s): %v", w.dir, err))
	}
	w.rs, w.cancel = rs, cancel
	w.st = core.NewStorage(w.seam.Base, core.WithRegionStorage(rs))
	w.st.Base = w.seam
	w.st.SwitchToRegionStorage()
	w.raw = rs
}

// closeReopen: Storage.Close() (flushes), then a new RegionStorage on the same directory.
func (w *world) closeReopen() error {
	if w.backend != "rs" {
		return w.st.Close()
	}
	err := w.st.Close()
	w.cancel()
	w.openRS()
	return err
}

// shutdownReopen: the order of a real shutdown: the server context is cancelled first, then
// Storage.Close() runs (it must still flush what is buffered), then a new process opens the directory.
func (w *world) shutdownReopen() error {
	if w.backend != "rs" {
		return w.st.Close()
	}
	w.cancel()
	err := w.st.Close()
	w.openRS()
	return err
}

// crashReopen: the process stops: the unflushed batch is lost; a new process
// opens the same directory.
func (w *world) crashReopen() {
	if w.backend != "rs" {
		return
	}
	w.cancel()             // stops the background flusher
	w.rs.LeveldbKV.Close() // the files as the dead process left them
	w.openRS()
}

// brokenDB is a closed LevelDB handle: every write to it fails (one per process).
var brokenDB *kv.LeveldbKV

// flushWhileWriteFails calls Storage.Flush while the LevelDB of the region storage rejects
// writes (the exported embedded handle is swapped for a closed one for the duration of the call).
func (w *world) flushWhileWriteFails() error {
	if brokenDB == nil {
		db, err := kv.NewLeveldbKV(newScratch())
		if err != nil {
			panic(fmt.Sprintf("INFRA: broken leveldb: %v", err))
		}
		db.Close()
		brokenDB = db
	}
	healthy := w.rs.LeveldbKV
	w.rs.LeveldbKV = brokenDB
	err := w.st.Flush()
	w.rs.LeveldbKV = healthy
	return err
}

func (w *world) destroy() {
	if w.backend == "rs" && w.rs != nil {
		w.cancel()
		w.rs.LeveldbKV.Close()
		w.rs = nil
		os.RemoveAll(w.dir)
	}
}

// wipeRegions removes every region key of an rs world (re-use of one LevelDB by many inputs).
func (w *world) wipeRegions() {
	ks, _, _ := w.raw.LoadRange("raft/r/", "raft/r0", 0)
	for _, k := range ks {
		w.raw.Remove(k)
	}
}

// rawRegions reads the region records that are in the storage right now.
func (w *world) rawRegions() (map[uint64]*metapb.Region, error) {
	ks, vs, err := w.raw.LoadRange("raft/r/", "raft/r0", 0)
	if err != nil {
		return nil, err
	}
	out := map[uint64]*metapb.Region{}
	for i := range ks {
		r := &metapb.Region{}
		if err := r.Unmarshal([]byte(vs[i])); err != nil {
			return nil, fmt.Errorf("key %s: %v", ks[i], err)
		}
		if _, dup := out[r.GetId()]; dup {
			return nil, fmt.Errorf("region %d stored under two keys", r.GetId())
		}
		if want := fmt.Sprintf("raft/r/%020d", r.GetId()); ks[i] != want {
			return nil, fmt.Errorf("region %d stored under key %s", r.GetId(), ks[i])
		}
		out[r.GetId()] = r
	}
	return out, nil
}

// ---------------------------------------------------------------------------
// guarded loads

type abortLoad struct{}

// loadRegions runs LoadRegions / LoadRegionsOnce with cb; a callback storm
// (non-terminating load) is cut after maxCB calls.
func (w *world) loadRegions(once bool, maxCB int, cb func(*core.RegionInfo) []*core.RegionInfo) (err error, aborted bool) {
	n := 0
	f := func(r *core.RegionInfo) []*core.RegionInfo {
		n++
		if n > maxCB {
			panic(abortLoad{})
		}
		return cb(r)
	}
	defer func() {
		if p := recover(); p != nil {
			if _, ok := p.(abortLoad); ok {
				aborted = true
				return
			}
			panic(p)
		}
	}()
	if once {
		err = w.st.LoadRegionsOnce(f)
	} else {
		err = w.st.LoadRegions(f)
	}
	return err, false
}

func (w *world) loadStores(maxCB int, cb func(*core.StoreInfo)) (err error, aborted bool) {
	n := 0
	defer func() {
		if p := recover(); p != nil {
			if _, ok := p.(abortLoad); ok {
				aborted = true
				return
			}
			panic(p)
		}
	}()
	err = w.st.LoadStores(func(s *core.StoreInfo) {
		n++
		if n > maxCB {
			panic(abortLoad{})
		}
		cb(s)
	})
	return err, false
}

// ---------------------------------------------------------------------------
// items and the reference

func padKey(i uint64, pad int) []byte {
	s := fmt.Sprintf("k%020d", i)
	if pad > len(s) {
		s += strings.Repeat("x", pad-len(s))
	}
	return []byte(s)
}

// mkRegion: region number idx of a chain of non-overlapping regions, version ver.
func mkRegion(idx int, id uint64, ver int, pad int) *metapb.Region {
	return &metapb.Region{
		Id:          id,
		StartKey:    padKey(uint64(idx)*2, pad),
		EndKey:      padKey(uint64(idx)*2+1, pad),
		RegionEpoch: &metapb.RegionEpoch{Version: uint64(ver), ConfVer: 1},
		Peers:       []*metapb.Peer{{Id: id ^ 0x5555, StoreId: uint64(idx%5) + 1}},
	}
}

func mkStore(idx int, id uint64, ver int) *metapb.Store {
	return &metapb.Store{
		Id:      id,
		Address: fmt.Sprintf("tikv-%d:20160/v%d", idx, ver),
		Labels:  []*metapb.StoreLabel{{Key: "zone", Value: fmt.Sprintf("z%d", idx%3)}},
		Version: fmt.Sprintf("5.0.%d", ver),
	}
}

// want is what the statement says about one id.
type want struct {
	idx      int
	required bool   // saved, not deleted, acknowledged: must be returned exactly once
	acc      uint32 // acceptable versions (bit v)
	ever     uint32 // versions ever saved (a non-required id may come back with any of them)
	// region storage: version saved since the last returned Flush/Close (0: none)
	pendingVer int
}

type got struct {
	id  uint64
	ver int
	enc string // encoded record
}

func idList(l []uint64) string {
	const max = 8
	var s []string
	for i, x := range l {
		if i == max {
			s = append(s, fmt.Sprintf("... (%d ids)", len(l)))
			break
		}
		s = append(s, strconv.FormatUint(x, 10))
	}
	return "[" + strings.Join(s, " ") + "]"
}

// judge compares the items a full load returned with the reference.
func judge(kind string, ref map[uint64]*want, items []got, enc func(idx int, id uint64, ver int) string, ctx string) *hist.Violation {
	count := map[uint64]int{}
	var dup, phantom, missing, wrongVer, wrongEnc []uint64
	for _, g := range items {
		count[g.id]++
		w := ref[g.id]
		if w == nil {
			phantom = append(phantom, g.id)
			continue
		}
		if count[g.id] == 2 {
			dup = append(dup, g.id)
		}
		ok := w.ever
		if w.required {
			ok = w.acc
		}
		if g.ver < 0 || g.ver > 31 || ok&(1<<uint(g.ver)) == 0 {
			wrongVer = append(wrongVer, g.id)
		} else if g.enc != enc(w.idx, g.id, g.ver) {
			wrongEnc = append(wrongEnc, g.id)
		}
	}
	nreq := 0
	for id, w := range ref {
		if w.required {
			nreq++
			if count[id] == 0 {
				missing = append(missing, id)
			}
		}
	}
	sortU(missing)
	v := func(key, f string, a ...interface{}) *hist.Violation {
		return &hist.Violation{Key: key, Msg: ctx + ": " + fmt.Sprintf(f, a...) + fmt.Sprintf(" (%d items required, %d callbacks)", nreq, len(items))}
	}
	switch {
	case len(dup) > 0:
		return v(kind+"-returned-twice", "%ss %s were returned more than once by one full load", kind, idList(dup))
	case len(phantom) > 0:
		return v(kind+"-phantom", "%ss %s were returned but never saved", kind, idList(phantom))
	case len(missing) == 1 && missing[0] == maxID:
		return v(kind+"-id-maxuint64-not-loaded", "the %s with id 18446744073709551615 (MaxUint64) was saved, not deleted and acknowledged, but the full load did not return it (the load range ends at path(MaxUint64) exclusive)", kind)
	case len(missing) > 0:
		return v(kind+"-not-loaded", "%ss %s were saved, not deleted and acknowledged, but the full load did not return them", kind, idList(missing))
	case len(wrongVer) > 0:
		return v(kind+"-stale-version", "%ss %s were returned with a version that is not the acknowledged one", kind, idList(wrongVer))
	case len(wrongEnc) > 0:
		return v(kind+"-content", "%ss %s were returned with a content different from what was saved", kind, idList(wrongEnc))
	}
	return nil
}

func sortU(l []uint64) { sort.Slice(l, func(i, j int) bool { return l[i] < l[j] }) }

func encRegion(r *metapb.Region) string {
	b, _ := r.Marshal()
	return string(b)
}

func encStore(s *metapb.Store) string {
	b, _ := s.Marshal()
	return string(b)
}
