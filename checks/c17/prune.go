package main

import (
	"fmt"
	"sort"
	"strings"

	"github.com/pingcap/kvproto/pkg/metapb"
	"github.com/tikv/pd/server/core"
	"verif/engine/hist"
)

// Pruning: every ordered tuple of <= maxK leftovers (range over the key points x
// version), ids ascending in tuple order (the load order), is saved; then
// LoadRegions(BasicCluster.CheckAndPutRegion) must leave storage == cache == a
// non-overlapping set (and the set the sequential put semantics gives).

type leftover struct {
	start, end string
	ver        int
}

type pruneModel struct {
	backend string
	items   []leftover
	maxK    int
	filler  int // non-overlapping filler regions with smaller ids (leftovers straddle a page boundary)
	L       int
	offs    []int // offs[k] = first input index of tuples of length k
	total   int
	w       *world // rs: one LevelDB re-used by a run of inputs of the worker
	uses    int
}

func newPruneModel(backend string, points []string, nver, maxK, filler, L int) *pruneModel {
	m := &pruneModel{backend: backend, maxK: maxK, filler: filler, L: L}
	// ranges [points[i], points[j]) with i<j; "" first = -inf, "" last = +inf
	for i := 0; i < len(points); i++ {
		for j := i + 1; j < len(points); j++ {
			for v := 1; v <= nver; v++ {
				m.items = append(m.items, leftover{points[i], points[j], v})
			}
		}
	}
	n := 1
	for k := 0; k <= maxK; k++ {
		m.offs = append(m.offs, m.total)
		m.total += n
		n *= len(m.items)
	}
	return m
}

func (m *pruneModel) decode(i int) []leftover {
	k := 0
	for k+1 < len(m.offs) && i >= m.offs[k+1] {
		k++
	}
	i -= m.offs[k]
	t := make([]leftover, k)
	for j := k - 1; j >= 0; j-- {
		t[j] = m.items[i%len(m.items)]
		i /= len(m.items)
	}
	return t
}

func (m *pruneModel) Reset()           {}
func (m *pruneModel) Key() string      { return "" }
func (m *pruneModel) NumOps() int      { return m.total }
func (m *pruneModel) Enabled(int) bool { return true }
func (m *pruneModel) OpName(i int) string {
	var s []string
	for j, l := range m.decode(i) {
		s = append(s, fmt.Sprintf("id%d=[%q,%q)v%d", m.filler+j+1, l.start, l.end, l.ver))
	}
	return fmt.Sprintf("%s filler=%d L=%d leftovers{%s}", m.backend, m.filler, m.L, strings.Join(s, " "))
}

type rspec struct {
	id         uint64
	start, end string
	ver        uint64
}

func (a rspec) String() string { return fmt.Sprintf("%d[%q,%q)v%d", a.id, a.start, a.end, a.ver) }

func overlaps(a, b rspec) bool {
	if a.end != "" && a.end <= b.start {
		return false
	}
	if b.end != "" && b.end <= a.start {
		return false
	}
	return true
}

func specOf(r *metapb.Region) rspec {
	return rspec{r.GetId(), string(r.GetStartKey()), string(r.GetEndKey()), r.GetRegionEpoch().GetVersion()}
}

func setString(s map[uint64]rspec, skipBelow uint64) string {
	var l []rspec
	for _, r := range s {
		if r.id > skipBelow {
			l = append(l, r)
		}
	}
	sort.Slice(l, func(i, j int) bool { return l[i].id < l[j].id })
	return fmt.Sprintf("%v(+%d fillers)", l, len(s)-len(l))
}

func sameSet(a, b map[uint64]rspec) bool {
	if len(a) != len(b) {
		return false
	}
	for id, x := range a {
		if y, ok := b[id]; !ok || x != y {
			return false
		}
	}
	return true
}

func (m *pruneModel) Apply(i int) *hist.Violation {
	tuple := m.decode(i)
	ctx := m.OpName(i)
	var w *world
	if m.backend == "rs" {
		// a fresh LevelDB every 128 inputs (the tombstones of the wiped inputs slow the iterators down)
		if m.w != nil && m.uses >= 128 {
			m.w.destroy()
			m.w = nil
		}
		if m.w == nil {
			m.w, m.uses = newWorld("rs"), 0
		} else {
			m.w.wipeRegions()
		}
		m.uses++
		w = m.w
	} else {
		w = newWorld(m.backend)
	}
	var input []rspec
	for f := 0; f < m.filler; f++ {
		input = append(input, rspec{uint64(f + 1), fmt.Sprintf("z%05d", f), fmt.Sprintf("z%05d", f+1), 1})
	}
	for j, l := range tuple {
		input = append(input, rspec{uint64(m.filler + j + 1), l.start, l.end, uint64(l.ver)})
	}
	for _, r := range input {
		meta := &metapb.Region{Id: r.id, StartKey: []byte(r.start), EndKey: []byte(r.end), RegionEpoch: &metapb.RegionEpoch{Version: r.ver, ConfVer: 1}, Peers: []*metapb.Peer{{Id: r.id + 1000, StoreId: 1}}}
		if err := w.st.SaveRegion(meta); err != nil {
			return infra(ctx, err)
		}
	}
	if err := w.st.Flush(); err != nil {
		return infra(ctx, err)
	}
	// reference: the regions arrive in id order; a region older than something it overlaps is
	// dropped, otherwise it replaces everything it overlaps.
	exp := map[uint64]rspec{}
	for _, r := range input {
		stale := false
		for _, c := range exp {
			if overlaps(c, r) && r.ver < c.ver {
				stale = true
			}
		}
		if stale {
			continue
		}
		for id, c := range exp {
			if overlaps(c, r) {
				delete(exp, id)
			}
		}
		exp[r.id] = r
	}
	if m.backend != "rs" {
		w.seam.maxLimit = m.L
	}
	w.seam.calls, w.seam.maxCalls, w.seam.removes = 0, 200, nil
	skip := uint64(m.filler)
	check := func(stage string, bc *core.BasicCluster) *hist.Violation {
		cache := map[uint64]rspec{}
		for _, r := range bc.GetRegions() {
			cache[r.GetID()] = specOf(r.GetMeta())
		}
		var cl []rspec
		for _, r := range cache {
			cl = append(cl, r)
		}
		for a := 0; a < len(cl); a++ {
			for b := a + 1; b < len(cl); b++ {
				if overlaps(cl[a], cl[b]) {
					return &hist.Violation{Key: "cache-overlap", Msg: fmt.Sprintf("%s: %s: cache holds overlapping regions %v and %v", ctx, stage, cl[a], cl[b])}
				}
			}
		}
		raw, err := w.rawRegions()
		if err != nil {
			return &hist.Violation{Key: "storage-unreadable", Msg: ctx + ": " + stage + ": " + err.Error()}
		}
		stor := map[uint64]rspec{}
		for id, r := range raw {
			stor[id] = specOf(r)
		}
		if !sameSet(stor, cache) {
			key := "storage-differs-from-cache"
			for id := range stor {
				if _, ok := cache[id]; !ok {
					key = "leftover-not-pruned"
				}
			}
			return &hist.Violation{Key: key, Msg: fmt.Sprintf("%s: %s: storage holds %s but the cache holds %s", ctx, stage, setString(stor, skip), setString(cache, skip))}
		}
		if !sameSet(cache, exp) {
			return &hist.Violation{Key: "wrong-survivors", Msg: fmt.Sprintf("%s: %s: cache and storage hold %s, loading in id order should leave %s", ctx, stage, setString(cache, skip), setString(exp, skip))}
		}
		return nil
	}
	bc := core.NewBasicCluster()
	err, aborted := w.loadRegions(false, 3*len(input)+100, bc.CheckAndPutRegion)
	if aborted || err != nil {
		return &hist.Violation{Key: "region-load-error", Msg: fmt.Sprintf("%s: load failed: %v aborted=%v", ctx, err, aborted)}
	}
	if v := check("after LoadRegions(CheckAndPutRegion)", bc); v != nil {
		return v
	}
	// loading again into the same cache, and into a new cache, finds nothing more to prune
	nrem := len(w.seam.removes)
	if err, aborted = w.loadRegions(false, 3*len(input)+100, bc.CheckAndPutRegion); aborted || err != nil {
		return &hist.Violation{Key: "region-load-error", Msg: fmt.Sprintf("%s: second load failed: %v aborted=%v", ctx, err, aborted)}
	}
	if v := check("after a second load into the same cache", bc); v != nil {
		return v
	}
	bc2 := core.NewBasicCluster()
	if err, aborted = w.loadRegions(false, 3*len(input)+100, bc2.CheckAndPutRegion); aborted || err != nil {
		return &hist.Violation{Key: "region-load-error", Msg: fmt.Sprintf("%s: third load failed: %v aborted=%v", ctx, err, aborted)}
	}
	if v := check("after a load into a new cache", bc2); v != nil {
		return v
	}
	if m.backend != "rs" && len(w.seam.removes) != nrem {
		return &hist.Violation{Key: "prune-not-idempotent", Msg: fmt.Sprintf("%s: re-loading the pruned storage removed %v", ctx, w.seam.removes[nrem:])}
	}
	return nil
}
