package main

import (
	"fmt"
	"sort"
	"strings"

	"github.com/tikv/pd/server/core"
	"verif/engine/hist"
)

// Engine B: all save / delete / flush / close / crash histories of a few region ids.

type histOp struct {
	kind string // save del flush close crash
	id   uint64
	ver  int
}

type histModel struct {
	backend string
	ids     []uint64
	nver    int
	prefill int // regions saved and not flushed before the history starts (batch almost full)
	ops     []histOp

	w          *world
	ref        map[uint64]*want
	pendingCnt int
	loaded     string
	// a flush failed while saves were pending and nothing acknowledged or lost them since: part of the
	// state key, because the real batch is hidden state that such a flush may have damaged
	failedFlush bool
}

func newHistModel(backend string, ids []uint64, nver, prefill int) *histModel {
	m := &histModel{backend: backend, ids: ids, nver: nver, prefill: prefill}
	for _, id := range ids {
		for v := 1; v <= nver; v++ {
			m.ops = append(m.ops, histOp{kind: "save", id: id, ver: v})
		}
		m.ops = append(m.ops, histOp{kind: "del", id: id})
	}
	m.ops = append(m.ops, histOp{kind: "flush"})
	if backend == "rs" {
		m.ops = append(m.ops, histOp{kind: "close"}, histOp{kind: "crash"}, histOp{kind: "flushfail"})
	}
	return m
}

func (m *histModel) idx(id uint64) int {
	for i, x := range m.ids {
		if x == id {
			return i
		}
	}
	return 100 + int(id-1000)
}

func (m *histModel) Reset() {
	if m.w != nil {
		m.w.destroy()
	}
	m.w = newWorld(m.backend)
	m.ref = map[uint64]*want{}
	m.pendingCnt = 0
	m.loaded = ""
	m.failedFlush = false
	for i := 0; i < m.prefill; i++ {
		m.save(uint64(1000+i), 1)
	}
}

func (m *histModel) NumOps() int { return len(m.ops) }
func (m *histModel) OpName(i int) string {
	o := m.ops[i]
	switch o.kind {
	case "save":
		return fmt.Sprintf("SaveRegion(id=%d,v%d)", o.id, o.ver)
	case "del":
		return fmt.Sprintf("DeleteRegion(id=%d)", o.id)
	case "flush":
		return "Flush()"
	case "close":
		return "Close()+reopen"
	case "flushfail":
		return "Flush()-while-the-LevelDB-write-fails"
	}
	return "crash+reopen"
}
func (m *histModel) Enabled(int) bool { return true }

func (m *histModel) save(id uint64, ver int) error {
	if err := m.w.st.SaveRegion(mkRegion(m.idx(id), id, ver, 0)); err != nil {
		return err
	}
	e := m.ref[id]
	if e == nil {
		e = &want{idx: m.idx(id)}
		m.ref[id] = e
	}
	e.ever |= 1 << uint(ver)
	if m.backend != "rs" {
		e.required, e.acc = true, 1<<uint(ver)
		return nil
	}
	if e.required {
		e.acc |= 1 << uint(ver) // the batch may be written at any time
	}
	e.pendingVer = ver
	m.pendingCnt = (m.pendingCnt + 1) % 100
	return nil
}

func (m *histModel) ack() {
	for _, e := range m.ref {
		if e.pendingVer > 0 {
			e.required, e.acc = true, 1<<uint(e.pendingVer)
			e.pendingVer = 0
		}
	}
	m.pendingCnt = 0
	m.failedFlush = false
}

func (m *histModel) Apply(i int) *hist.Violation {
	o := m.ops[i]
	var err error
	switch o.kind {
	case "save":
		err = m.save(o.id, o.ver)
	case "del":
		err = m.w.st.DeleteRegion(mkRegion(m.idx(o.id), o.id, 1, 0))
		if e := m.ref[o.id]; e != nil {
			e.required, e.pendingVer = false, 0
		}
	case "flush":
		if err = m.w.st.Flush(); err == nil {
			m.ack()
		}
	case "flushfail":
		// a flush that reports an error acknowledges nothing, but what was saved stays pending:
		// a later successful Flush/Close acknowledges it (reference unchanged)
		if ferr := m.w.flushWhileWriteFails(); ferr == nil {
			m.ack() // it claimed success (e.g. nothing to write): then it counts as a flush
		} else {
			for _, e := range m.ref {
				if e.pendingVer > 0 {
					m.failedFlush = true
				}
			}
		}
	case "close":
		if err = m.w.closeReopen(); err == nil {
			m.ack()
		}
	case "crash":
		m.w.crashReopen()
		for _, e := range m.ref {
			e.pendingVer = 0
		}
		m.pendingCnt = 0
		m.failedFlush = false
	}
	ctx := "after " + m.OpName(i)
	if err != nil {
		return infra(ctx, err)
	}
	var items []got
	lerr, aborted := m.w.loadRegions(false, 3*(len(m.ref)+1)+100, func(r *core.RegionInfo) []*core.RegionInfo {
		items = append(items, got{id: r.GetID(), ver: int(r.GetRegionEpoch().GetVersion()), enc: encRegion(r.GetMeta())})
		return nil
	})
	if aborted {
		return &hist.Violation{Key: "region-load-does-not-terminate", Msg: ctx + ": load cut"}
	}
	if lerr != nil {
		return &hist.Violation{Key: "region-load-error", Msg: fmt.Sprintf("%s: LoadRegions failed on a healthy back-end: %v", ctx, lerr)}
	}
	var ld []string
	for _, g := range items {
		if g.id < 1000 || m.prefill == 0 {
			ld = append(ld, fmt.Sprintf("%d:v%d", g.id, g.ver))
		}
	}
	m.loaded = fmt.Sprintf("%d|", len(items)) + strings.Join(ld, ",")
	return judge("region", m.ref, items, func(idx int, id uint64, ver int) string { return encRegion(mkRegion(idx, id, ver, 0)) }, ctx)
}

func (m *histModel) Key() string {
	var b strings.Builder
	ids := make([]uint64, 0, len(m.ref))
	for id := range m.ref {
		if id < 1000 || m.prefill == 0 {
			ids = append(ids, id)
		}
	}
	sort.Slice(ids, func(i, j int) bool { return ids[i] < ids[j] })
	for _, id := range ids {
		e := m.ref[id]
		fmt.Fprintf(&b, "%d:%v/%x/%x/%d;", id, e.required, e.acc, e.ever, e.pendingVer)
	}
	nreq := 0
	for id, e := range m.ref {
		if id >= 1000 && e.required {
			nreq++
		}
	}
	fmt.Fprintf(&b, "|pend=%d|fill-acked=%d|ff=%v|%s", m.pendingCnt, nreq, m.failedFlush, m.loaded)
	return b.String()
}

// ---------------------------------------------------------------------------
// crash between any two saves (hence between any two batch writes) of N regions

type crashIn struct {
	n     int
	flush int // explicit Flush() after this many saves (0: none)
	k     int // the process stops after k saves
	ids   string
}

type crashModel struct{ inputs []crashIn }

func (m *crashModel) Reset()           {}
func (m *crashModel) Key() string      { return "" }
func (m *crashModel) NumOps() int      { return len(m.inputs) }
func (m *crashModel) Enabled(int) bool { return true }
func (m *crashModel) OpName(i int) string {
	in := m.inputs[i]
	return fmt.Sprintf("rs: save regions 1..%d of %d (ids %s), Flush() after save %d, process stops after save %d; reopen, load; save the rest, Close(), reopen, load", in.k, in.n, in.ids, in.flush, in.k)
}

func crashInputs(tier string) []crashIn {
	ns := []int{1, 99, 100, 101, 201, 250}
	fls := []int{0, 1, 50, 99, 100, 101}
	if tier == "thorough" {
		ns = append(ns, 2, 98, 150, 199, 200, 299, 300, 301, 400)
		fls = append(fls, 2, 98, 150, 199, 200, 201, 299, 300, 301)
	}
	var l []crashIn
	for _, n := range ns {
		fl := uniqSorted(append([]int{n}, fls...))
		for _, f := range fl {
			if f > n {
				continue
			}
			for k := 0; k <= n; k++ {
				ids := "dense1"
				if (n+f)%2 == 1 {
					ids = "top"
				}
				l = append(l, crashIn{n: n, flush: f, k: k, ids: ids})
			}
		}
	}
	sort.SliceStable(l, func(i, j int) bool { return l[i].n > l[j].n })
	return l
}

func (m *crashModel) Apply(i int) *hist.Violation {
	in := m.inputs[i]
	ctx := m.OpName(i)
	w := newWorld("rs")
	defer w.destroy()
	ref := map[uint64]*want{}
	enc := func(idx int, id uint64, ver int) string { return encRegion(mkRegion(idx, id, ver, 0)) }
	load := func(stage string) *hist.Violation {
		var items []got
		err, aborted := w.loadRegions(false, 3*in.n+100, func(r *core.RegionInfo) []*core.RegionInfo {
			items = append(items, got{id: r.GetID(), ver: int(r.GetRegionEpoch().GetVersion()), enc: encRegion(r.GetMeta())})
			return nil
		})
		if aborted || err != nil {
			return &hist.Violation{Key: "region-load-error", Msg: fmt.Sprintf("%s: %s: load failed: %v aborted=%v", ctx, stage, err, aborted)}
		}
		return judge("region", ref, items, enc, ctx+": "+stage)
	}
	for idx := 0; idx < in.k; idx++ {
		id := idOf(in.ids, idx, in.n)
		if err := w.st.SaveRegion(mkRegion(idx, id, 1, 0)); err != nil {
			return infra(ctx, err)
		}
		ref[id] = &want{idx: idx, ever: 2, pendingVer: 1}
		if idx+1 == in.flush {
			if err := w.st.Flush(); err != nil {
				return infra(ctx, err)
			}
			for _, e := range ref {
				e.required, e.acc, e.pendingVer = true, 2, 0
			}
		}
	}
	w.crashReopen()
	for _, e := range ref {
		e.pendingVer = 0
	}
	if v := load("after the stop"); v != nil {
		return v
	}
	for idx := in.k; idx < in.n; idx++ {
		id := idOf(in.ids, idx, in.n)
		if err := w.st.SaveRegion(mkRegion(idx, id, 1, 0)); err != nil {
			return infra(ctx, err)
		}
		ref[id] = &want{idx: idx, ever: 2, pendingVer: 1}
	}
	if in.k > 0 { // a new version of the first region, acknowledged by Close
		id := idOf(in.ids, 0, in.n)
		if err := w.st.SaveRegion(mkRegion(0, id, 2, 0)); err != nil {
			return infra(ctx, err)
		}
		ref[id].ever |= 4
		ref[id].pendingVer = 2
	}
	if err := w.closeReopen(); err != nil {
		return infra(ctx, err)
	}
	for _, e := range ref {
		if e.pendingVer > 0 {
			e.required, e.acc, e.pendingVer = true, 1<<uint(e.pendingVer), 0
		}
	}
	return load("after Close and reopen")
}
