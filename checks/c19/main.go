// Check C19: DR auto-sync only declares 'sync' when every region is in sync.
// Engine B over the real replication.ModeManager on mockcluster, with storage /
// file replication / id allocation failures injected at each transition.
package main

import (
	"context"
	"encoding/json"
	"errors"
	"fmt"
	"sort"
	"strings"
	"time"

	"github.com/pingcap/kvproto/pkg/metapb"
	pb "github.com/pingcap/kvproto/pkg/replication_modepb"
	"github.com/pingcap/log"
	"github.com/tikv/pd/pkg/mock/mockcluster"
	"github.com/tikv/pd/pkg/typeutil"
	"github.com/tikv/pd/pkg/verifshim/vclock"
	"github.com/tikv/pd/server/config"
	"github.com/tikv/pd/server/core"
	"github.com/tikv/pd/server/kv"
	"github.com/tikv/pd/server/replication"
	"go.uber.org/zap"
	"verif/engine/hist"
)

func init() { log.ReplaceGlobals(zap.NewNop(), &log.ZapProperties{}) }

var errInjected = errors.New("injected failure")

type failKV struct {
	kv.Base
	fail     bool
	failed   bool
	failLoad bool
	saves    []string
}

func (f *failKV) Load(k string) (string, error) {
	if f.failLoad && strings.HasPrefix(k, "replication_mode") {
		return "", errInjected
	}
	return f.Base.Load(k)
}

func (f *failKV) Save(k, v string) error {
	if strings.HasPrefix(k, "replication_mode") {
		if f.fail {
			f.failed = true
			return errInjected
		}
		f.saves = append(f.saves, v)
	}
	return f.Base.Save(k, v)
}

type replicater struct {
	fail  bool
	files []string
}

func (r *replicater) ReplicateFileToAllMembers(ctx context.Context, name string, data []byte) error {
	if r.fail {
		return errInjected
	}
	r.files = append(r.files, string(data))
	return nil
}

type clusterW struct {
	*mockcluster.Cluster
	failAlloc bool
	failed    bool
}

func (c *clusterW) AllocID() (uint64, error) {
	if c.failAlloc {
		c.failed = true
		return 0, errInjected
	}
	return c.Cluster.AllocID()
}

type op struct {
	kind  string // down, up, report, tick, time, config
	id    uint64 // store or region index
	integ bool
	curID bool
	fault string // "", "save", "file", "alloc"
	arg   string
}

func (o op) String() string {
	s := ""
	switch o.kind {
	case "down":
		s = fmt.Sprintf("store %d goes down", o.id)
	case "up":
		s = fmt.Sprintf("store %d is up", o.id)
	case "report":
		st, which := "majority", "stale id"
		if o.integ {
			st = "integrity"
		}
		if o.curID {
			which = "current id"
		}
		s = fmt.Sprintf("region %d reports %s under %s", o.id, st, which)
	case "tick":
		s = "tick"
	case "outage":
		s = "dc2 store fails, timeout passes, tick, store returns, tick"
	case "reportmany":
		s = "regions report integrity under the current id: " + o.arg
	case "time":
		s = "time passes the wait timeout"
	case "config":
		s = "UpdateConfig(" + o.arg + ")"
	case "merge":
		s = fmt.Sprintf("region %d absorbs the region after it", o.id)
	case "restart":
		s = "a new leader builds its manager from the storage"
	}
	if o.fault != "" {
		s += " [" + o.fault + " fails]"
	}
	return s
}

type model struct {
	ops      []op
	nregions int
	gapAt    int // region index that does not exist (-1: contiguous key space)
	batch    int
	stg      *core.Storage
	cl       *clusterW
	fk       *failKV
	rp       *replicater
	mm       *replication.ModeManager
	conf     config.ReplicationModeConfig
	cancel   context.CancelFunc
	seenIDs  map[uint64]bool
	reported map[uint64]bool // region index -> reported integrity under the current state id
	down     map[uint64]bool
	timedOut bool
	// scanMark: how far the last recovery scan got (number of regions that had reported when a tick
	// last ran in sync_recover). The manager's scan cursor is hidden state: histories that differ
	// in it must not be merged even when everything observable is equal.
	scanMark int
	start    string // initial persisted state ("" = first initialisation -> sync)
	pr, dr   int    // replicas per datacenter (0: 2 / 1)
	merges   bool
	scanAbs  string // with merges: the regions and reports the last recovery scan saw (hidden cursor and counters)
	absorbed map[int]bool // region index -> merged into the region before it
}

var stores = map[uint64]string{1: "dc1", 2: "dc1", 3: "dc1", 4: "dc2", 5: "dc2", 6: "dc3"} // store 6 belongs to neither datacenter

// replica counts of the two datacenters (set by the model at Reset; 2/1 unless the scope says otherwise)
var primaryReplicas, drReplicas = 2, 1

func baseConf(mode, labelKey string) config.ReplicationModeConfig {
	return config.ReplicationModeConfig{ReplicationMode: mode, DRAutoSync: config.DRAutoSyncReplicationConfig{
		LabelKey: labelKey, Primary: "dc1", DR: "dc2", PrimaryReplicas: primaryReplicas, DRReplicas: drReplicas,
		WaitStoreTimeout: typeutil.Duration{Duration: time.Minute}, WaitSyncTimeout: typeutil.Duration{Duration: time.Minute},
		WaitAsyncTimeout: typeutil.Duration{Duration: 2 * time.Minute},
	}}
}

func newModel(nregions, gapAt, batch int, faults, configs bool) *model {
	m := &model{nregions: nregions, gapAt: gapAt, batch: batch}
	add := func(o op) { m.ops = append(m.ops, o) }
	for _, id := range []uint64{1, 2, 4, 5, 6} {
		add(op{kind: "down", id: id})
		add(op{kind: "up", id: id})
	}
	for r := 0; r < nregions; r++ {
		if r == gapAt {
			continue
		}
		add(op{kind: "report", id: uint64(r), integ: true, curID: true})
		if r < 2 {
			add(op{kind: "report", id: uint64(r), integ: true, curID: false})
			add(op{kind: "report", id: uint64(r), integ: false, curID: true})
		}
	}
	add(op{kind: "tick"})
	add(op{kind: "time"})
	if faults {
		add(op{kind: "tick", fault: "save"})
		add(op{kind: "tick", fault: "file"})
		add(op{kind: "tick", fault: "alloc"})
	}
	if configs {
		add(op{kind: "config", arg: "majority"})
		add(op{kind: "config", arg: "dr-auto-sync"})
		add(op{kind: "config", arg: "label-key"})
		if faults {
			add(op{kind: "config", arg: "dr-auto-sync", fault: "save"})
			add(op{kind: "config", arg: "label-key", fault: "save"})
		}
	}
	return m
}

func (m *model) NumOps() int         { return len(m.ops) }
func (m *model) OpName(i int) string { return m.ops[i].String() }
func (m *model) Enabled(i int) bool {
	if o := m.ops[i]; o.kind == "merge" {
		// at most one merge per region
		return !m.absorbed[int(o.id)] && !m.absorbed[int(o.id)+1] && !m.absorbed[int(o.id)+2] && int(o.id)+1 < m.nregions
	} else if o.kind == "report" {
		return !m.absorbed[int(o.id)]
	}
	return true
}

// withRestarts adds the leader change: a new manager built from the same storage, also with the read of
// the persisted status failing.
func withRestarts(m *model) *model {
	m.ops = append(m.ops, op{kind: "restart"}, op{kind: "restart", fault: "load"})
	return m
}

// withMerges adds the merge of every pair of neighbouring regions (each region takes part in at most one).
func withMerges(m *model) *model {
	m.merges = true
	for r := 0; r+1 < m.nregions; r++ {
		if r != m.gapAt && r+1 != m.gapAt {
			m.ops = append(m.ops, op{kind: "merge", id: uint64(r)})
		}
	}
	return m
}

func key(i int) []byte {
	if i <= 0 {
		return nil
	}
	return []byte(fmt.Sprintf("%04d", i))
}

func (m *model) regionKeys(r int) ([]byte, []byte) {
	end := key(r + 1)
	if r == m.nregions-1 {
		end = nil
	}
	return key(r), end
}

func (m *model) putRegion(r int, st *pb.RegionReplicationStatus) {
	s, e := m.regionKeys(r)
	for n := r + 1; m.absorbed[n]; n++ {
		_, e = m.regionKeys(n)
	}
	id := uint64(r + 1)
	meta := &metapb.Region{Id: id, StartKey: s, EndKey: e, RegionEpoch: &metapb.RegionEpoch{Version: 1, ConfVer: 1},
		Peers: []*metapb.Peer{{Id: id*10 + 1, StoreId: 1}, {Id: id*10 + 2, StoreId: 2}, {Id: id*10 + 4, StoreId: 4}}}
	m.cl.PutRegion(core.NewRegionInfo(meta, meta.Peers[0], core.SetReplicationStatus(st)))
}

func (m *model) Reset() {
	if m.cancel != nil {
		m.cancel()
	}
	vclock.Enable(vclock.Epoch)
	primaryReplicas, drReplicas = 2, 1
	if m.pr > 0 {
		primaryReplicas, drReplicas = m.pr, m.dr
	}
	replication.VerifSetScanSizes(m.batch, (m.batch+1)/2)
	ctx, cancel := context.WithCancel(context.Background())
	m.cancel = cancel
	m.cl = &clusterW{Cluster: mockcluster.NewCluster(ctx, config.NewTestOptions())}
	m.fk = &failKV{Base: kv.NewMemoryKV()}
	st := core.NewStorage(m.fk)
	m.stg = st
	m.rp = &replicater{}
	m.conf = baseConf("dr-auto-sync", "zone")
	for id, dc := range stores {
		m.cl.AddLabelsStore(id, 1, map[string]string{"zone": dc, "zone2": dc})
	}
	m.absorbed = map[int]bool{}
	for r := 0; r < m.nregions; r++ {
		if r != m.gapAt {
			m.putRegion(r, nil)
		}
	}
	if m.start != "" {
		// a leader that takes over in the middle of a recovery: the persisted status is loaded
		m.fk.Base.Save("replication_mode/dr-auto-sync", fmt.Sprintf(`{"state":%q,"state_id":1000}`, m.start))
	}
	var err error
	m.mm, err = replication.NewReplicationModeManager(m.conf, st, m.cl, m.rp)
	if err != nil {
		panic(err)
	}
	m.seenIDs = map[uint64]bool{}
	m.reported = map[uint64]bool{}
	m.down = map[uint64]bool{}
	m.timedOut = false
	m.scanMark, m.scanAbs = 0, ""
	s := m.mm.GetReplicationStatus()
	want := pb.DRAutoSyncState_SYNC
	if m.start != "" {
		want = pb.DRAutoSyncState(pb.DRAutoSyncState_value[strings.ToUpper(m.start)])
	}
	if s.GetDrAutoSync().GetState() != want {
		panic("unexpected initial state " + s.GetDrAutoSync().GetState().String())
	}
	m.seenIDs[s.GetDrAutoSync().GetStateId()] = true
}

type served struct {
	mode  string
	state pb.DRAutoSyncState
	id    uint64
}

func (m *model) served() served {
	s := m.mm.GetReplicationStatus()
	if s.GetMode() != pb.ReplicationMode_DR_AUTO_SYNC {
		return served{mode: "majority"}
	}
	return served{mode: "dr-auto-sync", state: s.GetDrAutoSync().GetState(), id: s.GetDrAutoSync().GetStateId()}
}

func (m *model) Key() string {
	var d []uint64
	for id, v := range m.down {
		if v {
			d = append(d, id)
		}
	}
	sort.Slice(d, func(i, j int) bool { return d[i] < d[j] })
	var rs []string
	for r := 0; r < m.nregions; r++ {
		if r == m.gapAt || (m.nregions > 100 && r != 0 && r != 1025 && r != m.nregions-1) {
			continue
		}
		if m.absorbed[r] {
			rs = append(rs, "-")
			continue
		}
		reg := m.cl.GetRegion(uint64(r + 1))
		cur := reg.GetReplicationStatus().GetStateId() == m.served().id
		rs = append(rs, fmt.Sprintf("%v/%v/%v", reg.GetReplicationStatus().GetState(), cur, m.reported[uint64(r)]))
	}
	h := m.mm.GetReplicationStatusHTTP()
	return fmt.Sprintf("%d%s|%v|%v|%v|%v|%s|%d/%d", m.scanMark, m.scanAbs, m.served().mode, m.served().state, d, m.timedOut, strings.Join(rs, ","), h.DrAutoSync.SyncedRegions, h.DrAutoSync.TotalRegions) + m.conf.DRAutoSync.LabelKey
}

func (m *model) failCounts() (p, d int) {
	for id, dn := range m.down {
		if dn {
			switch stores[id] {
			case "dc1":
				p++
			case "dc2":
				d++
			}
		}
	}
	return
}

func (m *model) Apply(i int) *hist.Violation {
	o := m.ops[i]
	before := m.served()
	m.fk.fail, m.fk.failed = o.fault == "save", false
	m.rp.fail = o.fault == "file"
	m.cl.failAlloc, m.cl.failed = o.fault == "alloc", false
	nSaves, nFiles := len(m.fk.saves), len(m.rp.files)
	var cfgErr error
	switch o.kind {
	case "down":
		s := m.cl.GetStore(o.id)
		m.cl.PutStore(s.Clone(core.SetLastHeartbeatTS(vclock.Now().Add(-10 * time.Minute))))
		m.down[o.id] = true
	case "up":
		s := m.cl.GetStore(o.id)
		m.cl.PutStore(s.Clone(core.SetLastHeartbeatTS(vclock.Now())))
		m.down[o.id] = false
	case "report":
		st := &pb.RegionReplicationStatus{State: pb.RegionReplicationState_SIMPLE_MAJORITY, StateId: before.id}
		if o.integ {
			st.State = pb.RegionReplicationState_INTEGRITY_OVER_LABEL
		}
		if !o.curID {
			st.StateId = before.id - 1
		}
		m.putRegion(int(o.id), st)
		if o.integ && o.curID && before.mode == "dr-auto-sync" {
			m.reported[o.id] = true
		}
	case "outage":
		// macro step: a complete dc2 outage and return (each inner tick is the real tickDR)
		st := m.cl.GetStore(4)
		m.cl.PutStore(st.Clone(core.SetLastHeartbeatTS(vclock.Now().Add(-10 * time.Minute))))
		st5 := m.cl.GetStore(5)
		m.cl.PutStore(st5.Clone(core.SetLastHeartbeatTS(vclock.Now().Add(-10 * time.Minute))))
		vclock.Advance(3 * time.Minute)
		for id := range stores {
			if !m.down[id] && id != 4 && id != 5 {
				x := m.cl.GetStore(id)
				m.cl.PutStore(x.Clone(core.SetLastHeartbeatTS(vclock.Now())))
			}
		}
		m.mm.VerifTickDR()
		for id := range stores {
			if !m.down[id] {
				x := m.cl.GetStore(id)
				m.cl.PutStore(x.Clone(core.SetLastHeartbeatTS(vclock.Now())))
			}
		}
		m.mm.VerifTickDR()
		m.timedOut = true
	case "restart":
		m.fk.failLoad = o.fault == "load"
		mm2, err := replication.NewReplicationModeManager(m.conf, m.stg, m.cl, m.rp)
		m.fk.failLoad = false
		if err != nil {
			if o.fault == "" {
				return &hist.Violation{Key: "restart-failed", Msg: "after " + o.String() + ": " + err.Error()}
			}
			break // the new leader gives up; the state stays with the storage (and the old manager in this model)
		}
		m.mm = mm2
		m.scanMark, m.scanAbs = 0, ""
		if now := m.served(); before.mode == "dr-auto-sync" && now != before {
			return &hist.Violation{Key: "restart-lost-state", Msg: fmt.Sprintf("after %s: the new manager serves %+v, the persisted (and previously served) status was %+v", o, now, before)}
		}
	case "merge":
		// the surviving region covers both ranges; it counts as having reported integrity only if both had
		a, b := int(o.id), int(o.id)+1
		st := m.cl.GetRegion(uint64(a + 1)).GetReplicationStatus()
		if !m.reported[uint64(b)] {
			st = m.cl.GetRegion(uint64(b + 1)).GetReplicationStatus()
			delete(m.reported, uint64(a))
		}
		delete(m.reported, uint64(b))
		m.absorbed[b] = true
		m.putRegion(a, st)
		if m.cl.GetRegion(uint64(b+1)) != nil {
			panic("the absorbed region is still cached")
		}
	case "reportmany":
		for r := 0; r < m.nregions; r++ {
			if (o.arg == "all-but-last" && r == m.nregions-1) || (o.arg == "all-but-1025" && r == 1025) {
				continue
			}
			m.putRegion(r, &pb.RegionReplicationStatus{State: pb.RegionReplicationState_INTEGRITY_OVER_LABEL, StateId: before.id})
			if before.mode == "dr-auto-sync" {
				m.reported[uint64(r)] = true
			}
		}
	case "time":
		// stores that are up keep heartbeating while time passes
		vclock.Advance(3 * time.Minute)
		for id := range stores {
			if !m.down[id] {
				s := m.cl.GetStore(id)
				m.cl.PutStore(s.Clone(core.SetLastHeartbeatTS(vclock.Now())))
			}
		}
		m.timedOut = true
	case "tick":
		if before.mode == "dr-auto-sync" && before.state == pb.DRAutoSyncState_SYNC_RECOVER {
			m.scanMark = len(m.reported) + 1
			m.scanAbs = fmt.Sprint(m.absorbed, m.reported)
		}
		m.mm.VerifTickDR()
	case "config":
		switch o.arg {
		case "majority":
			m.conf = baseConf("majority", m.conf.DRAutoSync.LabelKey)
		case "dr-auto-sync":
			m.conf = baseConf("dr-auto-sync", m.conf.DRAutoSync.LabelKey)
		case "label-key":
			k := "zone2"
			if m.conf.DRAutoSync.LabelKey == "zone2" {
				k = "zone"
			}
			m.conf = baseConf(m.conf.ReplicationMode, k)
		}
		old := m.conf
		cfgErr = m.mm.UpdateConfig(m.conf)
		if cfgErr != nil {
			// the manager keeps its old configuration
			_ = old
			h := m.mm.GetReplicationStatusHTTP()
			m.conf = baseConf(h.Mode, h.DrAutoSync.LabelKey)
			if h.Mode == "majority" {
				m.conf = baseConf("majority", m.conf.DRAutoSync.LabelKey)
			}
		}
	}
	m.fk.fail, m.rp.fail, m.cl.failAlloc = false, false, false
	after := m.served()
	what := o.String()
	bad := func(k, f string, a ...interface{}) *hist.Violation {
		return &hist.Violation{Key: k, Msg: "after " + what + ": " + fmt.Sprintf(f, a...) + fmt.Sprintf(" (served before %+v, after %+v)", before, after)}
	}
	changed := after.mode == "dr-auto-sync" && (before.mode != after.mode || before.state != after.state || before.id != after.id)
	if after.mode == "dr-auto-sync" && before.mode == "dr-auto-sync" && before.state != after.state && before.id == after.id {
		return bad("state-id-not-fresh", "the state changed but the state id did not")
	}
	if changed && before.mode == "majority" && o.kind != "config" {
		return bad("mode-changed-without-config", "mode changed")
	}
	if after.mode == "dr-auto-sync" && after.id != before.id {
		if m.seenIDs[after.id] {
			return bad("state-id-reused", "state id %d was used before", after.id)
		}
		m.seenIDs[after.id] = true
		m.reported = map[uint64]bool{}
		// persisted (and offered to the members) before it is served
		var stored struct {
			State   string `json:"state"`
			StateID uint64 `json:"state_id"`
		}
		if len(m.fk.saves) == nSaves {
			return bad("served-without-persist", "a new state is served but nothing was saved")
		}
		json.Unmarshal([]byte(m.fk.saves[len(m.fk.saves)-1]), &stored)
		if stored.StateID != after.id || strings.ToUpper(stored.State) != after.state.String() {
			return bad("served-differs-from-stored", "stored status %+v differs from the served one", stored)
		}
		if o.fault != "file" {
			if len(m.rp.files) == nFiles {
				return bad("served-without-replication", "a new state is served but the state file was not offered to the members")
			}
			var f struct {
				State   string `json:"state"`
				StateID uint64 `json:"state_id"`
			}
			json.Unmarshal([]byte(m.rp.files[len(m.rp.files)-1]), &f)
			if f.StateID != after.id {
				return bad("replicated-differs-from-served", "replicated state id %d, served %d", f.StateID, after.id)
			}
		}
	}
	if (m.fk.failed || m.cl.failed) && (before != after) && !(o.kind == "config" && cfgErr == nil) {
		return bad("failed-persist-changed-served-state", "a persist / id allocation failed but the served state changed")
	}
	if o.kind == "config" && (m.fk.failed || m.cl.failed) && cfgErr != nil && before != after {
		return bad("failed-persist-changed-served-state", "UpdateConfig failed but the served state changed")
	}
	// tick-driven transitions: the guards of the statement
	if o.kind == "tick" && before.mode == "dr-auto-sync" && after.state != before.state {
		p, d := m.failCounts()
		canSync := p < primaryReplicas && d < drReplicas
		up := 0
		if p < primaryReplicas {
			up += primaryReplicas - p
		}
		if d < drReplicas {
			up += drReplicas - d
		}
		hasMajority := up*2 > primaryReplicas+drReplicas
		switch after.state {
		case pb.DRAutoSyncState_ASYNC:
			if canSync || !hasMajority || !m.timedOut {
				return bad("async-guard", "moved to async with %d/%d failed stores in dc1/dc2 (replicas %d/%d), majority possible=%v, timeout passed=%v", p, d, primaryReplicas, drReplicas, hasMajority, m.timedOut)
			}
		case pb.DRAutoSyncState_SYNC_RECOVER:
			if before.state != pb.DRAutoSyncState_ASYNC || !canSync {
				return bad("sync-recover-guard", "moved %v -> sync_recover with %d/%d failed stores", before.state, p, d)
			}
		case pb.DRAutoSyncState_SYNC:
			// only via sync_recover (possibly entered in the same tick)
			if m.gapAt >= 0 {
				return bad("sync-with-gap", "declared sync although the cached regions do not cover the key space (region %d missing)", m.gapAt)
			}
			return bad("sync-in-one-tick", "moved %v -> sync within one tick", before.state)
		}
	}
	if o.kind == "tick" && before.mode == "dr-auto-sync" && before.state == pb.DRAutoSyncState_SYNC_RECOVER && after.state == pb.DRAutoSyncState_SYNC {
		// handled above only when state differs; (unreachable)
		_ = 0
	}
	return nil
}

// syncCheck is evaluated by a wrapper around Apply (needs the reported set before it is reset).
func (m *model) applyChecked(i int) *hist.Violation {
	o := m.ops[i]
	before := m.served()
	reported := map[uint64]bool{}
	for k, v := range m.reported {
		reported[k] = v
	}
	v := m.Apply(i)
	if v != nil && v.Key != "sync-in-one-tick" {
		return v
	}
	after := m.served()
	if o.kind == "tick" && after.mode == "dr-auto-sync" && after.state == pb.DRAutoSyncState_SYNC && before.state != pb.DRAutoSyncState_SYNC {
		if before.state != pb.DRAutoSyncState_SYNC_RECOVER {
			return &hist.Violation{Key: "sync-not-from-sync-recover", Msg: fmt.Sprintf("after %s: moved %v -> sync", o, before.state)}
		}
		for r := 0; r < m.nregions; r++ {
			if r != m.gapAt && !m.absorbed[r] && !reported[uint64(r)] {
				return &hist.Violation{Key: "sync-before-all-regions-reported", Msg: fmt.Sprintf("after %s: declared sync although region %d has not reported integrity under the current state id %d (reported: %v)", o, r, before.id, reported)}
			}
		}
		return nil
	}
	return v
}

type wrap struct{ *model }

func (w wrap) Apply(i int) *hist.Violation { return w.model.applyChecked(i) }

func main() {
	hist.Main(&hist.Config{
		Property: "C19",
		Scopes: []*hist.Scope{
			{Name: "3regions", Tiers: "quick", Depth: 5, NewModel: func() hist.Model { return wrap{newModel(3, -1, 2, false, false)} }},
			{Name: "3regions/from-sync-recover", Tiers: "quick", Depth: 5, NewModel: func() hist.Model { return wrap{from(newModel(3, -1, 2, false, false), "sync_recover")} }},
			{Name: "3regions+gap/from-sync-recover", Tiers: "quick", Depth: 5, NewModel: func() hist.Model { return wrap{from(newModel(3, 1, 2, false, false), "sync_recover")} }},
			{Name: "3regions/outage/from-sync-recover", Tiers: "quick", Depth: 7, NewModel: func() hist.Model { return wrap{withOutage(from(newModel(3, -1, 2, false, false), "sync_recover"))} }},
			{Name: "2regions+config/from-sync-recover", Tiers: "quick", Depth: 6, NewModel: func() hist.Model { return wrap{onlyGoodReports(from(newModel(2, -1, 1024, false, true), "sync_recover"))} }},
			{Name: "3regions/from-async", Tiers: "quick", Depth: 5, NewModel: func() hist.Model { return wrap{from(newModel(3, -1, 2, false, false), "async")} }},
			{Name: "2regions+faults/from-sync-recover", Tiers: "quick", Depth: 5, NewModel: func() hist.Model { return wrap{from(newModel(2, -1, 1024, true, false), "sync_recover")} }},
			{Name: "3regions/replicas2+2", Tiers: "quick", Depth: 5, NewModel: func() hist.Model { m := newModel(3, -1, 2, false, false); m.pr, m.dr = 2, 2; return wrap{m} }},
			{Name: "3regions+gap-at-start/from-sync-recover", Tiers: "quick", Depth: 5, NewModel: func() hist.Model { return wrap{from(newModel(3, 0, 2, false, false), "sync_recover")} }},
			{Name: "3regions+merges/from-sync-recover", Tiers: "quick", Depth: 7, NewModel: func() hist.Model { return wrap{withMerges(onlyGoodReports(from(newModel(3, -1, 2, false, false), "sync_recover")))} }},
			{Name: "2regions+restarts", Tiers: "quick", Depth: 5, NewModel: func() hist.Model { return wrap{withRestarts(newModel(2, -1, 2, false, false))} }},
			{Name: "2regions+restarts/from-async", Tiers: "quick", Depth: 4, NewModel: func() hist.Model { return wrap{withRestarts(from(newModel(2, -1, 2, true, false), "async"))} }},
			{Name: "3regions+gap", Tiers: "quick", Depth: 5, NewModel: func() hist.Model { return wrap{newModel(3, 1, 2, false, false)} }},
			{Name: "2regions+faults+config", Tiers: "quick", Depth: 4, NewModel: func() hist.Model { return wrap{newModel(2, -1, 1024, true, true)} }},
			{Name: "5regions/batch3/from-sync-recover", Tiers: "quick", Depth: 8, NewModel: func() hist.Model { return wrap{from(newModel5(), "sync_recover")} }},
			{Name: "3regions@8", Tiers: "thorough", Depth: 8, NewModel: func() hist.Model { return wrap{newModel(3, -1, 2, false, false)} }},
			{Name: "4regions+gap@8", Tiers: "thorough", Depth: 8, NewModel: func() hist.Model { return wrap{newModel(4, 2, 3, false, false)} }},
			{Name: "3regions+faults+config@6", Tiers: "thorough", Depth: 6, NewModel: func() hist.Model { return wrap{newModel(3, -1, 2, true, true)} }},
			{Name: "1030regions/from-sync-recover", Tiers: "thorough", Depth: 5, NewModel: func() hist.Model { return wrap{from(newModelBig(), "sync_recover")} }},
			{Name: "4regions+merges/from-sync-recover@9", Tiers: "thorough", Depth: 9, NewModel: func() hist.Model { return wrap{withMerges(onlyGoodReports(from(newModel(4, -1, 2, false, false), "sync_recover")))} }},
			{Name: "3regions+merges/all-events/from-sync-recover@6", Tiers: "thorough", Depth: 6, NewModel: func() hist.Model { return wrap{withMerges(from(newModel(3, -1, 2, false, false), "sync_recover"))} }},
			{Name: "4regions/from-async@8", Tiers: "thorough", Depth: 8, NewModel: func() hist.Model { return wrap{from(newModel(4, -1, 3, false, false), "async")} }},
			{Name: "3regions+faults+config/from-sync-recover@6", Tiers: "thorough", Depth: 6, NewModel: func() hist.Model { return wrap{from(newModel(3, -1, 2, true, true), "sync_recover")} }},
		},
		Rule: "breadth-first over all sequences of store down/up events per datacenter, region reports (integrity / majority x current / stale state id), ticks, time passing the wait timeout, configuration switches (majority <-> dr-auto-sync, label key) and failures of the storage save, the file replication and the id allocation at a tick; scopes with a gap in the key space and with more regions than one scan batch",
		Assumptions: []string{
			"ModeManager on mockcluster (repository test support) with a recording FileReplicater; verif hook exports tickDR and the scan batch size",
			"sync oracle: at the transition every cached region has reported integrity under the then-current state id at some time since that id was issued, and the key space is covered; configuration-driven transitions are only held to freshness / persist-before-serve / rollback",
		},
	})
}

func from(m *model, start string) *model { m.start = start; return m }

// onlyGoodReports drops the stale-id / majority reports and the store events (smaller alphabet
// for scopes that are about configuration switches during / after a recovery).
func onlyGoodReports(m *model) *model {
	var ops []op
	for _, o := range m.ops {
		if o.kind == "report" && !(o.integ && o.curID) {
			continue
		}
		if o.kind == "down" || o.kind == "up" || o.kind == "time" {
			continue
		}
		ops = append(ops, o)
	}
	m.ops = ops
	return m
}

// withOutage keeps only integrity reports and ticks and adds the outage macro step.
func withOutage(m *model) *model {
	var ops []op
	for _, o := range m.ops {
		if o.kind == "tick" || (o.kind == "report" && o.integ && o.curID) {
			ops = append(ops, o)
		}
	}
	m.ops = append(ops, op{kind: "outage"})
	return m
}

// newModel5: more regions than one scan batch (batch 3), reports only (a long recovery).
func newModel5() *model {
	m := newModel(5, -1, 3, false, false)
	// start in async with everything up so that the interesting part (recovery) is within reach
	var ops []op
	for _, o := range m.ops {
		if o.kind == "report" && !(o.integ && o.curID) {
			continue
		}
		if (o.kind == "down" || o.kind == "up") && o.id != 4 {
			continue
		}
		ops = append(ops, o)
	}
	m.ops = ops
	return m
}

// newModelBig: the real scan batch size with 1030 regions; region reports are macro steps.
func newModelBig() *model {
	m := newModel(1030, -1, 1024, false, false)
	var ops []op
	for _, o := range m.ops {
		if o.kind == "report" {
			continue
		}
		if (o.kind == "down" || o.kind == "up") && o.id != 4 {
			continue
		}
		ops = append(ops, o)
	}
	// macro reports: all regions / all but the last / all but one in the second batch
	ops = append(ops, op{kind: "reportmany", arg: "all"}, op{kind: "reportmany", arg: "all-but-last"}, op{kind: "reportmany", arg: "all-but-1025"})
	m.ops = ops
	return m
}
