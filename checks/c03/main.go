// Check C03: only the current leaseholder serves or persists leader-only state.
// Engine A: 2-3 real Servers (member, election, TSO, id allocator, handlers) on
// one fake etcd; campaign / serve / guarded writes / resign / delete-leader-key /
// lease expiry under every schedule. Ground truth is the fake etcd.
package main

import (
	"context"
	"fmt"
	"sort"
	"strings"
	"time"

	"github.com/pingcap/kvproto/pkg/pdpb"
	"github.com/tikv/pd/pkg/verifshim/sched"
	"github.com/tikv/pd/pkg/verifshim/vclock"
	"github.com/tikv/pd/server/tso"
	"verif/checks/srvh"
	"verif/engine/explore"
	"verif/engine/fakeetcd"
)

const leaderKey = srvh.Root + "/leader"

type served struct {
	who              string
	kind             string
	ownInv, ownRet   bool
	ok               bool
}

type world struct {
	st       *fakeetcd.Store
	srvs     map[int]*srvh.Srv
	cur      map[int]int // thread id -> server id it is acting for
	out      []served
	bad      []string
	badKeys  []string
	present  bool
	campaigns int
	ten      map[int]tenure
	recOwner string       // value of the leader record according to the commits seen
	inDelete map[int]bool // member is inside DeleteLeaderKey (delete first, lease reset afterwards)
	// observer (sched.OnPoint): one sample per scheduling point
	alloc   map[int]tso.Allocator
	mval    map[int]string
	samples []map[int]bool      // per point: does member id hold the leadership (owns the record or unexpired, unresigned tenure)
	lastTSO map[int][2]int64    // in-memory TSO of every member at the previous point
	gen     map[int]map[int]int // thread -> member -> index of the sample that closed the segment in which the thread last moved that member's TSO
}

var guarded = []string{"/timestamp", "/alloc_id", "/member/", "/dc-location/"}

func newWorld(n int) *world {
	vclock.Enable(vclock.Epoch)
	w := &world{st: fakeetcd.New(), srvs: map[int]*srvh.Srv{}, cur: map[int]int{}, ten: map[int]tenure{}, inDelete: map[int]bool{}}
	srvh.SeedClusterID(w.st)
	for i := 1; i <= n; i++ {
		s, err := srvh.New(w.st, i, nil)
		if err != nil {
			panic(err)
		}
		w.srvs[i] = s
	}
	w.alloc, w.mval, w.lastTSO, w.gen = map[int]tso.Allocator{}, map[int]string{}, map[int][2]int64{}, map[int]map[int]int{}
	for id, sv := range w.srvs {
		if al, err := sv.GetTSOAllocatorManager().GetAllocator(tso.GlobalDCLocation); err == nil {
			w.alloc[id] = al
		}
		w.mval[id] = sv.VerifMember().MemberValue()
	}
	sched.OnPoint = w.sample
	w.st.OnCommit = func(evs []fakeetcd.Event) {
		for _, e := range evs {
			if e.Key == leaderKey {
				if e.Delete {
					w.present = false
					// the record disappeared through the lease (revoked by the member's own
					// resign, or expired): from this instant the former owner's tenure is over.
					// (DeleteLeaderKey deletes first and resets the lease afterwards: there the
					// tenure ends when the call returns.)
					for id, sv := range w.srvs {
						if sv.VerifMember().MemberValue() == w.recOwner && !w.inDelete[id] {
							w.ten[id] = tenure{}
						}
					}
					w.recOwner = ""
				} else {
					w.recOwner = e.Value
					if w.present {
						w.addBad("campaign-over-live-leader", fmt.Sprintf("a leader record was written by %s while a live leader record existed", e.Who))
					}
					w.present = true
					w.campaigns++
				}
				continue
			}
			if e.Delete {
				continue
			}
			isGuarded := false
			for _, g := range guarded {
				if strings.Contains(e.Key, g) && strings.HasPrefix(e.Key, srvh.Root) {
					isGuarded = true
				}
			}
			if !isGuarded {
				continue
			}
			t := sched.Cur()
			if t == nil {
				continue
			}
			sid, ok := w.cur[t.ID]
			if !ok {
				continue
			}
			// store is locked here: read the leader record from the write log
			owner := w.ownerLocked()
			if owner != w.srvs[sid].VerifMember().MemberValue() {
				w.addBad("guarded-write-by-non-owner", fmt.Sprintf("server %d (thread %s) changed %s while it does not own the leader record", sid, e.Who, e.Key))
			}
		}
	}
	return w
}

// ownerLocked returns the value of the leader record according to the write log.
func (w *world) ownerLocked() string {
	for i := len(w.st.Log) - 1; i >= 0; i-- {
		if w.st.Log[i].Key == leaderKey {
			if w.st.Log[i].Delete {
				return ""
			}
			return w.st.Log[i].Value
		}
	}
	return ""
}

func (w *world) addBad(k, m string) {
	w.badKeys = append(w.badKeys, k)
	w.bad = append(w.bad, m)
}

// holds: the harness-level reading of "its lease has not expired and it has not resigned":
// the member completed a campaign, has not completed a resign / leader-key deletion since,
// and virtual time has not passed the lease (deadline taken at the end of the campaign,
// i.e. never earlier than the member's own).
type tenure struct {
	active   bool
	deadline time.Time
}

func (w *world) holds(id int) bool {
	t := w.ten[id]
	return t.active && !vclock.Base().After(t.deadline)
}

func (w *world) owns(s *srvh.Srv) bool {
	v, ok := w.st.Get(leaderKey)
	return ok && v == s.VerifMember().MemberValue()
}

// ownedSince: did s own the leader record at any instant since the log position from
// (the state at that position included)?
func (w *world) ownedSince(s *srvh.Srv, from int, ownedAtFrom bool) bool {
	if ownedAtFrom || w.owns(s) {
		return true
	}
	mv := s.VerifMember().MemberValue()
	for _, e := range w.st.Log[from:] {
		if e.Key == leaderKey && !e.Delete && e.Value == mv {
			return true
		}
	}
	return false
}

// sample is the observer: called at every scheduling point on the thread that reached it
// (that thread executed the segment that ends here). No locks, no etcd access.
func (w *world) sample(t *sched.Thread) {
	idx := len(w.samples)
	held := map[int]bool{}
	for id := range w.srvs {
		held[id] = (w.recOwner != "" && w.recOwner == w.mval[id]) || w.holds(id)
		al := w.alloc[id]
		if al == nil {
			continue
		}
		ph, lg := tso.VerifPeekTSO(al)
		cur := [2]int64{ph.UnixNano(), lg}
		if cur != w.lastTSO[id] {
			w.lastTSO[id] = cur
			if w.gen[t.ID] == nil {
				w.gen[t.ID] = map[int]int{}
			}
			w.gen[t.ID][id] = idx
		}
	}
	w.samples = append(w.samples, held)
}

// heldSinceGeneration: did member id hold the leadership at any sampled instant from the
// start of the segment in which thread t last moved the member's TSO?
func (w *world) heldSinceGeneration(t *sched.Thread, id int) (bool, bool) {
	w.sample(t)
	g, ok := w.gen[t.ID][id]
	if !ok {
		return true, false
	}
	from := g - 1
	if from < 0 {
		from = 0
	}
	for j := from; j < len(w.samples); j++ {
		if w.samples[j][id] {
			return true, true
		}
	}
	return false, true
}

func (w *world) act(id int) *srvh.Srv {
	if t := sched.Cur(); t != nil {
		w.cur[t.ID] = id
	}
	return w.srvs[id]
}

func (w *world) tso(id int) {
	s := w.act(id)
	r := served{who: fmt.Sprintf("pd%d", id), kind: "tso", ownInv: w.owns(s) || w.holds(id)}
	from := len(w.st.Log)
	t := sched.Cur()
	if t != nil {
		delete(w.gen[t.ID], id)
	}
	_, err := s.GetTSOAllocatorManager().HandleTSORequest("", 1)
	r.ok = err == nil
	r.ownRet = w.ownedSince(s, from, r.ownInv)
	if t != nil && r.ok {
		if held, seen := w.heldSinceGeneration(t, id); seen && !held {
			w.addBad("timestamp-generated-after-leadership-ended", fmt.Sprintf("pd%d returned a timestamp that it generated at an instant from which on it neither owned the leader record nor held an unexpired, unresigned lease", id))
		}
	}
	w.out = append(w.out, r)
}

func (w *world) allocID(id int) {
	s := w.act(id)
	r := served{who: fmt.Sprintf("pd%d", id), kind: "alloc-id", ownInv: w.owns(s) || w.holds(id)}
	from := len(w.st.Log)
	_, err := s.AllocID(context.Background(), &pdpb.AllocIDRequest{Header: s.Header()})
	r.ok = err == nil
	r.ownRet = w.ownedSince(s, from, r.ownInv)
	w.out = append(w.out, r)
}

func (w *world) getMembers(id int) {
	s := w.act(id)
	r := served{who: fmt.Sprintf("pd%d", id), kind: "is-bootstrapped", ownInv: w.owns(s) || w.holds(id)}
	from := len(w.st.Log)
	_, err := s.IsBootstrapped(context.Background(), &pdpb.IsBootstrappedRequest{Header: s.Header()})
	r.ok = err == nil
	r.ownRet = w.ownedSince(s, from, r.ownInv)
	w.out = append(w.out, r)
}

func (w *world) campaign(id int) {
	if err := w.act(id).VerifBecomeLeader(); err == nil {
		w.ten[id] = tenure{active: true, deadline: vclock.Base().Add(3 * time.Second)}
	}
}
func (w *world) resign(id int) {
	w.act(id).VerifStepDown()
	w.ten[id] = tenure{}
}
func (w *world) deleteKey(id int) {
	w.inDelete[id] = true
	_ = w.act(id).VerifMember().GetLeadership().DeleteLeaderKey()
	w.inDelete[id] = false
	w.ten[id] = tenure{}
}
func (w *world) updateTSO(id int) {
	s := w.act(id)
	vclock.Advance(2900 * time.Millisecond) // close to the end of the saved window: the next update must save
	s.GetTSOAllocatorManager().VerifAllocatorUpdaterSync()
}
func (w *world) priority(id int) {
	s := w.act(id)
	_ = s.VerifMember().SetMemberLeaderPriority(uint64(id), 5)
}
func (w *world) setTSO(id int, ahead time.Duration) {
	s := w.act(id)
	if al := w.alloc[id]; al != nil {
		old := sched.SetMember(id)
		_ = al.SetTSO(uint64(vclock.Base().Add(ahead).UnixNano()/int64(time.Millisecond)) << 18)
		sched.SetMember(old)
	}
	_ = s
}
func (w *world) rebase(id int) { _ = w.act(id).VerifIDAllocator().Rebase() }
func (w *world) expire() {
	sched.PointAt(sched.KUser, "time passes the lease")
	vclock.Advance(4 * time.Second)
}

func (w *world) check(r *sched.Run) (string, *explore.Violation) {
	defer func() {
		for _, s := range w.srvs {
			s.Close()
		}
	}()
	if len(w.bad) > 0 {
		return "", &explore.Violation{Key: w.badKeys[0], Msg: strings.Join(w.bad, "\n")}
	}
	var l []string
	for _, x := range w.out {
		if x.ok && !x.ownInv && !x.ownRet {
			return "", &explore.Violation{Key: "served-without-leadership-" + x.kind, Msg: fmt.Sprintf("%s answered a %s request successfully although it did not own the leader record at any instant between the beginning and the end of the request", x.who, x.kind)}
		}
		l = append(l, fmt.Sprintf("%s:%s:%v", x.who, x.kind, x.ok))
	}
	sort.Strings(l)
	return strings.Join(l, ",") + fmt.Sprintf("|campaigns=%d", w.campaigns), nil
}

func scenario(name string, n, pre int, tiers string, build func(w *world) ([]string, []func())) *explore.Scenario {
	return &explore.Scenario{Name: name, MaxPre: pre, Tiers: tiers, Setup: func() *explore.Instance {
		w := newWorld(n)
		w.campaign(1)
		if !w.ten[1].active {
			panic("initial campaign failed")
		}
		names, th := build(w)
		return &explore.Instance{Names: names, Threads: th, Check: w.check}
	}}
}

func main() {
	defer srvh.Cleanup()
	expiry := func(w *world) ([]string, []func()) {
		return []string{"pd1", "pd2", "env"}, []func(){
			func() { w.tso(1); w.updateTSO(1); w.allocID(1); w.priority(1); w.tso(1) },
			func() { w.campaign(2); w.tso(2); w.allocID(2) },
			func() { w.expire() },
		}
	}
	expiryReset := func(w *world) ([]string, []func()) {
		// a manual reset keeps the TSO lock across its window save: requests queue up behind it
		return []string{"pd1-admin", "pd1-req", "pd2", "env"}, []func(){
			func() { w.setTSO(1, 10*time.Second) },
			func() { w.tso(1) },
			func() { w.campaign(2); w.tso(2) },
			func() { w.expire() },
		}
	}
	resign := func(w *world) ([]string, []func()) {
		return []string{"pd1", "pd1-req", "pd2"}, []func(){
			func() { w.resign(1); w.campaign(1); w.priority(1) },
			func() { w.tso(1); w.allocID(1); w.rebase(1); w.getMembers(1) },
			func() { w.campaign(2); w.tso(2); w.updateTSO(2); w.rebase(2) },
		}
	}
	// a member that has never campaigned (it holds no lease at all) attempts guarded writes
	// while the record exists, while nobody holds it, and after somebody else took it
	bystander := func(w *world) ([]string, []func()) {
		return []string{"pd1", "pd3", "pd2"}, []func(){
			func() { w.priority(1); w.resign(1) },
			func() { w.priority(3); w.updateTSO(3); w.priority(3) },
			func() { w.campaign(2); w.priority(2) },
		}
	}
	delKey := func(w *world) ([]string, []func()) {
		return []string{"pd1", "pd1-req", "pd2"}, []func(){
			func() { w.deleteKey(1); w.priority(1) },
			func() { w.tso(1); w.updateTSO(1); w.allocID(1) },
			func() { w.campaign(2); w.tso(2); w.priority(2) },
		}
	}
	three := func(w *world) ([]string, []func()) {
		return []string{"pd1", "pd2", "pd3", "env"}, []func(){
			func() { w.tso(1); w.updateTSO(1); w.rebase(1) },
			func() { w.campaign(2); w.tso(2); w.priority(2) },
			func() { w.campaign(3); w.allocID(3); w.rebase(3) },
			func() { w.expire() },
		}
	}
	explore.Main(&explore.Config{
		Property:    "C03",
		Extra:       kaAll,
		ExtraReplay: kaReplay,
		Scenarios: []*explore.Scenario{
			scenario("expiry", 2, 2, "quick", expiry),
			scenario("expiry+reset", 2, 2, "quick", expiryReset),
			scenario("resign", 2, 2, "quick", resign),
			scenario("delete-leader-key", 2, 2, "quick", delKey),
			scenario("resign+bystander", 3, 2, "quick", bystander),
			scenario("three-contenders", 3, 1, "quick", three),
			scenario("expiry@3", 2, 3, "thorough", expiry),
			scenario("expiry+reset@3", 2, 3, "thorough", expiryReset),
			scenario("resign@3", 2, 3, "thorough", resign),
			scenario("delete-leader-key@3", 2, 3, "thorough", delKey),
			scenario("resign+bystander@3", 3, 3, "thorough", bystander),
			scenario("three-contenders@2", 3, 2, "thorough", three),
		},
		Rule: "all schedules (preemption bound) of member scripts (campaign, TSO request, AllocID / IsBootstrapped handler, time-window save, id rebase, member priority write, resign, delete leader key) of 2-3 real Servers and a lease-expiry event; outcome = which requests were served by whom",
		Assumptions: []string{
			"ground truth is the fake etcd (conformance-checked): a leader record write while a record exists, or a leader-guarded key changed by a member that does not own the record at the commit instant, is a violation",
			"a served request is a violation only if the member owned the leader record at no instant between invocation and return (a clock reading taken just before an expiry is inherent to lease-based leadership)",
			"schedule scenarios: the keep-alive loop is not run, a lease lives until virtual time passes its TTL; the keep-alive loop is covered by the keep-alive scope: real lease.KeepAlive with its worker goroutines and ticker free-running, the fate of the grant reply and of each of the first 2 (thorough: 3) keep-alive requests enumerated (answered, answered late, held past the next request, refused, reply lost), then contact cut and virtual time stepped past every deadline while a second member campaigns",
		},
	})
}
