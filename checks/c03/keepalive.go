package main

// Keep-alive half of C03: the real election.Leadership (Campaign, Keep = lease.KeepAlive
// with its worker goroutines, Check) of one holder against the fake etcd, with the fate
// of the grant reply and of every keep-alive request enumerated exhaustively: answered
// at once, answered after a (virtual) delay, held until the next request has been
// handled (replies overtaking each other), refused, applied with the reply lost; then
// contact is cut and virtual time is stepped past every deadline while a second member
// campaigns. At every instant: a member whose lease etcd has expired must not believe it
// holds it, a campaign succeeds only when no leader record exists, never two holders.
//
// The worker goroutines and the ticker of lease.go are real (free-running); what the
// environment answers and when (on the virtual clock) is decided by the enumeration.
// Real time only decides how long an execution takes, never what is observed: the
// oracle compares the holder's local deadline with the fake etcd's, both on the
// virtual clock, and both are fixed by the enumerated fates.

import (
	"context"
	"fmt"
	"sync"
	"time"

	"github.com/tikv/pd/pkg/verifshim/vclock"
	"github.com/tikv/pd/server/election"
	"go.etcd.io/etcd/clientv3"
	"verif/engine/evidence"
	"verif/engine/fakeetcd"
)

const (
	kaTTL  = 1 // seconds; keep-alive interval = TTL/3 of real time (ticker)
	kaStep = 100 * time.Millisecond
)

// fates of a keep-alive request
const (
	fNow = iota // applied, answered at once
	fLate       // applied, answered 700 ms (virtual) later
	fHeld       // applied, answered only after the next request has been handled (+400 ms)
	fRefused    // never reaches etcd
	fLost       // applied, reply lost
	nFates
)

var fateName = []string{"answered", "answered-late", "held-past-next", "refused", "reply-lost"}

type kaResult struct {
	viol    *evidence.Violation
	infra   string
	outcome string
	checks  int64
}

// kaRun performs one execution: grant fate g (0 = at once, 1 = reply 700 ms late) and
// one fate per keep-alive request.
func kaRun(g int, fates []int) (res kaResult) {
	vclock.Enable(vclock.Epoch)
	st := fakeetcd.New()
	const key = "/pd/7/leader"
	a := election.NewLeadership(st.Client(), key, "verif-a")
	b := election.NewLeadership(st.Client(), key, "verif-b")
	// c campaigns the way allocator elections do: with an extra comparison of its own
	c := election.NewLeadership(st.Client(), key, "verif-c")
	extra := clientv3.Compare(clientv3.CreateRevision("/pd/7/next-leader"), "=", 0)
	label := fmt.Sprintf("grant=%d fates=%v", g, fates)
	replay := append([]int{g}, fates...)
	bad := func(k, m string) {
		if res.viol == nil {
			res.viol = &evidence.Violation{Scenario: "keep-alive", Key: k, Message: label + ": " + m, Replay: replay}
		}
	}

	var mu sync.Mutex
	var aLease int64
	nreq := 0
	arrived := make(chan int, 16)
	release := map[int]chan struct{}{}
	for i := range fates {
		release[i] = make(chan struct{})
	}
	st.LeaseHook = func(l string, id int64) (int, func()) {
		mu.Lock()
		defer mu.Unlock()
		switch {
		case l == "LeaseGrant" && aLease == 0:
			if g == 1 {
				return fakeetcd.FaultNone, func() { vclock.Advance(700 * time.Millisecond) }
			}
			return fakeetcd.FaultNone, nil
		case l == "LeaseKeepAlive" && id == aLease:
			n := nreq
			nreq++
			if n >= len(fates) {
				return fakeetcd.FaultRefused, nil // contact is cut
			}
			switch fates[n] {
			case fRefused:
				arrived <- n
				return fakeetcd.FaultRefused, nil
			case fLost:
				arrived <- n
				return fakeetcd.FaultLost, nil
			case fLate:
				return fakeetcd.FaultNone, func() { vclock.Advance(700 * time.Millisecond); arrived <- n }
			case fHeld:
				return fakeetcd.FaultNone, func() { arrived <- n; <-release[n] }
			default:
				return fakeetcd.FaultNone, func() { arrived <- n }
			}
		}
		return fakeetcd.FaultNone, nil
	}

	if err := a.Campaign(kaTTL, "a"); err != nil {
		res.infra = "initial campaign failed: " + err.Error()
		return
	}
	mu.Lock()
	aLease = st.LeaseOf(key)
	mu.Unlock()
	bLeads := false
	observe := func(when string) {
		res.checks++
		st.Tick()
		v, present := st.Get(key)
		aOwns := present && v == "a"
		if a.Check() && !aOwns {
			bad("holder-outlives-etcd-lease", fmt.Sprintf("%s (virtual +%v): the member still believes it holds the lease (local deadline %v) although etcd has expired it", when, vclock.Base().Sub(vclock.Epoch), a.VerifLeaseExpireTime().Sub(vclock.Epoch)))
		}
		if present {
			if err := c.Campaign(kaTTL, "c", extra); err == nil {
				bad("campaign-over-live-leader", when+": a campaign that carries an extra comparison succeeded while a leader record existed")
				c.Reset()
			}
		}
		if !bLeads {
			err := b.Campaign(kaTTL, "b")
			if err == nil {
				if present {
					bad("campaign-over-live-leader", when+": a campaign succeeded while a leader record existed")
				}
				bLeads = true
			}
		}
		if bLeads && a.Check() && b.Check() {
			bad("two-holders", fmt.Sprintf("%s (virtual +%v): two members believe they hold the leadership", when, vclock.Base().Sub(vclock.Epoch)))
		}
	}

	vclock.Advance(50 * time.Millisecond)
	ctx, cancel := context.WithCancel(context.Background())
	kdone := make(chan struct{})
	go func() { a.Keep(ctx); close(kdone) }()
	defer func() {
		for _, c := range release {
			select {
			case <-c:
			default:
				close(c)
			}
		}
		cancel()
		<-kdone
		a.Reset()
		b.Reset()
	}()

	waitExpire := func(prev time.Time) {
		// the reply travels worker -> channel -> KeepAlive loop: wait (bounded, real
		// time) until the local deadline has been touched; not being touched is no error
		for i := 0; i < 300; i++ {
			if !a.VerifLeaseExpireTime().Equal(prev) {
				return
			}
			time.Sleep(time.Millisecond)
		}
	}
	held := -1
	for n := range fates {
		prev := a.VerifLeaseExpireTime()
		select {
		case got := <-arrived:
			if got != n {
				res.infra = fmt.Sprintf("request %d arrived while waiting for %d", got, n)
				return
			}
		case <-time.After(5 * time.Second):
			res.infra = fmt.Sprintf("keep-alive request %d did not arrive", n)
			return
		}
		if fates[n] == fNow || fates[n] == fLate {
			waitExpire(prev)
		}
		observe(fmt.Sprintf("after request %d (%s)", n, fateName[fates[n]]))
		if held >= 0 {
			// the reply that was held past this request is delivered now
			prev = a.VerifLeaseExpireTime()
			vclock.Advance(400 * time.Millisecond)
			close(release[held])
			held = -1
			waitExpire(prev)
			observe(fmt.Sprintf("after the held reply overtaken by request %d", n))
		}
		if fates[n] == fHeld {
			held = n
		}
		vclock.Advance(time.Duration(kaTTL) * time.Second / 3)
		observe(fmt.Sprintf("one interval after request %d", n))
	}
	if held >= 0 {
		prev := a.VerifLeaseExpireTime()
		vclock.Advance(400 * time.Millisecond)
		close(release[held])
		waitExpire(prev)
		observe("after the last held reply")
	}
	// contact is cut; time passes every deadline
	for i := 0; i < 25; i++ {
		vclock.Advance(kaStep)
		observe(fmt.Sprintf("cut +%v", time.Duration(i+1)*kaStep))
	}
	res.outcome = fmt.Sprintf("b-leads=%v a-deadline=+%v", bLeads, a.VerifLeaseExpireTime().Sub(vclock.Epoch))
	return
}

func kaAll(tier string, rep *evidence.Reporter, cov *evidence.Coverage) {
	k, fatesUsed := 2, []int{fNow, fLate, fHeld, fRefused}
	if tier == "thorough" {
		k, fatesUsed = 3, []int{fNow, fLate, fHeld, fRefused, fLost}
	}
	var execs, checks, inconclusive int64
	outcomes := map[string]int{}
	fates := make([]int, k)
	var rec func(d, g int)
	rec = func(d, g int) {
		if d == k {
			var r kaResult
			for try := 0; try < 3; try++ {
				r = kaRun(g, fates)
				if r.infra == "" {
					break
				}
			}
			execs++
			checks += r.checks
			if r.infra != "" {
				inconclusive++
				return
			}
			if r.viol != nil {
				// believe it only if it reproduces
				r2 := kaRun(g, fates)
				if r2.viol == nil || r2.viol.Key != r.viol.Key {
					inconclusive++
					fmt.Printf("C03 keep-alive: violation %s not reproduced for grant=%d fates=%v\n", r.viol.Key, g, fates)
					return
				}
				rep.Report(r.viol)
			}
			outcomes[r.outcome]++
			return
		}
		for _, f := range fatesUsed {
			fates[d] = f
			rec(d+1, g)
		}
	}
	for g := 0; g < 2; g++ {
		rec(0, g)
	}
	cov.States += checks
	cov.Transitions += checks
	cov.Evaluations += checks
	cov.TracesValidatedAgainstImpl += execs
	cov.DistinctNontrivial += int64(len(outcomes))
	names := []string{}
	for _, f := range fatesUsed {
		names = append(names, fateName[f])
	}
	cov.Scenarios = append(cov.Scenarios, map[string]interface{}{"scope": "keep-alive", "executions": execs, "instants_checked": checks, "requests": k, "fates_per_request": names, "grant_fates": []string{"answered", "answered-late"}, "distinct_outcomes": len(outcomes), "inconclusive": inconclusive})
	if inconclusive > 0 {
		cov.Exhaustive = false
		cov.CapsHit = append(cov.CapsHit, fmt.Sprintf("keep-alive: %d executions inconclusive (a request of the real ticker did not arrive in time)", inconclusive))
	}
	fmt.Printf("C03 keep-alive executions=%d instants=%d outcomes=%d inconclusive=%d\n", execs, checks, len(outcomes), inconclusive)
}

func kaReplay(scenario string, choices []int, path string) int {
	if scenario != "keep-alive" || len(choices) < 1 {
		return -1
	}
	r := kaRun(choices[0], choices[1:])
	if r.infra != "" {
		fmt.Println("inconclusive:", r.infra)
		return 2
	}
	fmt.Println("outcome:", r.outcome)
	if r.viol != nil {
		fmt.Printf("VIOLATION property=C03 replay=%s\n  key=%s\n  %s\n", path, r.viol.Key, r.viol.Message)
		return 1
	}
	fmt.Println("no violation on replay")
	return 0
}
