// Check C18: dynamic configuration changes are validated, atomic and durable.
//
// Engine B over the real server.Server (verif hook VerifNewServer on the fake etcd):
// all sequences of Set{Schedule,Replication,PDServer,LabelProperty,ReplicationMode}Config,
// SetLabelProperty, DeleteLabelProperty and SetClusterVersion with valid values, every
// boundary value named in the statement, and a storage failure injected at the writes of
// any call. After every call the served configuration (every Get*Config) is compared
// with the reference written from the statement, and a fresh PersistOptions is reloaded
// from the same storage (what a newly elected leader does).
package main

import (
	"context"
	"crypto/sha1"
	"encoding/hex"
	"encoding/json"
	"errors"
	"fmt"
	"math"
	"os"
	"runtime"
	"strconv"
	"strings"
	"sync"

	"github.com/coreos/go-semver/semver"
	"github.com/tikv/pd/pkg/typeutil"
	"github.com/tikv/pd/pkg/verifshim/vclock"
	"github.com/tikv/pd/server/config"
	"github.com/tikv/pd/server/kv"
	"github.com/tikv/pd/server/schedule/placement"
	"go.etcd.io/etcd/clientv3"
	pb "go.etcd.io/etcd/etcdserver/etcdserverpb"
	"verif/checks/srvh"
	"verif/engine/fakeetcd"
	"verif/engine/hist"
)

// ---------------------------------------------------------------- storage seam

var errInjected = errors.New("injected storage failure")

// faultKV wraps the kv.Base of the server's storage. While armed it fails the writes of
// the calling goroutine: the from-th write only (transient) or every write from the
// from-th on (the storage stays down for the rest of the call).
type faultKV struct {
	kv.Base
	mu         sync.Mutex
	armed      bool
	gid        string
	from       int
	persistent bool
	n          int
	failed     []string // keys of the writes that were failed
	written    []string // keys of the writes that went through
}

func goid() string {
	var buf [64]byte
	n := runtime.Stack(buf[:], false)
	f := strings.Fields(string(buf[:n]))
	if len(f) < 2 {
		return ""
	}
	return f[1]
}

func (f *faultKV) hit(key string) bool {
	f.mu.Lock()
	defer f.mu.Unlock()
	if !f.armed || goid() != f.gid {
		return false
	}
	f.n++
	if f.from > 0 && (f.n == f.from || (f.persistent && f.n > f.from)) {
		f.failed = append(f.failed, key)
		return true
	}
	f.written = append(f.written, key)
	return false
}

func (f *faultKV) Save(key, value string) error {
	if f.hit(key) {
		return errInjected
	}
	return f.Base.Save(key, value)
}

func (f *faultKV) Remove(key string) error {
	if f.hit(key) {
		return errInjected
	}
	return f.Base.Remove(key)
}

func (f *faultKV) arm(ft fault) {
	f.mu.Lock()
	f.armed, f.gid, f.from, f.persistent, f.n, f.failed, f.written = true, goid(), ft.from, ft.persistent, 0, nil, nil
	f.mu.Unlock()
}

func (f *faultKV) disarm() (failed, written []string) {
	f.mu.Lock()
	defer f.mu.Unlock()
	f.armed = false
	return f.failed, f.written
}

// noCluster stands in for the etcd membership API, which the fake etcd does not have:
// listing the members fails (so no address is a member's client URL and the DR status
// file is not replicated; pd ignores the latter error by design).
type noCluster struct{}

var errNoCluster = errors.New("verif: the fake etcd has no membership API")

// membersListed is set while SetPDServerConfig runs (it asks whether a dashboard address is a
// member's client URL); for everybody else listing the members fails as before (the grpc
// GetMembers handler needs the embedded etcd server, which does not exist here).
var membersListed bool

func (noCluster) MemberList(context.Context) (*clientv3.MemberListResponse, error) {
	if !membersListed {
		return nil, errNoCluster
	}
	// the server itself is the only member: its client URL is the one concrete dashboard
	// address pd accepts (status files are "replicated" to it over HTTP, which fails; pd
	// ignores that by design)
	return &clientv3.MemberListResponse{Header: &pb.ResponseHeader{}, Members: []*pb.Member{{ID: 1, Name: "pd1", ClientURLs: []string{selfURL}, PeerURLs: []string{"http://127.0.0.1:20003"}}}}, nil
}

const selfURL = "http://127.0.0.1:20002"
func (noCluster) MemberAdd(context.Context, []string) (*clientv3.MemberAddResponse, error) {
	return nil, errNoCluster
}
func (noCluster) MemberAddAsLearner(context.Context, []string) (*clientv3.MemberAddResponse, error) {
	return nil, errNoCluster
}
func (noCluster) MemberRemove(context.Context, uint64) (*clientv3.MemberRemoveResponse, error) {
	return nil, errNoCluster
}
func (noCluster) MemberUpdate(context.Context, uint64, []string) (*clientv3.MemberUpdateResponse, error) {
	return nil, errNoCluster
}
func (noCluster) MemberPromote(context.Context, uint64) (*clientv3.MemberPromoteResponse, error) {
	return nil, errNoCluster
}

// ---------------------------------------------------------------- observation

const (
	secSchedule = iota
	secReplication
	secPDServer
	secLabel
	secVersion
	secMode
	nSec
)

var secName = [nSec]string{"schedule", "replication", "pd-server", "label-property", "cluster-version", "replication-mode"}

// snap is the JSON rendering of the six configuration sections.
type snap [nSec]string

func (a snap) diff(b snap) string {
	var l []string
	for i := 0; i < nSec; i++ {
		if a[i] != b[i] {
			l = append(l, fmt.Sprintf("%s: %s  =>  %s", secName[i], a[i], b[i]))
		}
	}
	return strings.Join(l, "\n    ")
}

func js(v interface{}) string {
	b, err := json.Marshal(v)
	if err != nil {
		return "!unmarshalable: " + err.Error()
	}
	return string(b)
}

// values is the configuration as Go values (always private copies).
type values struct {
	sched *config.ScheduleConfig
	repl  *config.ReplicationConfig
	pd    *config.PDServerConfig
	label config.LabelPropertyConfig
	ver   semver.Version
	mode  *config.ReplicationModeConfig
}

func (v *values) snap() snap {
	return snap{js(v.sched), js(v.repl), js(v.pd), js(v.label), js(&v.ver), js(v.mode)}
}

// served reads the configuration through the Server's getters.
func served(s *srvh.Srv) *values {
	return &values{
		sched: s.GetScheduleConfig(),
		repl:  s.GetReplicationConfig(),
		pd:    s.GetPDServerConfig(),
		label: s.GetLabelProperty(),
		ver:   s.GetClusterVersion(),
		mode:  s.GetReplicationModeConfig().Clone(),
	}
}

func ofOptions(o *config.PersistOptions) *values {
	return &values{
		sched: o.GetScheduleConfig().Clone(),
		repl:  o.GetReplicationConfig().Clone(),
		pd:    o.GetPDServerConfig().Clone(),
		label: o.GetLabelPropertyConfig().Clone(),
		ver:   *o.GetClusterVersion(),
		mode:  o.GetReplicationModeConfig().Clone(),
	}
}

// the three schedulers documented as "created by default; if they are not in the
// persistent configuration they are created when reloading"
var defaultSchedulerTypes = []string{"balance-region", "balance-leader", "hot-region"}

// reloadNormalised applies the documented reload normalisation to a served configuration:
// missing default schedulers are re-added (appended, in the documented order) and the
// deprecated flags are migrated (cleared; a set disable-* flag turns its enable-* twin off;
// the deprecated trace-region-flow is cleared, the digit it is migrated into is kept).
func reloadNormalised(v *values) snap {
	sc := v.sched.Clone()
	for _, t := range defaultSchedulerTypes {
		found := false
		for _, x := range sc.Schedulers {
			if x.Type == t {
				found = true
			}
		}
		if !found {
			sc.Schedulers = append(sc.Schedulers, config.SchedulerConfig{Type: t})
		}
	}
	sc.DisableLearner = false
	sc.StoreBalanceRate = 0
	for _, p := range [][2]*bool{
		{&sc.DisableRemoveDownReplica, &sc.EnableRemoveDownReplica},
		{&sc.DisableReplaceOfflineReplica, &sc.EnableReplaceOfflineReplica},
		{&sc.DisableMakeUpReplica, &sc.EnableMakeUpReplica},
		{&sc.DisableRemoveExtraReplica, &sc.EnableRemoveExtraReplica},
		{&sc.DisableLocationReplacement, &sc.EnableLocationReplacement},
	} {
		if *p[0] {
			*p[0], *p[1] = false, false
		}
	}
	pd := v.pd.Clone()
	pd.TraceRegionFlow = false
	n := *v
	n.sched, n.pd = sc, pd
	return n.snap()
}

// ---------------------------------------------------------------- domains (from the statement)

var knownSchedulerTypes = map[string]bool{
	"balance-leader": true, "balance-region": true, "hot-region": true, "label": true,
	"evict-leader": true, "grant-leader": true, "random-merge": true, "scatter-range": true,
	"shuffle-hot-region": true, "shuffle-leader": true, "shuffle-region": true,
}

func scheduleDomain(c *config.ScheduleConfig) string {
	in01 := func(x float64) bool { return x >= 0 && x <= 1 }
	switch {
	case !in01(c.LowSpaceRatio):
		return "low-space-ratio-outside-0-1"
	case !in01(c.HighSpaceRatio):
		return "high-space-ratio-outside-0-1"
	case !(c.LowSpaceRatio > c.HighSpaceRatio):
		return "low-space-ratio-not-above-high"
	case c.TolerantSizeRatio < 0:
		return "negative-tolerant-size-ratio"
	}
	for _, s := range c.Schedulers {
		if !knownSchedulerTypes[s.Type] {
			return "unregistered-scheduler-type"
		}
	}
	return ""
}

func replicationDomain(c *config.ReplicationConfig) string {
	if c.IsolationLevel == "" {
		return ""
	}
	for _, l := range c.LocationLabels {
		if l == c.IsolationLevel {
			return ""
		}
	}
	return "isolation-level-not-a-location-label"
}

func pdServerDomain(c *config.PDServerConfig) string {
	if c.FlowRoundByDigit < 0 {
		return "negative-flow-round-by-digit"
	}
	return ""
}

func modeDomain(c *config.ReplicationModeConfig) string {
	switch strings.ReplaceAll(strings.ToLower(c.ReplicationMode), "_", "-") {
	case "majority", "dr-auto-sync":
		return ""
	}
	return "invalid-replication-mode"
}

func versionDomain(v string) (string, *semver.Version) {
	if v == "" {
		return "", nil // accepted for compatibility with clusters without versions; no expectation
	}
	p, err := semver.NewVersion(strings.TrimPrefix(v, "v"))
	if err != nil {
		return "invalid-cluster-version", nil
	}
	return "", p
}

// ---------------------------------------------------------------- operations

type fault struct {
	from       int // 0 = no failure
	persistent bool
}

func (f fault) String() string {
	if f.from == 0 {
		return ""
	}
	s := fmt.Sprintf(" !write%d", f.from)
	if f.persistent {
		s += "+"
	}
	return s
}

type op struct {
	setter string
	value  string
	sec    int
	bad    string // the domain clause of the statement the value violates ("" = none)
	flt    fault
	// call performs the request with private copies of the value.
	call func(s *srvh.Srv) error
	// expect renders the section as it must be served once the request is accepted
	// ("" = no expectation beyond durability).
	expect func(before *values) string
	// label operations, for the classification of a wrong rollback
	typ, key, val string
	// requested replication config, for the classification of the rule rollback
	repl *config.ReplicationConfig
}

func (o *op) name() string {
	return fmt.Sprintf("%s(%s)%s", o.setter, o.value, o.flt)
}

type model struct {
	// terminal: the history left the fault model of the statement (storage kept failing, so a
	// written configuration could not be taken back); it is not extended any further.
	terminal bool
	st       *fakeetcd.Store
	s        *srvh.Srv
	kv       *faultKV
	ops      []*op
	init     *values
	// state captured after boot
	cfgKey    string
	ruleInit  string
	dirtyRule bool
	dirtyMode bool
	// the search replays an already checked prefix before every new operation: the
	// prefix (announced through Possible) is applied without re-evaluating the oracle
	skip, applied int
}

// Possible implements hist.Prefilter; it never prunes, it only learns the prefix length.
func (m *model) Possible(history []int, _ int) bool {
	m.skip = len(history)
	return true
}

func boot() *model {
	vclock.Enable(vclock.Epoch)
	m := &model{st: fakeetcd.New()}
	srvh.SeedClusterID(m.st)
	s, err := srvh.New(m.st, 1, func(c *config.Config) { c.LeaderLease = 1000000 })
	if err != nil {
		panic(err)
	}
	m.s = s
	s.GetClient().Cluster = noCluster{}
	stg := s.GetStorage()
	m.kv = &faultKV{Base: stg.Base}
	stg.Base = m.kv
	if err := s.VerifBecomeLeader(); err != nil {
		panic(err)
	}
	if _, err := s.Bootstrap(context.Background(), s.BootstrapReq(1, 2, 3, "127.0.0.1:1")); err != nil {
		panic(err)
	}
	if s.GetRaftCluster() == nil {
		panic("cluster not running after bootstrap")
	}
	m.init = served(s)
	// bootstrap persists no configuration: the histories start with an empty config key
	m.cfgKey = srvh.Root + "/config"
	if v, ok := m.st.Get(m.cfgKey); ok {
		panic("unexpected persisted configuration after bootstrap: " + v)
	}
	m.ruleInit = m.rule()
	if m.ruleInit == "nil" {
		panic("no default placement rule after bootstrap")
	}
	return m
}

// rule renders the default placement rule, which mirrors max-replicas / location-labels
// of the replication configuration while placement rules are enabled.
func (m *model) rule() string {
	r := m.s.GetRaftCluster().GetRuleManager().GetRule("pd", "default")
	if r == nil {
		return "nil"
	}
	return r.String()
}

func hasRuleWrite(l []string) bool {
	for _, k := range l {
		if strings.HasPrefix(k, "rules/") {
			return true
		}
	}
	return false
}

// storedRule is the default placement rule a restarted PD would load.
func (m *model) storedRule() string {
	out := "nil"
	m.s.GetStorage().LoadRules(func(k, v string) {
		var r placement.Rule
		if json.Unmarshal([]byte(v), &r) == nil && r.GroupID == "pd" && r.ID == "default" {
			out = r.String()
		}
	})
	return out
}

func (m *model) modeManager() string {
	st := m.s.GetRaftCluster().GetReplicationMode().GetReplicationStatusHTTP()
	return st.Mode + "/" + st.DrAutoSync.LabelKey
}

func (m *model) Reset() {
	m.terminal = false
	m.applied = 0
	m.kv.disarm()
	o := m.s.GetPersistOptions()
	o.SetScheduleConfig(m.init.sched.Clone())
	o.SetReplicationConfig(m.init.repl.Clone())
	o.SetPDServerConfig(m.init.pd.Clone())
	o.SetLabelPropertyConfig(m.init.label.Clone())
	v := m.init.ver
	o.SetClusterVersion(&v)
	o.SetReplicationModeConfig(m.init.mode.Clone())
	m.st.DeleteDirect(m.cfgKey)
	if m.dirtyRule {
		var r placement.Rule
		if err := json.Unmarshal([]byte(m.ruleInit), &r); err != nil {
			panic(err)
		}
		if err := m.s.GetRaftCluster().GetRuleManager().SetRule(&r); err != nil {
			panic(err)
		}
		if got := m.rule(); got != m.ruleInit {
			panic("cannot restore the default rule: " + got + " vs " + m.ruleInit)
		}
		m.dirtyRule = false
	}
	if m.dirtyMode {
		if err := m.s.GetRaftCluster().GetReplicationMode().UpdateConfig(*m.init.mode.Clone()); err != nil {
			panic(err)
		}
		for _, e := range m.st.Dump() {
			if strings.HasPrefix(e[0], srvh.Root+"/replication_mode/") {
				m.st.DeleteDirect(e[0])
			}
		}
		m.dirtyMode = false
	}
}

func (m *model) NumOps() int         { return len(m.ops) }
func (m *model) OpName(i int) string { return m.ops[i].name() }
func (m *model) Enabled(int) bool    { return !m.terminal }

func (m *model) Key() string {
	if os.Getenv("C18_RAWKEY") != "" {
		_, p := m.st.Get(m.cfgKey)
		return fmt.Sprint(served(m.s).snap(), m.rule(), m.modeManager(), p)
	}
	h := sha1.New()
	for _, s := range served(m.s).snap() {
		h.Write([]byte(s))
		h.Write([]byte{0})
	}
	h.Write([]byte(m.rule()))
	h.Write([]byte{0})
	h.Write([]byte(m.modeManager()))
	if _, persisted := m.st.Get(m.cfgKey); persisted {
		h.Write([]byte{1})
	}
	return hex.EncodeToString(h.Sum(nil))
}

func hasLabel(c config.LabelPropertyConfig, typ, k, v string) bool {
	for _, l := range c[typ] {
		if l.Key == k && l.Value == v {
			return true
		}
	}
	return false
}

func withLabel(c config.LabelPropertyConfig, typ, k, v string) config.LabelPropertyConfig {
	c = c.Clone()
	if !hasLabel(c, typ, k, v) {
		c[typ] = append(c[typ], config.StoreLabel{Key: k, Value: v})
	}
	return c
}

func withoutLabel(c config.LabelPropertyConfig, typ, k, v string) config.LabelPropertyConfig {
	c = c.Clone()
	if _, ok := c[typ]; !ok {
		return c
	}
	kept := []config.StoreLabel{}
	for _, l := range c[typ] {
		if !(l.Key == k && l.Value == v) {
			kept = append(kept, l)
		}
	}
	c[typ] = kept
	if len(kept) == 0 {
		delete(c, typ)
	}
	return c
}

func sameLabelSets(a, b config.LabelPropertyConfig) bool {
	if len(a) != len(b) {
		return false
	}
	for t, la := range a {
		lb, ok := b[t]
		if !ok || len(la) != len(lb) {
			return false
		}
		for _, l := range la {
			if !hasLabel(b, t, l.Key, l.Value) {
				return false
			}
		}
	}
	return true
}

func eqLabels(a, b []string) bool {
	if len(a) != len(b) {
		return false
	}
	for i := range a {
		if a[i] != b[i] {
			return false
		}
	}
	return true
}

func has(l []string, prefix string) bool {
	for _, k := range l {
		if strings.HasPrefix(k, prefix) {
			return true
		}
	}
	return false
}

// rollbackKey names a wrong state after a rejected request as precisely as possible.
func (m *model) rollbackKey(o *op, before, after *values, injected bool) string {
	if !injected {
		return "rejected-request-changed-config-" + o.setter
	}
	switch o.setter {
	case "SetLabelProperty":
		if hasLabel(before.label, o.typ, o.key, o.val) && js(after.label) == js(withoutLabel(before.label, o.typ, o.key, o.val)) {
			return "rollback-SetLabelProperty-removes-existing-label"
		}
	case "DeleteLabelProperty":
		if !hasLabel(before.label, o.typ, o.key, o.val) && js(after.label) == js(withLabel(before.label, o.typ, o.key, o.val)) {
			return "rollback-DeleteLabelProperty-adds-absent-label"
		}
		if hasLabel(before.label, o.typ, o.key, o.val) && sameLabelSets(before.label, after.label) {
			return "rollback-DeleteLabelProperty-reorders-labels"
		}
	}
	return "rollback-" + o.setter
}

func (m *model) Apply(i int) *hist.Violation {
	o := m.ops[i]
	if o.setter == "SetReplicationConfig" {
		m.dirtyRule = true
	}
	if o.setter == "SetReplicationModeConfig" {
		m.dirtyMode = true
	}
	m.applied++
	if m.applied <= m.skip {
		m.kv.arm(o.flt)
		err := o.call(m.s)
		failed, written := m.kv.disarm()
		if err != nil && ((has(written, "config") && has(failed, "config")) || (has(failed, "config") && hasRuleWrite(failed))) {
			m.terminal = true // see below: the history left the fault model
		}
		return nil
	}
	before := served(m.s)
	bs := before.snap()
	ruleBefore := m.rule()
	for _, s := range bs {
		if strings.HasPrefix(s, "!unmarshalable") {
			return &hist.Violation{Key: "served-config-not-serialisable", Msg: fmt.Sprintf("before %s: %v", o.name(), bs)}
		}
	}
	m.kv.arm(o.flt)
	err := o.call(m.s)
	failed, written := m.kv.disarm()
	if err != nil && has(written, "config") && has(failed, "config") {
		m.terminal = true // storage kept failing: outside the fault model, do not extend
	}
	if err != nil && has(failed, "config") && hasRuleWrite(failed) {
		// The config write failed and the write that takes the default rule back failed as well
		// (storage stays down): the rule manager keeps memory and storage equal, so the rule cannot
		// be rolled back. Outside "a storage failure at the write": not held against pd, not extended.
		m.terminal = true
		return nil
	}
	after := served(m.s)
	as := after.snap()
	ruleAfter := m.rule()
	injected := len(failed) > 0
	ctx := fmt.Sprintf("%s returned err=%v (failed writes %v, completed writes %v)", o.name(), err, failed, written)
	bad := func(key, f string, a ...interface{}) *hist.Violation {
		return &hist.Violation{Key: key, Msg: ctx + ": " + fmt.Sprintf(f, a...)}
	}

	// 1. values outside their domains are never accepted
	if o.bad != "" && err == nil {
		return bad("accepted-invalid-"+o.setter+"-"+o.bad, "the value violates the domain clause %q of the statement and was accepted; served now\n    %s", o.bad, bs.diff(as))
	}
	// 2. a storage failure at the write of the configuration rejects the change
	if err == nil && has(failed, "config") {
		return bad("storage-failure-accepted-"+o.setter, "the write of the configuration failed but the request was acknowledged")
	}
	if err != nil {
		// 3. a rejected change leaves the served configuration exactly as it was
		if as != bs {
			return bad(m.rollbackKey(o, before, after, injected), "rejected, but the served configuration changed:\n    %s", bs.diff(as))
		}
		if ruleAfter != ruleBefore {
			key := "rollback-SetReplicationConfig-rule"
			if !injected {
				key = "rejected-request-changed-rule-" + o.setter
			} else if o.repl != nil {
				var rb, ra placement.Rule
				json.Unmarshal([]byte(ruleBefore), &rb)
				json.Unmarshal([]byte(ruleAfter), &ra)
				reqLabels := eqLabels(ra.LocationLabels, o.repl.LocationLabels)
				switch {
				case has(failed, "config") && ra.Count == rb.Count && reqLabels:
					key = "rollback-SetReplicationConfig-rule-labels-not-restored"
				case !has(failed, "config") && has(failed, "rules") && ra.Count == int(o.repl.MaxReplicas) && reqLabels:
					key = "rollback-SetReplicationConfig-rule-changed-though-save-failed"
				}
			}
			return bad(key, "rejected, replication config still %s, but the default placement rule that mirrors it changed:\n    %s\n => %s", as[secReplication], ruleBefore, ruleAfter)
		}
	} else {
		// 4. an accepted change is served as requested, nothing else moves
		for s := 0; s < nSec; s++ {
			if s != o.sec && as[s] != bs[s] {
				return bad("other-section-changed-"+o.setter, "accepted, but section %s changed too:\n    %s", secName[s], bs.diff(as))
			}
		}
		if o.expect != nil {
			if want := o.expect(before); want != "" && want != as[o.sec] {
				return bad("accepted-not-applied-"+o.setter, "accepted, but section %s is served as\n    %s\n  requested\n    %s", secName[o.sec], as[o.sec], want)
			}
		}
	}
	// 4b. the default placement rule that carries the replication settings is part of what a
	// newly elected leader reloads: after an accepted change the stored rule is the served one
	if err == nil && !injected && ruleAfter != "nil" {
		if st := m.storedRule(); st != ruleAfter {
			return bad("served-default-rule-not-persisted-"+o.setter, "the default placement rule served is\n    %s\n  but storage holds\n    %s", ruleAfter, st)
		}
	}
	// 5. what a newly elected leader reloads is the served configuration
	fresh := config.NewPersistOptions(m.s.Cfg)
	if rerr := fresh.Reload(m.s.GetStorage()); rerr != nil {
		return bad("reload-error-"+o.setter, "a fresh PersistOptions cannot reload: %v", rerr)
	}
	// Each section must be reloaded as served, or as served with the documented normalisation.
	got, want := ofOptions(fresh).snap(), reloadNormalised(after)
	if _, ok := m.st.Get(m.cfgKey); !ok {
		// nothing was ever persisted: the new leader keeps the configuration it was started
		// with (the same file as the old leader's), which must still be what is served
		want = as
	}
	for s := 0; s < nSec; s++ {
		if got[s] == as[s] {
			want[s] = as[s]
		}
	}
	if got != want {
		key := "reload-differs-after-accepted-" + o.setter
		if err != nil {
			key = "reload-differs-after-rejected-" + o.setter
			if has(written, "config") && has(failed, "config") {
				// The configuration was written, a later step failed and the write that takes it back
				// failed too (storage stays down). The statement only requires that the *served*
				// configuration is unchanged after a rejected change (checked above); with the storage
				// still failing nothing can be written back, so this is not held against pd.
				m.terminal = true
				return nil
			}
		}
		return bad(key, "a newly elected leader reloads a configuration that is not the served one (served, normalised => reloaded):\n    %s", want.diff(got))
	}
	return nil
}

// ---------------------------------------------------------------- alphabet

type alphabet struct {
	m    *model
	full bool
}

func (a *alphabet) add(o *op, faults ...fault) {
	a.m.ops = append(a.m.ops, o)
	if o.bad != "" {
		return // never reaches the write
	}
	for _, f := range faults {
		c := *o
		c.flt = f
		a.m.ops = append(a.m.ops, &c)
	}
}

var (
	w1     = fault{from: 1}
	w2     = fault{from: 2}
	w2plus = fault{from: 2, persistent: true}
)

func (a *alphabet) schedule(name string, mod func(*config.ScheduleConfig), faults ...fault) {
	gen := func() *config.ScheduleConfig { c := a.m.init.sched.Clone(); mod(c); return c }
	a.add(&op{setter: "SetScheduleConfig", value: name, sec: secSchedule, bad: scheduleDomain(gen()),
		call:   func(s *srvh.Srv) error { return s.SetScheduleConfig(*gen()) },
		expect: func(*values) string { c := gen(); c.SchedulersPayload = nil; return js(c) },
	}, faults...)
}

func (a *alphabet) replication(name string, mod func(*config.ReplicationConfig), faults ...fault) {
	gen := func() *config.ReplicationConfig { c := a.m.init.repl.Clone(); mod(c); return c }
	a.add(&op{setter: "SetReplicationConfig", value: name, sec: secReplication, bad: replicationDomain(gen()), repl: gen(),
		call:   func(s *srvh.Srv) error { return s.SetReplicationConfig(*gen()) },
		expect: func(*values) string { return js(gen()) },
	}, faults...)
}

func (a *alphabet) pdServer(name string, mod func(*config.PDServerConfig), faults ...fault) {
	gen := func() *config.PDServerConfig { c := a.m.init.pd.Clone(); mod(c); return c }
	a.add(&op{setter: "SetPDServerConfig", value: name, sec: secPDServer, bad: pdServerDomain(gen()),
		call: func(s *srvh.Srv) error {
			membersListed = true
			defer func() { membersListed = false }()
			return s.SetPDServerConfig(*gen())
		},
		expect: func(*values) string {
			c := gen()
			if d := c.DashboardAddress; d != "auto" && d != "none" && !strings.HasPrefix(d, "http") {
				c.DashboardAddress = "http://" + d // documented: the client scheme is prepended
			}
			return js(c)
		},
	}, faults...)
}

func (a *alphabet) mode(name string, mod func(*config.ReplicationModeConfig), faults ...fault) {
	gen := func() *config.ReplicationModeConfig { c := a.m.init.mode.Clone(); mod(c); return c }
	a.add(&op{setter: "SetReplicationModeConfig", value: name, sec: secMode, bad: modeDomain(gen()),
		call:   func(s *srvh.Srv) error { return s.SetReplicationModeConfig(*gen()) },
		expect: func(*values) string { return js(gen()) },
	}, faults...)
}

func (a *alphabet) labelConfig(name string, c config.LabelPropertyConfig, faults ...fault) {
	a.add(&op{setter: "SetLabelPropertyConfig", value: name, sec: secLabel,
		call:   func(s *srvh.Srv) error { return s.SetLabelPropertyConfig(c.Clone()) },
		expect: func(*values) string { return js(c) },
	}, faults...)
}

func (a *alphabet) label(del bool, typ, k, v string, faults ...fault) {
	o := &op{setter: "SetLabelProperty", value: typ + "," + k + "=" + v, sec: secLabel, typ: typ, key: k, val: v,
		call:   func(s *srvh.Srv) error { return s.SetLabelProperty(typ, k, v) },
		expect: func(b *values) string { return js(withLabel(b.label, typ, k, v)) },
	}
	if del {
		o.setter = "DeleteLabelProperty"
		o.call = func(s *srvh.Srv) error { return s.DeleteLabelProperty(typ, k, v) }
		o.expect = func(b *values) string { return js(withoutLabel(b.label, typ, k, v)) }
	}
	a.add(o, faults...)
}

func (a *alphabet) version(v string, faults ...fault) {
	bad, parsed := versionDomain(v)
	a.add(&op{setter: "SetClusterVersion", value: strconv.Quote(v), sec: secVersion, bad: bad,
		call: func(s *srvh.Srv) error { return s.SetClusterVersion(v) },
		expect: func(*values) string {
			if parsed == nil {
				return ""
			}
			return js(parsed)
		},
	}, faults...)
}

func sched(types ...string) config.SchedulerConfigs {
	var l config.SchedulerConfigs
	for _, t := range types {
		c := config.SchedulerConfig{Type: strings.TrimSuffix(t, "!")}
		c.Disable = strings.HasSuffix(t, "!")
		if c.Type == "evict-leader" {
			c.Args = []string{"1"}
		}
		l = append(l, c)
	}
	return l
}

func newModel(full bool) *model {
	m := boot()
	a := &alphabet{m: m, full: full}
	S, R, P, M := a.schedule, a.replication, a.pdServer, a.mode
	type sc = config.ScheduleConfig
	type rc = config.ReplicationConfig
	type pc = config.PDServerConfig
	type mc = config.ReplicationModeConfig
	ratios := func(low, high, tol float64) func(*sc) {
		return func(c *sc) { c.LowSpaceRatio, c.HighSpaceRatio, c.TolerantSizeRatio = low, high, tol }
	}
	nan, inf := math.NaN(), math.Inf(1)

	// ---- scheduling: valid values
	S("initial", func(*sc) {}, w1)
	S("low=.9,high=.6,tol=2.5,limits", func(c *sc) {
		ratios(0.9, 0.6, 2.5)(c)
		c.MaxSnapshotCount, c.LeaderScheduleLimit, c.EnableOneWayMerge = 5, 8, true
		c.MaxStoreDownTime = typeutil.NewDuration(3600e9)
		c.StoreLimit = map[uint64]config.StoreLimitConfig{1: {AddPeer: 5, RemovePeer: 6}, 2: {AddPeer: 1, RemovePeer: 1}}
	}, w1)
	S("low=1,high=0,tol=0", ratios(1, 0, 0), w1)
	S("schedulers=[balance-region,shuffle-leader!]", func(c *sc) { c.Schedulers = sched("balance-region", "shuffle-leader!") }, w1)
	S("schedulers=[]", func(c *sc) { c.Schedulers = config.SchedulerConfigs{} }, w1)
	// ---- scheduling: every boundary of the statement
	S("low=-0.01", ratios(-0.01, -0.5, 0))
	S("low=1.01", ratios(1.01, 0.7, 0))
	S("high=-0.01", ratios(0.8, -0.01, 0))
	S("high=1.01,low=1", ratios(1, 1.01, 0))
	S("low=high=.7", ratios(0.7, 0.7, 0))
	S("low=.5<high=.7", ratios(0.5, 0.7, 0))
	S("tol=-0.1", ratios(0.8, 0.7, -0.1))
	S("low=NaN", ratios(nan, 0.7, 0))
	S("schedulers=[balance-region,no-such-scheduler]", func(c *sc) { c.Schedulers = sched("balance-region", "no-such-scheduler") })
	// ---- scheduling: deprecated flag (any outcome, but atomic and durable)
	S("disable-raft-learner", func(c *sc) { c.DisableLearner = true }, w1)
	// switches whose default is true, switched off (a zero value that must survive persist and reload)
	S("switches-off", func(c *sc) {
		c.EnableJointConsensus, c.EnableCrossTableMerge, c.EnableRemoveDownReplica, c.EnableReplaceOfflineReplica = false, false, false, false
		c.EnableMakeUpReplica, c.EnableRemoveExtraReplica, c.EnableLocationReplacement = false, false, false
	}, w1)
	if full {
		S("evict-leader,hot-region!,payload", func(c *sc) {
			c.Schedulers = sched("evict-leader", "hot-region!", "balance-leader")
			c.SchedulersPayload = map[string]interface{}{"x": 1}
		}, w1)
		S("low=.0001,high=0", ratios(0.0001, 0, 0), w1)
		S("high=NaN", ratios(0.8, nan, 0))
		S("tol=NaN", ratios(0.8, 0.7, nan), w1)
		S("tol=+Inf", ratios(0.8, 0.7, inf), w1)
		S("low=+Inf", ratios(inf, 0.7, 0))
		S("high=1,low=1", ratios(1, 1, 0))
		S("low=0,high=0", ratios(0, 0, 0))
		S("tol=-1e-300", ratios(0.8, 0.7, -1e-300))
		S("schedulers=[\"\"]", func(c *sc) { c.Schedulers = sched("") })
		S("schedulers=[Balance-Region]", func(c *sc) { c.Schedulers = sched("Balance-Region") })
		S("store-balance-rate=10", func(c *sc) { c.StoreBalanceRate = 10 }, w1)
		S("disable-make-up-replica", func(c *sc) { c.DisableMakeUpReplica = true }, w1)
	}

	// ---- replication (placement rules are on initially: the default rule mirrors the config)
	rep := func(n uint64, iso string, rules bool, labels ...string) func(*rc) {
		return func(c *rc) {
			c.MaxReplicas, c.IsolationLevel, c.EnablePlacementRules, c.LocationLabels = n, iso, rules, typeutil.StringSlice(labels)
		}
	}
	R("initial", func(*rc) {}, w1)
	R("5,[zone,rack],iso=zone", rep(5, "zone", true, "zone", "rack"), w1, w2, w2plus)
	R("3,[zone]", rep(3, "", true, "zone"), w1, w2, w2plus)
	R("1,[]", rep(1, "", true), w1, w2, w2plus)
	R("3,[],rules-off", rep(3, "", false), w1)
	R("5,[zone,rack],iso=rack,rules-off,strict", func(c *rc) { rep(5, "rack", false, "zone", "rack")(c); c.StrictlyMatchLabel = true }, w1)
	R("iso=host,[zone,rack]", rep(3, "host", true, "zone", "rack"))
	R("iso=zone,[]", rep(3, "zone", true))
	R("iso=Zone,[zone]", rep(3, "Zone", false, "zone"))
	if full {
		R("3,[zone,rack,host],iso=host", rep(3, "host", true, "zone", "rack", "host"), w1, w2, w2plus)
		R("5,[]", rep(5, "", true), w1, w2, w2plus)
		R("iso=' ',[zone]", rep(3, " ", true, "zone"))
		R("iso=rack,[zone],rules-off", rep(5, "rack", false, "zone"))
		R("label='zo ne?'", rep(3, "", true, "zo ne?"), w1)
	}

	// ---- pd-server
	P("initial", func(*pc) {}, w1)
	P("raw,digit=0,dashboard=none", func(c *pc) { c.KeyType, c.FlowRoundByDigit, c.DashboardAddress = "raw", 0, "none" }, w1)
	P("digit=127,trace=false,metric", func(c *pc) {
		c.FlowRoundByDigit, c.TraceRegionFlow, c.MetricStorage = 127, false, "http://prom:9090"
		c.MaxResetTSGap = typeutil.NewDuration(3600e9)
	}, w1)
	P("digit=-1", func(c *pc) { c.FlowRoundByDigit = -1 })
	P("digit=-1,dashboard=http://9.9.9.9:1", func(c *pc) { c.FlowRoundByDigit, c.DashboardAddress = -1, "http://9.9.9.9:1" })
	P("dashboard=self", func(c *pc) { c.DashboardAddress = selfURL }, w1)
	P("digit=-1,dashboard=self", func(c *pc) { c.FlowRoundByDigit, c.DashboardAddress = -1, selfURL })
	P("digit=-1,dashboard=none", func(c *pc) { c.FlowRoundByDigit, c.DashboardAddress = -1, "none" })
	P("dashboard=http://9.9.9.9:1", func(c *pc) { c.DashboardAddress = "http://9.9.9.9:1" }, w1)
	if full {
		P("digit=minint", func(c *pc) { c.FlowRoundByDigit = math.MinInt64 })
		P("digit=-1,trace=false", func(c *pc) { c.FlowRoundByDigit, c.TraceRegionFlow = -1, false })
		P("digit=5,services", func(c *pc) { c.FlowRoundByDigit, c.RuntimeServices = 5, typeutil.StringSlice{"a", "b"} }, w1)
		P("dashboard=9.9.9.9:1", func(c *pc) { c.DashboardAddress = "9.9.9.9:1" }, w1)
	}

	// ---- label properties
	a.labelConfig("{}", config.LabelPropertyConfig{}, w1)
	a.labelConfig("{reject-leader:[zone=z1,zone=z2]}", config.LabelPropertyConfig{"reject-leader": {{Key: "zone", Value: "z1"}, {Key: "zone", Value: "z2"}}}, w1)
	for _, l := range [][3]string{{"reject-leader", "zone", "z1"}, {"reject-leader", "zone", "z2"}, {"other", "host", "h1"}} {
		if l[0] == "other" && !full {
			continue
		}
		a.label(false, l[0], l[1], l[2], w1)
		a.label(true, l[0], l[1], l[2], w1)
	}
	if full {
		a.labelConfig("{reject-leader:[zone=z2],other:[host=h1]}", config.LabelPropertyConfig{"reject-leader": {{Key: "zone", Value: "z2"}}, "other": {{Key: "host", Value: "h1"}}}, w1)
	}

	// ---- cluster version
	a.version("4.0.0", w1)
	a.version("v5.0.0", w1)
	a.version("abc")
	a.version("5.x.0")
	a.version("", w1)
	if full {
		a.version("5.0.0-alpha", w1)
		a.version("1.2")
		a.version("v")
		a.version("5.0.0.0")
	}

	// ---- replication mode (the mode manager of the running cluster writes its own state:
	// config, DR state, and the config again when the DR state cannot be written)
	dr := func(mode, key string) func(*mc) {
		return func(c *mc) {
			c.ReplicationMode = mode
			c.DRAutoSync.LabelKey, c.DRAutoSync.Primary, c.DRAutoSync.DR = key, "z1", "z2"
			c.DRAutoSync.PrimaryReplicas, c.DRAutoSync.DRReplicas = 2, 1
		}
	}
	M("majority", func(*mc) {}, w1)
	M("dr-auto-sync,zone", dr("dr-auto-sync", "zone"), w1, w2, w2plus)
	M("dr-auto-sync,rack", dr("dr-auto-sync", "rack"), w1, w2, w2plus)
	M("''", func(c *mc) { c.ReplicationMode = "" })
	M("raft", func(c *mc) { c.ReplicationMode = "raft" })
	if full {
		M("DR_AUTO_SYNC,zone", dr("DR_AUTO_SYNC", "zone"), w1, w2, w2plus)
		M("Majority,primary", func(c *mc) { c.ReplicationMode = "Majority"; c.DRAutoSync.Primary = "p" }, w1)
		M("dr-auto", func(c *mc) { c.ReplicationMode = "dr-auto" })
		M("sync", dr("sync", "zone"))
	}
	if os.Getenv("C18_LISTOPS") != "" {
		for i := range m.ops {
			fmt.Fprintf(os.Stderr, "%d\t%s\n", i, m.OpName(i))
		}
		os.Exit(0)
	}
	return m
}

func main() {
	defer srvh.Cleanup()
	hist.Main(&hist.Config{
		Property: "C18",
		Scopes: []*hist.Scope{
			{Name: "setters", Tiers: "quick", Depth: 3, NewModel: func() hist.Model { return newModel(true) }},
			{Name: "setters@4", Tiers: "thorough", Depth: 4, NewModel: func() hist.Model { return newModel(true) }},
			{Name: "setters/core@5", Tiers: "thorough", Depth: 5, NewModel: func() hist.Model { return newModel(false) }},
		},
		Rule: "breadth-first over all sequences of the eight configuration setters of the real Server (values: valid ones, every domain boundary of the statement, deprecated flags) x storage fault (none / k-th write of the call fails / storage down from the k-th write on); states deduplicated by the served configuration + default placement rule + mode manager + whether a configuration was ever persisted; after every call: out-of-domain never accepted, rejected => every Get*Config and the default rule byte-identical, accepted => requested section served and no other section moved, and a fresh PersistOptions.Reload from the same storage equals the served configuration modulo the documented normalisation",
		Assumptions: []string{
			"real Server composed by the verif hooks on the fake etcd, leader, bootstrapped cluster (rule manager and replication mode manager running); reused across histories, Reset restores the options, the stored configuration, the default rule and the mode manager",
			"storage failures are injected at kv.Base of the server's storage (Save/Remove of the calling goroutine)",
			"the fake etcd has no membership API: no dashboard address is a member URL, DR status files are not replicated (pd ignores that error)",
			"reload normalisation written from the statement: missing default schedulers appended, deprecated flags cleared",
			"time in server and server/cluster is virtual and never advanced, so the coordinator never starts schedulers behind the check's back",
		},
	})
}
