// Check C20: a cluster is bootstrapped exactly once and keeps one identity.
package main

import (
	"os"
	"reflect"
	"io"
	"google.golang.org/grpc"
	"context"
	"fmt"
	"sort"
	"strings"

	"github.com/pingcap/kvproto/pkg/metapb"
	"github.com/pingcap/kvproto/pkg/pdpb"
	"github.com/tikv/pd/pkg/typeutil"
	"github.com/tikv/pd/server/core"
	"github.com/tikv/pd/pkg/verifshim/sched"
	"github.com/tikv/pd/pkg/verifshim/vclock"
	"verif/checks/srvh"
	"verif/engine/explore"
	"verif/engine/fakeetcd"
)

type res struct {
	who  string
	srv  *srvh.Srv
	req  *pdpb.BootstrapRequest
	ok   bool
	err  string
	kind string
}

type world struct {
	st   *fakeetcd.Store
	srvs []*srvh.Srv
	out  []res
}

func (w *world) bootstrap(s *srvh.Srv, who string, req *pdpb.BootstrapRequest, kind string) {
	resp, err := s.Bootstrap(context.Background(), req)
	r := res{who: who, srv: s, req: req, kind: kind}
	switch {
	case err != nil:
		r.err = err.Error()
	case resp.GetHeader().GetError() != nil:
		r.err = resp.GetHeader().GetError().String()
	default:
		r.ok = true
	}
	w.out = append(w.out, r)
}

func clusterKeys(st *fakeetcd.Store) map[string]string {
	m := map[string]string{}
	for _, kv := range st.Dump() {
		k := kv[0]
		if k == srvh.Root+"/raft" || strings.HasPrefix(k, srvh.Root+"/raft/s/") || strings.HasPrefix(k, srvh.Root+"/raft/r/") || k == srvh.Root+"/raft/status/raft_bootstrap_time" {
			m[k] = kv[1]
		}
	}
	return m
}

func (w *world) check(r *sched.Run) (string, *explore.Violation) {
	defer func() {
		for _, s := range w.srvs {
			s.Close()
		}
	}()
	var winners []res
	for _, x := range w.out {
		if x.ok {
			winners = append(winners, x)
			if x.kind != "valid" {
				return "", &explore.Violation{Key: "malformed-accepted", Msg: fmt.Sprintf("malformed bootstrap request (%s) by %s succeeded", x.kind, x.who)}
			}
		}
	}
	valid := 0
	for _, x := range w.out {
		if x.kind == "valid" {
			valid++
		}
	}
	if valid > 0 && len(winners) != 1 {
		var l []string
		for _, x := range w.out {
			l = append(l, fmt.Sprintf("%s:%v:%s", x.who, x.ok, x.err))
		}
		return "", &explore.Violation{Key: fmt.Sprintf("winners-%d", len(winners)), Msg: fmt.Sprintf("%d bootstrap requests succeeded, want exactly 1: %s", len(winners), strings.Join(l, " | "))}
	}
	keys := clusterKeys(w.st)
	// what a restarted / newly elected leader would load as regions (region storage included)
	for _, s := range w.srvs {
		var loaded []uint64
		s.GetStorage().LoadRegions(func(r *core.RegionInfo) []*core.RegionInfo {
			loaded = append(loaded, r.GetID())
			return nil
		})
		for _, id := range loaded {
			if len(winners) != 1 || id != winners[0].req.GetRegion().GetId() {
				return "", &explore.Violation{Key: "refused-region-in-storage", Msg: fmt.Sprintf("server %d would load region %d from its region storage, which does not come from the winning bootstrap request (winners: %d)", s.ID, id, len(winners))}
			}
		}
	}
	if len(winners) == 1 {
		win := winners[0]
		sv, _ := win.req.Store.Marshal()
		rv, _ := win.req.Region.Marshal()
		wantStore := fmt.Sprintf("%s/raft/s/%020d", srvh.Root, win.req.Store.Id)
		wantRegion := fmt.Sprintf("%s/raft/r/%020d", srvh.Root, win.req.Region.Id)
		if keys[wantStore] != string(sv) {
			return "", &explore.Violation{Key: "stored-store-not-winner", Msg: fmt.Sprintf("store record %s is not the winner's (%s)", wantStore, win.who)}
		}
		if keys[wantRegion] != string(rv) {
			return "", &explore.Violation{Key: "stored-region-not-winner", Msg: fmt.Sprintf("region record %s is not the winner's (%s)", wantRegion, win.who)}
		}
		var cm metapb.Cluster
		if err := cm.Unmarshal([]byte(keys[srvh.Root+"/raft"])); err != nil || cm.Id != srvh.ClusterID {
			return "", &explore.Violation{Key: "cluster-meta", Msg: "stored cluster meta missing or wrong id"}
		}
		if _, ok := keys[srvh.Root+"/raft/status/raft_bootstrap_time"]; !ok {
			return "", &explore.Violation{Key: "bootstrap-time", Msg: "bootstrap time not stored"}
		}
		for k := range keys {
			if (strings.HasPrefix(k, srvh.Root+"/raft/s/") && k != wantStore) || (strings.HasPrefix(k, srvh.Root+"/raft/r/") && k != wantRegion) {
				return "", &explore.Violation{Key: "loser-left-data", Msg: fmt.Sprintf("record %s does not come from the winning request of %s", k, win.who)}
			}
		}
		// one record per key: the cluster keys were written exactly once
		cnt := map[string]int{}
		for _, e := range w.st.Log {
			if _, ok := keys[e.Key]; ok {
				cnt[e.Key]++
			}
		}
		for k, n := range cnt {
			if n != 1 && !strings.Contains(k, "/s/") {
				return "", &explore.Violation{Key: "rewritten", Msg: fmt.Sprintf("key %s was written %d times", k, n)}
			}
		}
		// the server that performed the winning bootstrap, while it is still the leader,
		// must report the cluster as bootstrapped
		for _, s := range w.srvs {
			if s.VerifMember().IsLeader() && win.srv == s {
				resp, err := s.IsBootstrapped(context.Background(), &pdpb.IsBootstrappedRequest{Header: s.Header()})
				if err != nil || !resp.GetBootstrapped() {
					return "", &explore.Violation{Key: "is-bootstrapped", Msg: fmt.Sprintf("IsBootstrapped on leader %d says false after a successful bootstrap (%v)", s.ID, err)}
				}
				// a timestamp stream: every request carries the cluster id, also the later ones
				for _, ids := range [][]uint64{{srvh.ClusterID, srvh.ClusterID + 1}, {srvh.ClusterID, 0}, {srvh.ClusterID + 1}, {srvh.ClusterID, srvh.ClusterID, srvh.ClusterID - 1}} {
					fs := &tsoStream{ctx: context.Background()}
					for _, id := range ids {
						fs.in = append(fs.in, &pdpb.TsoRequest{Header: &pdpb.RequestHeader{ClusterId: id}, Count: 1, DcLocation: "global"})
					}
					err := s.Tso(fs)
					wantOK := 0
					for _, id := range ids {
						if id != srvh.ClusterID {
							break
						}
						wantOK++
					}
					if err == nil || len(fs.out) > wantOK {
						return "", &explore.Violation{Key: "foreign-cluster-id-accepted", Msg: fmt.Sprintf("a timestamp stream with cluster ids %v (the cluster's id is %d) was answered %d times, error %v", ids, srvh.ClusterID, len(fs.out), err)}
					}
				}
				// a region heartbeat stream: the same for every heartbeat on it
				for _, ids := range [][]uint64{{srvh.ClusterID, srvh.ClusterID + 1}, {srvh.ClusterID, srvh.ClusterID, 0}} {
					hs := &hbStream{ctx: context.Background()}
					for _, id := range ids {
						hs.in = append(hs.in, &pdpb.RegionHeartbeatRequest{Header: &pdpb.RequestHeader{ClusterId: id}, Region: win.req.Region, Leader: win.req.Region.Peers[0]})
					}
					err := s.RegionHeartbeat(hs)
					if os.Getenv("VERIF_C20_DEBUG") != "" {
						fmt.Fprintf(os.Stderr, "hb stream %v -> %v (left %d)\n", ids, err, len(hs.in))
					}
					if err == nil || !strings.Contains(err.Error(), "mismatch cluster id") {
						return "", &explore.Violation{Key: "foreign-cluster-id-accepted", Msg: fmt.Sprintf("a region heartbeat stream with cluster ids %v (the cluster's id is %d) was not ended by a cluster id mismatch (%v)", ids, srvh.ClusterID, err)}
					}
				}
				// every request / response call of the service: a foreign cluster id in the header is
				// refused with the mismatch error whatever the request is about (found by reflection)
				if v := foreignIDEverywhere(s); v != nil {
					return "", v
				}
				// a region synchronisation stream: the same for every request on it
				for _, ids := range [][]uint64{{srvh.ClusterID, srvh.ClusterID + 1}, {srvh.ClusterID + 1}, {srvh.ClusterID, srvh.ClusterID, 0}} {
					ss := &syncStream{ctx: context.Background()}
					for _, id := range ids {
						ss.in = append(ss.in, &pdpb.SyncRegionRequest{Header: &pdpb.RequestHeader{ClusterId: id}, Member: &pdpb.Member{Name: "follower", ClientUrls: []string{"http://127.0.0.1:9"}}, StartIndex: 0})
					}
					err := s.SyncRegions(ss)
					if err == nil || !strings.Contains(err.Error(), "mismatch cluster id") {
						return "", &explore.Violation{Key: "foreign-cluster-id-accepted", Msg: fmt.Sprintf("a region synchronisation stream with cluster ids %v (the cluster's id is %d) was not ended by a cluster id mismatch (%v)", ids, srvh.ClusterID, err)}
					}
				}
				// the cluster keeps its identity: a cluster configuration carrying another cluster
				// id (in the header or in the body) is refused and the stored meta stays as it is
				metaKey := srvh.Root + "/raft"
				stored, _ := w.st.Get(metaKey)
				for _, id := range []uint64{0, 1, srvh.ClusterID + 1, srvh.ClusterID - 1} {
					for _, inBody := range []bool{true, false} {
						req := &pdpb.PutClusterConfigRequest{Header: s.Header(), Cluster: &metapb.Cluster{Id: srvh.ClusterID, MaxPeerCount: 5}}
						where := "header"
						if inBody {
							req.Cluster.Id, where = id, "body"
						} else {
							req.Header = &pdpb.RequestHeader{ClusterId: id}
						}
						resp, err := s.PutClusterConfig(context.Background(), req)
						if err == nil && resp.GetHeader().GetError() == nil {
							return "", &explore.Violation{Key: "foreign-cluster-id-accepted", Msg: fmt.Sprintf("PutClusterConfig carrying cluster id %d in its %s was accepted (the cluster's id is %d)", id, where, srvh.ClusterID)}
						}
						if now, _ := w.st.Get(metaKey); now != stored {
							return "", &explore.Violation{Key: "refused-but-changed", Msg: fmt.Sprintf("a refused PutClusterConfig (cluster id %d in its %s) changed the stored cluster meta", id, where)}
						}
					}
				}
			}
		}
	} else if len(keys) != 0 {
		return "", &explore.Violation{Key: "refused-but-changed", Msg: fmt.Sprintf("no request succeeded but cluster keys exist: %v", keys)}
	}
	var l []string
	for _, x := range w.out {
		l = append(l, fmt.Sprintf("%s=%v", x.who, x.ok))
	}
	sort.Strings(l)
	return strings.Join(l, ","), nil
}

// tsoStream is the server side of a Tso stream fed from a list of requests.
type tsoStream struct {
	grpc.ServerStream
	ctx context.Context
	in  []*pdpb.TsoRequest
	out []*pdpb.TsoResponse
}

func (t *tsoStream) Context() context.Context { return t.ctx }
func (t *tsoStream) Send(r *pdpb.TsoResponse) error {
	t.out = append(t.out, r)
	return nil
}
func (t *tsoStream) Recv() (*pdpb.TsoRequest, error) {
	if len(t.in) == 0 {
		return nil, io.EOF
	}
	r := t.in[0]
	t.in = t.in[1:]
	return r, nil
}

// syncStream is the server side of a SyncRegions stream fed from a list of requests.
type syncStream struct {
	grpc.ServerStream
	ctx context.Context
	in  []*pdpb.SyncRegionRequest
}

func (t *syncStream) Context() context.Context            { return t.ctx }
func (t *syncStream) Send(*pdpb.SyncRegionResponse) error { return nil }
func (t *syncStream) Recv() (*pdpb.SyncRegionRequest, error) {
	if len(t.in) == 0 {
		return nil, io.EOF
	}
	r := t.in[0]
	t.in = t.in[1:]
	return r, nil
}

// foreignIDEverywhere calls every exported method of the server that has the shape of a unary gRPC
// handler (ctx, *Request) (*Response, error) and whose request has a Header, with an otherwise empty
// request carrying a foreign cluster id (id+1, 0): the answer must be the cluster id mismatch.
func foreignIDEverywhere(s *srvh.Srv) (v *explore.Violation) {
	sv := reflect.ValueOf(s.Server)
	ctxT := reflect.TypeOf((*context.Context)(nil)).Elem()
	errT := reflect.TypeOf((*error)(nil)).Elem()
	n := 0
	for i := 0; i < sv.NumMethod(); i++ {
		m, name := sv.Method(i), sv.Type().Method(i).Name
		mt := m.Type()
		if mt.NumIn() != 2 || mt.NumOut() != 2 || mt.In(0) != ctxT || mt.Out(1) != errT || mt.In(1).Kind() != reflect.Ptr {
			continue
		}
		hf, ok := mt.In(1).Elem().FieldByName("Header")
		if !ok || hf.Type != reflect.TypeOf((*pdpb.RequestHeader)(nil)) {
			continue
		}
		if name == "GetMembers" || name == "SyncMaxTS" || name == "GetDCLocationInfo" {
			// GetMembers is the discovery call (answers whoever asks); SyncMaxTS and GetDCLocationInfo are
			// PD-to-PD calls validated by their sender id (validateInternalRequest), not client requests
			continue
		}
		n++
		for _, id := range []uint64{srvh.ClusterID + 1, 0} {
			req := reflect.New(mt.In(1).Elem())
			req.Elem().FieldByName("Header").Set(reflect.ValueOf(&pdpb.RequestHeader{ClusterId: id}))
			var err error
			func() {
				defer func() {
					if p := recover(); p != nil {
						err = fmt.Errorf("panic: %v", p)
					}
				}()
				out := m.Call([]reflect.Value{reflect.ValueOf(context.Background()), req})
				if !out[1].IsNil() {
					err = out[1].Interface().(error)
				}
			}()
			if err == nil || !strings.Contains(err.Error(), "mismatch cluster id") {
				return &explore.Violation{Key: "foreign-cluster-id-accepted", Msg: fmt.Sprintf("%s with cluster id %d in its header (the cluster's id is %d) was not refused with a cluster id mismatch (%v)", name, id, srvh.ClusterID, err)}
			}
		}
	}
	if n < 20 {
		return &explore.Violation{Key: "engine-reflection", Msg: fmt.Sprintf("only %d handler methods found", n)}
	}
	return nil
}

// hbStream is the server side of a RegionHeartbeat stream fed from a list of requests.
type hbStream struct {
	grpc.ServerStream
	ctx context.Context
	in  []*pdpb.RegionHeartbeatRequest
}

func (t *hbStream) Context() context.Context                    { return t.ctx }
func (t *hbStream) Send(*pdpb.RegionHeartbeatResponse) error    { return nil }
func (t *hbStream) Recv() (*pdpb.RegionHeartbeatRequest, error) {
	if len(t.in) == 0 {
		return nil, io.EOF
	}
	r := t.in[0]
	t.in = t.in[1:]
	return r, nil
}

func malformed(s *srvh.Srv, kind string) *pdpb.BootstrapRequest {
	r := s.BootstrapReq(21, 22, 23, "127.0.0.1:3")
	switch kind {
	case "no-store":
		r.Store = nil
	case "zero-store-id":
		r.Store.Id = 0
	case "no-region":
		r.Region = nil
	case "start-key":
		r.Region.StartKey = []byte("a")
	case "end-key":
		r.Region.EndKey = []byte("z")
	case "two-peers":
		r.Region.Peers = append(r.Region.Peers, &metapb.Peer{Id: 24, StoreId: 21})
	case "peer-store-mismatch":
		r.Region.Peers[0].StoreId = 99
	case "zero-peer-id":
		r.Region.Peers[0].Id = 0
	case "wrong-cluster-id":
		r.Header.ClusterId++
	case "zero-cluster-id":
		r.Header.ClusterId = 0
	case "no-header": // carries no cluster id at all, i.e. not this cluster's
		r.Header = nil
	}
	return r
}

func mkWorld() *world {
	vclock.Enable(vclock.Epoch)
	w := &world{st: fakeetcd.New()}
	srvh.SeedClusterID(w.st)
	return w
}

func (w *world) leader(id int) *srvh.Srv {
	s, err := srvh.New(w.st, id, nil)
	if err != nil {
		panic(err)
	}
	w.srvs = append(w.srvs, s)
	if err := s.VerifBecomeLeader(); err != nil {
		panic(err)
	}
	return s
}

// lease / leader atomics are not scheduling points where leadership does not change
var noAtomics = sched.Options{Kinds: uint32(1<<sched.KLock | 1<<sched.KRLock | 1<<sched.KEtcd | 1<<sched.KUser | 1<<sched.KWait | 1<<sched.KStart | 1<<sched.KYield)}

func concurrent(n int, bad []string, pre int, tiers, name string) *explore.Scenario {
	return &explore.Scenario{Name: name, MaxPre: pre, Tiers: tiers, Opts: noAtomics, Setup: func() *explore.Instance {
		w := mkWorld()
		s := w.leader(1)
		var names []string
		var th []func()
		for i := 0; i < n; i++ {
			i := i
			names = append(names, fmt.Sprintf("boot%d", i))
			th = append(th, func() {
				w.bootstrap(s, fmt.Sprintf("boot%d", i), s.BootstrapReq(uint64(1+10*i), uint64(2+10*i), uint64(3+10*i), fmt.Sprintf("127.0.0.1:%d", i)), "valid")
			})
		}
		if len(bad) > 0 {
			names = append(names, "malformed")
			th = append(th, func() {
				for _, k := range bad {
					w.bootstrap(s, "bad-"+k, malformed(s, k), k)
				}
			})
		}
		return &explore.Instance{Names: names, Threads: th, Check: w.check}
	}}
}

// afterLeaderChange: s1 bootstraps (or races with) while leadership moves to s2, which is then asked too.
func afterLeaderChange(pre int, tiers, name string) *explore.Scenario {
	return &explore.Scenario{Name: name, MaxPre: pre, Tiers: tiers, Setup: func() *explore.Instance {
		w := mkWorld()
		s1 := w.leader(1)
		s2, err := srvh.New(w.st, 2, nil)
		if err != nil {
			panic(err)
		}
		w.srvs = append(w.srvs, s2)
		return &explore.Instance{Names: []string{"boot-s1", "move+boot-s2"}, Threads: []func(){
			func() { w.bootstrap(s1, "s1", s1.BootstrapReq(1, 2, 3, "127.0.0.1:1"), "valid") },
			func() {
				sched.PointAt(sched.KUser, "step down s1")
				s1.VerifStepDown()
				if err := s2.VerifBecomeLeader(); err != nil {
					return
				}
				w.bootstrap(s2, "s2", s2.BootstrapReq(11, 12, 13, "127.0.0.1:2"), "valid")
				w.bootstrap(s2, "s2-again", s2.BootstrapReq(31, 32, 33, "127.0.0.1:4"), "valid")
			},
		}, Check: w.check}
	}}
}

// clusterIDRace: k members initialise the cluster id concurrently.
func clusterIDRace(k, pre int, tiers, name string) *explore.Scenario {
	return &explore.Scenario{Name: name, MaxPre: pre, Tiers: tiers, Setup: func() *explore.Instance {
		vclock.Enable(vclock.Epoch)
		w := &world{st: fakeetcd.New()}
		ids := make([]uint64, k)
		var names []string
		var th []func()
		for i := 0; i < k; i++ {
			i := i
			names = append(names, fmt.Sprintf("member%d", i+1))
			th = append(th, func() {
				s, err := srvh.New(w.st, i+1, nil)
				if err != nil {
					return
				}
				w.srvs = append(w.srvs, s)
				ids[i] = s.ClusterID()
			})
		}
		return &explore.Instance{Names: names, Threads: th, Check: func(r *sched.Run) (string, *explore.Violation) {
			defer func() {
				for _, s := range w.srvs {
					s.Close()
				}
			}()
			v, ok := w.st.Get("/pd/cluster_id")
			if !ok {
				return "", &explore.Violation{Key: "cluster-id-missing", Msg: "no cluster id stored"}
			}
			want, _ := typeutil.BytesToUint64([]byte(v))
			puts := 0
			for _, e := range w.st.Log {
				if e.Key == "/pd/cluster_id" {
					puts++
				}
			}
			if puts != 1 {
				return "", &explore.Violation{Key: "cluster-id-rewritten", Msg: fmt.Sprintf("cluster id key written %d times", puts)}
			}
			for i, id := range ids {
				if id != want {
					return "", &explore.Violation{Key: "cluster-id-disagree", Msg: fmt.Sprintf("member %d uses cluster id %d, stored is %d (all: %v)", i+1, id, want, ids)}
				}
			}
			// a request carrying another cluster id is refused by a leader
			s := w.srvs[0]
			if err := s.VerifBecomeLeader(); err == nil {
				req := s.BootstrapReq(1, 2, 3, "127.0.0.1:1")
				req.Header.ClusterId = want + 1
				if resp, err := s.Bootstrap(context.Background(), req); err == nil && resp.GetHeader().GetError() == nil {
					return "", &explore.Violation{Key: "foreign-cluster-id-accepted", Msg: "bootstrap with a different cluster id succeeded"}
				}
			}
			return fmt.Sprintf("id=%d", want), nil
		}}
	}}
}

func main() {
	bad := []string{"no-store", "zero-store-id", "no-region", "start-key", "end-key", "two-peers", "peer-store-mismatch", "zero-peer-id", "wrong-cluster-id", "zero-cluster-id", "no-header"}
	l := []*explore.Scenario{
		concurrent(2, nil, 2, "quick", "2-concurrent"),
		concurrent(3, nil, 2, "quick", "3-concurrent"),
		concurrent(2, bad, 2, "quick", "2-valid+malformed"),
		concurrent(0, bad, 0, "quick", "only-malformed"),
		afterLeaderChange(2, "quick", "leader-change"),
		clusterIDRace(2, 2, "quick", "cluster-id-2"),
		clusterIDRace(3, 2, "quick", "cluster-id-3"),
		concurrent(3, nil, 4, "thorough", "3-concurrent@4"),
		concurrent(4, nil, 3, "thorough", "4-concurrent@3"),
		concurrent(2, bad, 3, "thorough", "2-valid+malformed@3"),
		afterLeaderChange(4, "thorough", "leader-change@4"),
		clusterIDRace(4, 3, "thorough", "cluster-id-4@3"),
	}
	defer srvh.Cleanup()
	explore.Main(&explore.Config{
		Property:  "C20",
		Scenarios: l,
		Rule:      "all schedules (preemption bound) of concurrent Bootstrap calls with distinct valid and malformed payloads on real Servers over the fake etcd; k members racing initClusterID",
		Assumptions: []string{
			"fake etcd conformance-checked against embedded etcd",
			"goroutines started by cluster.Start are not scheduled by the explorer; they touch nothing the oracle reads",
			"Server composed by the verif hook VerifNewServer (CreateServer + startServer) and VerifBecomeLeader (steps of campaignLeader before its ticker loop)",
		},
	})
}
