package main

// Scatter part of C11: the real schedule.RegionScatterer on mockcluster.
//
// An input is an environment and a sequence of scatter calls on one fresh
// RegionScatterer: the calls before the last are the history (they bias the
// last one through the selected-store / selected-leader counters), every call's
// operator is executed and checked. A call with one region uses Scatter, a call
// with several regions uses ScatterRegions.

import (
	"context"
	"fmt"
	"strings"

	"github.com/tikv/pd/pkg/mock/mockcluster"
	"github.com/tikv/pd/pkg/verifshim/vrand"
	"github.com/tikv/pd/server/core"
	"github.com/tikv/pd/server/schedule"
	"github.com/tikv/pd/server/schedule/operator"
	"github.com/tikv/pd/server/schedule/opt"
	"verif/engine/enum"
	"verif/engine/regionsim"
)

type scatterCall struct {
	Regions []regionSpec `json:"regions"`
	Group   string       `json:"group"`
}

func (c scatterCall) String() string {
	var l []string
	for _, r := range c.Regions {
		l = append(l, r.String())
	}
	name := "Scatter"
	if len(c.Regions) > 1 {
		name = "ScatterRegions"
	}
	return fmt.Sprintf("%s(%s, %q)", name, strings.Join(l, ", "), c.Group)
}

type scatterInput struct {
	Env   envSpec       `json:"env"`
	Calls []scatterCall `json:"calls"`
}

func (in *scatterInput) String() string {
	var l []string
	for _, c := range in.Calls {
		l = append(l, c.String())
	}
	return strings.Join(l, " ; ") + " | " + in.Env.String()
}

const scatterRunCap = 4096

func firstChoice(n int, _ string) int { return 0 }

// runScatter executes the sequence on a fresh scatterer once per outcome of the
// random draws of the last call (the draws of the history calls take their first
// outcome: each history call is the last call of a shorter input).
func (rn *runner) runScatter(in *scatterInput, cl *mockcluster.Cluster) *violation {
	var viol *violation
	produced := false
	last := len(in.Calls) - 1
	n := enum.All(scatterRunCap, func() {
		if viol != nil {
			return // no draws: the enumeration ends
		}
		rn.cnt.Runs++
		outer := vrand.Chooser
		defer func() { vrand.Chooser = outer }()
		ctx, cancel := context.WithCancel(context.Background())
		defer cancel()
		sc := schedule.NewRegionScatterer(ctx, cl)
		for i, c := range in.Calls {
			if i < last {
				vrand.Chooser = firstChoice
			} else {
				vrand.Chooser = outer
			}
			rn.logf("  call %d: %s", i+1, c)
			v, nops := rn.scatterCall(in, cl, sc, i, c)
			if i == last && nops > 0 {
				produced = true
			}
			if v != nil {
				if viol == nil {
					viol = v
				}
				return
			}
		}
	})
	if n < 0 {
		rn.cnt.Capped++
	}
	if produced {
		rn.cnt.Produced++
	}
	return viol
}

func (rn *runner) scatterCall(in *scatterInput, cl *mockcluster.Cluster, sc *schedule.RegionScatterer, idx int, c scatterCall) (*violation, int) {
	rn.cnt.Calls++
	sims := map[uint64]*regionsim.Region{}
	var ops []*operator.Operator
	if len(c.Regions) == 1 {
		r := c.Regions[0].sim(uint64(idx*10 + 1))
		sims[r.ID] = r
		op, err := sc.Scatter(r.Info(), c.Group)
		if err != nil {
			rn.logf("    refused: %v", err)
		}
		if op != nil {
			ops = append(ops, op)
		}
	} else {
		m := map[uint64]*core.RegionInfo{}
		for j, rs := range c.Regions {
			r := rs.sim(uint64(idx*10 + j + 1))
			sims[r.ID] = r
			m[r.ID] = r.Info()
		}
		failures := map[uint64]error{}
		var err error
		ops, err = sc.ScatterRegions(m, failures, c.Group, 1)
		if err != nil || len(failures) > 0 {
			rn.logf("    refused: %v %v", err, failures)
		}
	}
	seen := map[uint64]bool{}
	for _, op := range ops {
		rn.logf("    operator: %s", op)
		r := sims[op.RegionID()]
		ctx := func() string { return fmt.Sprintf("call %d of %s", idx+1, in) }
		if r == nil || seen[op.RegionID()] {
			return &violation{Key: "scatter/foreign-region", Msg: fmt.Sprintf("operator %s is for region %d which was not passed (or got two operators)\n  input: %s", op, op.RegionID(), ctx())}, len(ops)
		}
		seen[op.RegionID()] = true
		if v := rn.execute(in.Env, "scatter", op, r, ctx); v != nil {
			return v, len(ops)
		}
	}
	return nil, len(ops)
}

// ---------------------------------------------------------------- alphabets

// regionsOf lists the regions of the environment that count as fully
// replicated (the others are refused by Scatter at once): every store subset
// of the right size, every role assignment. canonical: peers sorted by store,
// leader on the first voter; otherwise every peer order and every voter leader.
func regionsOf(e envSpec, cl *mockcluster.Cluster, canonical bool) []regionSpec {
	var out []regionSpec
	k := e.peers()
	learners := 0
	if e.Rules == 2 || e.Rules == 3 {
		learners = 1
	}
	var perms [][]int
	if canonical {
		perms = [][]int{nil}
	} else {
		perms = permutations(k)
	}
	for _, ss := range subsets(e.N, k) {
		for lpos := -1; lpos < len(ss); lpos++ {
			if (learners == 0) != (lpos == -1) {
				continue
			}
			base := make([]peerSpec, k)
			var first uint64
			for i, s := range ss {
				base[i] = peerSpec{S: s, R: rV}
				if i == lpos {
					base[i].R = rL
				} else if first == 0 {
					first = s
				}
			}
			if first == 0 {
				continue
			}
			if !opt.IsRegionReplicated(cl, (regionSpec{Peers: base, Leader: first}).sim(1).Info()) {
				continue
			}
			for _, pm := range perms {
				ps := base
				if pm != nil {
					ps = make([]peerSpec, k)
					for i, j := range pm {
						ps[i] = base[j]
					}
				}
				if canonical {
					out = append(out, regionSpec{Peers: ps, Leader: first})
					continue
				}
				for _, p := range base {
					if p.R == rV {
						out = append(out, regionSpec{Peers: ps, Leader: p.S})
					}
				}
			}
		}
	}
	return out
}

type scatterBounds struct {
	hist      int  // histories of 0..hist earlier calls
	groups    int  // history calls use groups g1..g<groups>; the last call uses g1 (group names are symmetric)
	batch     bool // additionally: last call = ScatterRegions on every pair of canonical regions
	lastCanon bool // last call only with canonical regions (no peer orders / leaders)
	pending   bool // additionally: last call's region with one non-leader peer pending
}

func genScatter(envs []envSpec, b scatterBounds) func(g *genCtx) {
	return func(g *genCtx) {
		for L := 0; L <= b.hist; L++ {
			for _, e := range envs {
				cl, cancel := newCluster(e)
				hist := regionsOf(e, cl, true)
				lastRegions := hist
				if !b.lastCanon {
					lastRegions = regionsOf(e, cl, false)
				}
				cancel()
				var ha []scatterCall
				for _, r := range hist {
					for gi := 1; gi <= b.groups; gi++ {
						ha = append(ha, scatterCall{Regions: []regionSpec{r}, Group: fmt.Sprintf("g%d", gi)})
					}
				}
				var la []scatterCall
				for _, r := range lastRegions {
					la = append(la, scatterCall{Regions: []regionSpec{r}, Group: "g1"})
					if b.pending {
						for _, p := range r.Peers {
							if p.S != r.Leader {
								rp := r
								rp.Pending = p.S
								la = append(la, scatterCall{Regions: []regionSpec{rp}, Group: "g1"})
							}
						}
					}
				}
				if b.batch {
					for i := range hist {
						for j := range hist {
							if i != j {
								la = append(la, scatterCall{Regions: []regionSpec{hist[i], hist[j]}, Group: "g1"})
							}
						}
					}
				}
				for _, lc := range la {
					if !g.Block() {
						continue
					}
					idx := make([]int, L)
					for {
						calls := make([]scatterCall, 0, L+1)
						for _, i := range idx {
							calls = append(calls, ha[i])
						}
						calls = append(calls, lc)
						g.emit(&input{Scatter: &scatterInput{Env: e, Calls: calls}})
						p := L - 1
						for p >= 0 {
							idx[p]++
							if idx[p] < len(ha) {
								break
							}
							idx[p] = 0
							p--
						}
						if p < 0 || len(ha) == 0 {
							break
						}
					}
				}
			}
		}
	}
}

// kindVariants: all-up plus every placement of <= maxSpecial non-plain stores drawn from kinds.
func kindVariants(n, maxSpecial int, kinds []int) [][]int {
	out := [][]int{make([]int, n)}
	if maxSpecial >= 1 {
		for i := 0; i < n; i++ {
			for _, k := range kinds {
				s := make([]int, n)
				s[i] = k
				out = append(out, s)
			}
		}
	}
	if maxSpecial >= 2 {
		for a := 0; a < n; a++ {
			for b := a + 1; b < n; b++ {
				for _, k1 := range kinds {
					for _, k2 := range kinds {
						s := make([]int, n)
						s[a], s[b] = k1, k2
						out = append(out, s)
					}
				}
			}
		}
	}
	return out
}

func mkEnvs(ns []int, replicas []int, rules []int, layouts []int, maxSpecial int, kinds []int) []envSpec {
	var out []envSpec
	for _, n := range ns {
		for _, k := range replicas {
			for _, ru := range rules {
				for _, l := range layouts {
					for _, kv := range kindVariants(n, maxSpecial, kinds) {
						e := envSpec{N: n, Kinds: kv, Layout: l, Replicas: k, Rules: ru}
						if e.peers() > n || (ru == 0 && (hasKind(kv, kTiFlash) || hasKind(kv, kTiFlashOff))) {
							continue // TiFlash needs placement rules
						}
						out = append(out, e)
					}
				}
			}
		}
	}
	return out
}

func hasKind(kinds []int, k int) bool {
	for _, x := range kinds {
		if x == k {
			return true
		}
	}
	return false
}
