package main

// Scheduler part of C11: every built-in scheduler that moves peers or leaders,
// created through schedule.CreateScheduler, scheduling on a mockcluster that
// holds one or two regions, stores of several kinds and an imbalance pattern
// (per-store load levels). Every outcome of the schedulers' random draws is
// enumerated; each operator is executed on the region simulator and checked.

import (
	"context"
	"encoding/json"
	"fmt"
	mrand "math/rand"
	"strings"
	"time"

	"github.com/tikv/pd/pkg/mock/mockcluster"
	"github.com/tikv/pd/pkg/verifshim/vclock"
	"github.com/tikv/pd/server/core"
	"github.com/tikv/pd/server/kv"
	"github.com/tikv/pd/server/schedule"
	"github.com/tikv/pd/server/schedulers"
	"github.com/tikv/pd/server/statistics"
	"verif/engine/enum"
	"verif/engine/regionsim"
)

type schedInput struct {
	Type    string       `json:"type"`
	Env     envSpec      `json:"env"`
	Load    []int        `json:"load"` // per store: level 0..2
	Regions []regionSpec `json:"regions"`
	Arg     uint64       `json:"arg,omitempty"` // store of evict-leader / grant-leader
	Hot     string       `json:"hot,omitempty"` // read | write: region 1 is hot and the stores' flow follows the load levels
	Cap     int          `json:"cap,omitempty"` // run cap for the random-draw tree (default schedRunCap)
}

func (in *schedInput) String() string {
	var l []string
	for _, r := range in.Regions {
		l = append(l, r.String())
	}
	if n := len(in.Regions); n > 2 {
		l = []string{fmt.Sprintf("%d x %s", n, in.Regions[0])}
	}
	s := in.Type
	if in.Arg != 0 {
		s += fmt.Sprintf("(store %d)", in.Arg)
	}
	if in.Hot != "" {
		s += "[hot " + in.Hot + "]"
	}
	return fmt.Sprintf("%s regions=%s load=%v | %s", s, strings.Join(l, ","), in.Load, in.Env)
}

func (in *schedInput) size() int { return 10*len(in.Regions) + in.Env.N }

var regionLevels = []int{2, 40, 100}
var leaderLevels = []int{1, 15, 40}
var flowLevels = []float64{0, 4.5, 7.5} // MB/s

const schedRunCap = 20000

// hotSeedDelay[t] is a delay in ns after the epoch such that a hot scheduler
// created at that virtual time (its private generator is seeded with the
// clock) dispatches its first Schedule call to type t (0 write, 1 read).
var hotSeedDelay = func() [2]time.Duration {
	var d [2]time.Duration
	found := [2]bool{}
	for i := 0; i < 1000 && !(found[0] && found[1]); i++ {
		t := mrand.New(mrand.NewSource(vclock.Epoch.Add(time.Duration(i)).UnixNano())).Int() % 2
		if !found[t] {
			found[t], d[t] = true, time.Duration(i)
		}
	}
	return d
}()

func schedulerArgs(in *schedInput) []string {
	switch in.Type {
	case schedulers.EvictLeaderType, schedulers.GrantLeaderType:
		return []string{fmt.Sprint(in.Arg)}
	case schedulers.ScatterRangeType:
		return []string{"", "", "verif"}
	case schedulers.HotRegionType, schedulers.ShuffleHotRegionType:
		return nil
	}
	return []string{"", ""}
}

func isHotType(t string) bool {
	return t == schedulers.HotRegionType || t == schedulers.ShuffleHotRegionType
}

// schedCluster returns the cluster of the input. For the schedulers without
// flow statistics the cluster of the previous input is reused when only the
// store loads differ (the stores are put again).
func (cc *clusterCache) schedCluster(in *schedInput) (*mockcluster.Cluster, map[uint64]*regionsim.Region) {
	e := in.Env
	key := ""
	if in.Hot == "" {
		b, _ := json.Marshal(in.Regions)
		key = e.key() + string(b)
	}
	if key != "" && key == cc.skey {
		for i := 0; i < e.N; i++ {
			cc.scl.PutStore(newStore(e, uint64(i+1), regionLevels[in.Load[i]], leaderLevels[in.Load[i]]))
		}
		return cc.scl, cc.ssims
	}
	if cc.scancel != nil {
		cc.scancel()
	}
	cc.scl, cc.scancel, cc.ssims = buildSchedCluster(in)
	cc.skey = key
	return cc.scl, cc.ssims
}

func buildSchedCluster(in *schedInput) (*mockcluster.Cluster, context.CancelFunc, map[uint64]*regionsim.Region) {
	e := in.Env
	cl, cancel := newCluster(e)
	for i := 0; i < e.N; i++ {
		lv := 0
		if i < len(in.Load) {
			lv = in.Load[i]
		}
		cl.PutStore(newStore(e, uint64(i+1), regionLevels[lv], leaderLevels[lv]))
	}
	sims := map[uint64]*regionsim.Region{}
	for i, rs := range in.Regions {
		r := rs.sim(uint64(i + 1))
		sims[r.ID] = r
		info := r.Info().Clone(core.SetApproximateSize(96), core.SetApproximateKeys(1000))
		if i == 0 && in.Hot != "" {
			const kb = 1024
			if in.Hot == "write" {
				iv := uint64(statistics.WriteReportInterval)
				info = info.Clone(core.SetWrittenBytes(512*kb*iv), core.SetWrittenKeys(512*iv), core.SetReportInterval(iv))
				for k := 0; k < cl.HotCache.GetFilledPeriod(statistics.WriteFlow); k++ {
					for _, item := range cl.CheckRegionWrite(info) {
						cl.HotCache.Update(item)
					}
				}
			} else {
				iv := uint64(statistics.ReadReportInterval)
				info = info.Clone(core.SetReadBytes(512*kb*iv), core.SetReadKeys(512*iv), core.SetReportInterval(iv))
				for k := 0; k < cl.HotCache.GetFilledPeriod(statistics.ReadFlow); k++ {
					for _, item := range cl.CheckRegionLeaderRead(info) {
						cl.HotCache.Update(item)
					}
				}
			}
		}
		cl.PutRegion(info)
	}
	if in.Hot != "" {
		cl.SetHotRegionCacheHitsThreshold(0)
		for i := 0; i < e.N; i++ {
			lv := 0
			if i < len(in.Load) {
				lv = in.Load[i]
			}
			b := uint64(flowLevels[lv] * (1 << 20) * statistics.StoreHeartBeatReportInterval)
			if in.Hot == "write" {
				cl.UpdateStorageWrittenStats(uint64(i+1), b, b/100)
			} else {
				cl.UpdateStorageReadStats(uint64(i+1), b, b/100)
			}
		}
	}
	return cl, cancel, sims
}

func (rn *runner) runSched(in *schedInput, cc *clusterCache) *violation {
	statistics.Denoising = false
	cl, sims := cc.schedCluster(in)
	ctx, cancel2 := context.WithCancel(context.Background())
	defer cancel2()
	oc := schedule.NewOperatorController(ctx, cl, nil)
	mk := func() schedule.Scheduler {
		if isHotType(in.Type) {
			// hot-region dispatches on types {write, read}, shuffle-hot-region on {read, write}
			t := 0
			if (in.Hot == "read") != (in.Type == schedulers.ShuffleHotRegionType) {
				t = 1
			}
			vclock.Enable(vclock.Epoch.Add(hotSeedDelay[t]))
			defer vclock.Enable(vclock.Epoch)
		}
		s, err := schedule.CreateScheduler(in.Type, oc, core.NewStorage(kv.NewMemoryKV()), schedule.ConfigSliceDecoder(in.Type, schedulerArgs(in)))
		must(err)
		_ = s.Prepare(cl)
		return s
	}
	var shared schedule.Scheduler
	if !isHotType(in.Type) {
		shared = mk()
	}
	var viol *violation
	produced := false
	runCap := schedRunCap
	if in.Cap > 0 {
		runCap = in.Cap
	}
	n := enum.All(runCap, func() {
		if viol != nil {
			return // no draws: the enumeration ends
		}
		rn.cnt.Runs++
		s := shared
		if s == nil {
			s = mk()
		}
		if !s.IsScheduleAllowed(cl) {
			return
		}
		rn.cnt.Calls++
		ops := s.Schedule(cl)
		if len(ops) > 0 {
			produced = true
		}
		for _, op := range ops {
			rn.logf("  operator: %s", op)
			ctx := func() string { return in.String() }
			r := sims[op.RegionID()]
			if r == nil {
				if viol == nil {
					viol = &violation{Key: in.Type + "/foreign-region", Msg: fmt.Sprintf("operator %s is for region %d which does not exist\n  input: %s", op, op.RegionID(), in)}
				}
				continue
			}
			if v := rn.execute(in.Env, in.Type, op, r.Clone(), ctx); v != nil && viol == nil {
				viol = v
			}
		}
	})
	if n < 0 {
		rn.cnt.Capped++
	}
	if produced {
		rn.cnt.Produced++
	}
	return viol
}

// ---------------------------------------------------------------- enumeration

var allSchedTypes = []string{
	schedulers.BalanceRegionType, schedulers.BalanceLeaderType, schedulers.HotRegionType,
	schedulers.ShuffleLeaderType, schedulers.ShuffleRegionType, schedulers.ShuffleHotRegionType,
	schedulers.EvictLeaderType, schedulers.GrantLeaderType, schedulers.LabelType, schedulers.ScatterRangeType,
}

type schedBounds struct {
	types      []string
	levels     int  // load levels per store (2: {0,2}, 3: {0,1,2})
	pending    bool // also: one follower of region 1 pending
	second     bool // also: a second region, role-disjoint with the first (no store holds the same role of both)
	runCap     int  // run cap per input (0 = default)
	allSubsets bool // the region on every store subset (default: the first subset when the stores carry no location labels)
	clones     int  // instead: this many regions with the placement of the first (region draws then have many outcomes: capped)
}

func loadVectors(n, levels int) [][]int {
	vals := []int{0, 2}
	if levels >= 3 {
		vals = []int{0, 1, 2}
	}
	if levels == 1 {
		vals = []int{1}
	}
	out := [][]int{{}}
	for i := 0; i < n; i++ {
		var next [][]int
		for _, v := range out {
			for _, x := range vals {
				next = append(next, append(append([]int(nil), v...), x))
			}
		}
		out = next
	}
	return out
}

// schedRegions: regions for the scheduler scenarios: store subsets (only the
// first subset when the stores carry no location labels: store kinds and loads
// are enumerated over all stores), every learner position, every voter leader.
func schedRegions(e envSpec, all bool) []regionSpec {
	var out []regionSpec
	k := e.peers()
	ss := subsets(e.N, k)
	if !all && e.Layout == 0 {
		ss = ss[:1]
	}
	for _, s := range ss {
		for lpos := -1; lpos < k; lpos++ {
			if (e.Rules != 2 && e.Rules != 3) != (lpos == -1) {
				continue
			}
			var ps []peerSpec
			for i, st := range s {
				p := peerSpec{S: st, R: rV}
				if i == lpos {
					p.R = rL
				}
				ps = append(ps, p)
			}
			voterOnTiFlash := false
			for _, p := range ps {
				if p.R == rV && isTiFlash(e.kind(p.S)) {
					voterOnTiFlash = true // not a configuration that exists: TiFlash peers are learners
				}
			}
			if voterOnTiFlash {
				continue
			}
			for _, p := range ps {
				if p.R == rV {
					out = append(out, regionSpec{Peers: ps, Leader: p.S})
				}
			}
		}
	}
	return out
}

func roleOn(r regionSpec, store uint64) int {
	for _, p := range r.Peers {
		if p.S == store {
			if p.S == r.Leader {
				return 1
			}
			if p.R == rL {
				return 3
			}
			return 2
		}
	}
	return 0
}

func roleDisjoint(a, b regionSpec, n int) bool {
	for s := uint64(1); s <= uint64(n); s++ {
		if x := roleOn(a, s); x != 0 && x == roleOn(b, s) {
			return false
		}
	}
	return true
}

func genSched(envs []envSpec, b schedBounds) func(g *genCtx) {
	return func(g *genCtx) {
		for _, e := range envs {
			firsts := schedRegions(e, b.allSubsets)
			var seconds []regionSpec
			if b.second {
				seconds = schedRegions(e, true)
			}
			loads := loadVectors(e.N, b.levels)
			for _, typ := range b.types {
				var args []uint64
				switch typ {
				case schedulers.EvictLeaderType:
					for s := 1; s <= e.N; s++ {
						if e.Kinds[s-1] == kEvicted {
							args = append(args, uint64(s))
						}
					}
				case schedulers.GrantLeaderType:
					for s := 1; s <= e.N; s++ {
						if e.Kinds[s-1] == kUp {
							args = append(args, uint64(s))
						}
					}
				default:
					args = []uint64{0}
				}
				hots := []string{""}
				if isHotType(typ) {
					hots = []string{"write", "read"}
				}
				for _, arg := range args {
					for _, r1 := range firsts {
						if !g.Block() {
							continue
						}
						var regionSets [][]regionSpec
						if b.clones > 0 {
							var rs []regionSpec
							for i := 0; i < b.clones; i++ {
								rs = append(rs, r1)
							}
							regionSets = append(regionSets, rs)
						} else {
							regionSets = append(regionSets, []regionSpec{r1})
						}
						if b.pending {
							for _, p := range r1.Peers {
								if p.S != r1.Leader {
									rp := r1
									rp.Pending = p.S
									regionSets = append(regionSets, []regionSpec{rp})
								}
							}
						}
						for _, r2 := range seconds {
							if roleDisjoint(r1, r2, e.N) {
								regionSets = append(regionSets, []regionSpec{r1, r2})
							}
						}
						for _, rs := range regionSets {
							for _, hot := range hots {
								for _, ld := range loads {
									g.emit(&input{Sched: &schedInput{Type: typ, Env: e, Load: ld, Regions: rs, Arg: arg, Hot: hot, Cap: b.runCap}})
								}
							}
						}
					}
				}
			}
		}
	}
}
