package main

import "github.com/tikv/pd/server/schedulers"

var plainKinds = []int{kOffline, kDown, kEvicted, kReject}
var allKinds = []int{kOffline, kDown, kDisconn, kTomb, kEvicted, kReject, kTiFlash}

var hotTypes = []string{schedulers.HotRegionType, schedulers.ShuffleHotRegionType}
var coldTypes = []string{
	schedulers.BalanceRegionType, schedulers.BalanceLeaderType,
	schedulers.ShuffleLeaderType, schedulers.ShuffleRegionType,
	schedulers.EvictLeaderType, schedulers.GrantLeaderType, schedulers.LabelType, schedulers.ScatterRangeType,
}

func concat(gs ...func(g *genCtx)) func(g *genCtx) {
	return func(g *genCtx) {
		for _, f := range gs {
			f(g)
		}
	}
}

// tiflashEnvs: n stores of which the last two are TiFlash stores (so that a TiFlash learner can move) and <= 1 further non-up store.
func tiflashEnvs(n, replicas int, extra []int) []envSpec {
	var out []envSpec
	for _, kv := range kindVariants(n-2, 1, extra) {
		k := append(append([]int(nil), kv...), kTiFlash, kTiFlash)
		out = append(out, envSpec{N: n, Kinds: k, Replicas: replicas, Rules: 2})
	}
	return out
}

// noJoint: the environments with joint consensus switched off and not supported.
func noJoint(es []envSpec) []envSpec {
	var out []envSpec
	for _, j := range []int{1, 2} {
		for _, e := range es {
			e.Joint = j
			out = append(out, e)
		}
	}
	return out
}

// tiflashOfflineEnvs: 3 TiKV stores and 3 TiFlash stores of which the last is offline; 2 voters + 1 TiFlash learner.
func tiflashOfflineEnvs() []envSpec {
	return []envSpec{{N: 6, Kinds: []int{kUp, kUp, kUp, kTiFlash, kTiFlash, kTiFlashOff}, Replicas: 2, Rules: 2}}
}

// followerRuleEnvs: 5 stores of which the last two match the follower rule only; 3 replicas = 2 voters + 1 follower.
func followerRuleEnvs() []envSpec {
	var out []envSpec
	for _, j := range []int{0, 1} {
		out = append(out, envSpec{N: 5, Kinds: []int{kUp, kUp, kUp, kFollowerOnly, kFollowerOnly}, Replicas: 3, Rules: 4, Joint: j})
	}
	return out
}

func scopes() []*scope {
	one := []int{0}
	allTypes := append(append([]string(nil), coldTypes...), hotTypes...)
	return []*scope{
		// ------------------------------------------------------------ quick
		{name: "scatter/5stores/all-up/hist<=2", tiers: "quick",
			desc: "5 up stores, 3 replicas, rules off: every sequence of <=2 earlier Scatter calls (every 3-store region, groups g1 g2) followed by Scatter of every 3-store region in every peer order with every leader",
			gen:  genScatter(mkEnvs([]int{5}, []int{3}, one, one, 0, nil), scatterBounds{hist: 2, groups: 2})},
		{name: "scatter/3-6stores/replicas1-4/hist<=1", tiers: "quick",
			desc: "up stores only: 3..5 stores x 1..4 replicas and 6 stores x 1..3 replicas, rules {off, on}: histories of <=1 earlier call (groups g1 g2), last call: every region in every peer order with every leader; 4 and 5 stores, 3 replicas, rules off: ScatterRegions on every ordered pair of regions; one non-leader peer pending",
			gen: concat(genScatter(mkEnvs([]int{3, 4, 5}, []int{1, 2, 3, 4}, []int{0, 1}, one, 0, nil), scatterBounds{hist: 1, groups: 2}),
				genScatter(mkEnvs([]int{6}, []int{1, 2, 3}, []int{0, 1}, one, 0, nil), scatterBounds{hist: 1, groups: 2}),
				genScatter(mkEnvs([]int{4, 5}, []int{3}, one, one, 0, nil), scatterBounds{hist: 1, groups: 1, batch: true, lastCanon: true}),
				genScatter(mkEnvs([]int{4, 5}, []int{3}, one, one, 0, nil), scatterBounds{hist: 1, groups: 1, pending: true}))},
		{name: "scatter/4-5stores/1-non-up/hist<=2", tiers: "quick",
			desc: "3 replicas, last call in every peer order with every leader: 4 stores of which <=1 is offline / down / disconnected / tombstone / evicted / reject-leader, rules {off, on}, histories of <=2 earlier calls; 5 stores of which <=1 is offline / down / evicted / reject-leader, rules off, without and with zone labels z1 z1 z2 z2 z3 (location-labels [zone]), histories of <=1 call",
			gen: concat(genScatter(mkEnvs([]int{4}, []int{3}, []int{0, 1}, one, 1, allKinds[:6]), scatterBounds{hist: 2, groups: 1}),
				genScatter(mkEnvs([]int{5}, []int{3}, one, []int{0, 1}, 1, plainKinds), scatterBounds{hist: 1, groups: 1}))},
		{name: "scatter/learners+tiflash/hist<=1", tiers: "quick",
			desc: "placement rules with a learner, histories of <=1 earlier call, last call in every peer order with every leader: (a) 2 voters + 1 learner on TiKV stores, 4 stores (<=1 offline/down/evicted/reject-leader) and 5 up stores; (b) 2 voters + 1 learner constrained to engine=tiflash, 5 stores of which 2 are TiFlash, <=1 of the others offline/down/evicted/reject-leader; (c) 3 TiKV + 3 TiFlash stores, one TiFlash store offline, histories of <=2 calls",
			gen: concat(genScatter(mkEnvs([]int{4}, []int{2}, []int{3}, one, 1, plainKinds), scatterBounds{hist: 1, groups: 1}),
				genScatter(mkEnvs([]int{5}, []int{2}, []int{3}, one, 0, nil), scatterBounds{hist: 1, groups: 1}),
				genScatter(tiflashEnvs(5, 2, plainKinds), scatterBounds{hist: 1, groups: 1}),
				genScatter(tiflashOfflineEnvs(), scatterBounds{hist: 2, groups: 1}))},
		{name: "sched/4stores/rules-off", tiers: "quick",
			desc: "4 stores of which <=1 is offline/down/disconnected/tombstone/evicted/reject-leader, 3 replicas, rules off; region on stores 1-3 with every leader, optionally one follower pending; every load vector over 3 levels; balance-region, balance-leader, shuffle-leader, shuffle-region, evict-leader (every evicted store), grant-leader (every up store), label, scatter-range; hot-region and shuffle-hot-region (region hot for read / write, 2 load levels, no pending peer)",
			gen: concat(genSched(mkEnvs([]int{4}, []int{3}, one, one, 1, allKinds[:6]), schedBounds{types: coldTypes, levels: 3, pending: true}),
				genSched(mkEnvs([]int{4}, []int{3}, one, one, 1, allKinds[:6]), schedBounds{types: hotTypes, levels: 2}))},
		{name: "sched/4-5stores/rules-on+2regions", tiers: "quick",
			desc: "<=1 non-up store, 2 load levels: (a) 4 stores, placement rules on, 3 voters (non-up kinds incl. tiflash) and 2 voters + 1 TiKV learner at every position (offline/down/evicted/reject-leader), all schedulers; (b) 4 stores, rules off, the region plus every second region that shares no (store, role) with it, schedulers without flow statistics except scatter-range; (c) 5 stores, rules off, one region, schedulers without flow statistics",
			gen: concat(genSched(mkEnvs([]int{4}, []int{3}, []int{1}, one, 1, allKinds), schedBounds{types: allTypes, levels: 2}),
				genSched(mkEnvs([]int{4}, []int{2}, []int{3}, one, 1, plainKinds), schedBounds{types: allTypes, levels: 2}),
				genSched(mkEnvs([]int{4}, []int{3}, one, one, 1, plainKinds), schedBounds{types: coldTypes[:7], levels: 2, second: true}),
				genSched(mkEnvs([]int{5}, []int{3}, one, one, 1, plainKinds), schedBounds{types: coldTypes, levels: 2}))},

		{name: "sched/4stores/1-2replicas/leader-refusing", tiers: "quick",
			desc: "4 stores of which <=2 refuse leaders (evicted / reject-leader), 1 and 2 replicas, rules {off, on}, 2 load levels, all schedulers: moving the leader's peer leaves no store that accepts the leader",
			gen: concat(genSched(mkEnvs([]int{4}, []int{1, 2}, []int{0, 1}, one, 2, []int{kEvicted, kReject}), schedBounds{types: coldTypes, levels: 2}),
				genSched(mkEnvs([]int{4}, []int{1, 2}, []int{0, 1}, one, 2, []int{kEvicted, kReject}), schedBounds{types: hotTypes, levels: 2}))},
		{name: "no-joint-consensus/4stores", tiers: "quick",
			desc: "joint consensus switched off (enable-joint-consensus=false) and not supported (feature disabled): 4 stores of which <=1 is offline/down/evicted/reject-leader, 3 replicas, rules {off, on}: scatter histories of <=2 earlier calls, last call in every peer order with every leader; all schedulers on 2 load levels",
			gen: concat(genScatter(noJoint(mkEnvs([]int{4}, []int{3}, []int{0, 1}, one, 1, plainKinds)), scatterBounds{hist: 2, groups: 1}),
				genSched(noJoint(mkEnvs([]int{4}, []int{3}, []int{0, 1}, one, 1, plainKinds)), schedBounds{types: allTypes, levels: 2}))},
		{name: "follower-rule/5stores", tiers: "quick",
			desc: "placement rules with a follower rule: 2 voters on 3 ordinary stores and 1 follower on 2 stores labelled for the follower rule (their voters must never lead), joint consensus on and switched off: all schedulers on 2 load levels with every region on every store subset; scatter histories of <=1 call",
			gen: concat(genSched(followerRuleEnvs(), schedBounds{types: allTypes, levels: 2, allSubsets: true}),
				genScatter(followerRuleEnvs(), scatterBounds{hist: 1, groups: 1}))},
		// ------------------------------------------------------------ thorough
		{name: "scatter/5stores/all-up/hist<=3", tiers: "thorough",
			desc: "5 up stores, 3 replicas, rules off and on: every sequence of <=3 earlier Scatter calls (every 3-store region, groups g1 g2) followed by Scatter of every 3-store region in every peer order with every leader",
			gen:  genScatter(mkEnvs([]int{5}, []int{3}, []int{0, 1}, one, 0, nil), scatterBounds{hist: 3, groups: 2})},
		{name: "scatter/3-6stores/replicas1-4/hist<=2", tiers: "thorough",
			desc: "up stores only: 3..5 stores x 1..4 replicas and 6 stores x 1..3 replicas, rules {off, on}: histories of <=2 earlier calls (groups g1 g2; 6 stores x 4 replicas: <=1 call); 4 and 5 stores: ScatterRegions on every ordered pair of regions (2 and 3 replicas) and a pending peer with histories of <=2 calls",
			gen: concat(genScatter(mkEnvs([]int{3, 4, 5}, []int{1, 2, 3, 4}, []int{0, 1}, one, 0, nil), scatterBounds{hist: 2, groups: 2}),
				genScatter(mkEnvs([]int{6}, []int{1, 2, 3}, []int{0, 1}, one, 0, nil), scatterBounds{hist: 2, groups: 2}),
				genScatter(mkEnvs([]int{6}, []int{4}, []int{0, 1}, one, 0, nil), scatterBounds{hist: 1, groups: 2}),
				genScatter(mkEnvs([]int{4, 5}, []int{2, 3}, one, one, 0, nil), scatterBounds{hist: 2, groups: 2, batch: true, lastCanon: true}),
				genScatter(mkEnvs([]int{4, 5}, []int{3}, one, one, 0, nil), scatterBounds{hist: 2, groups: 1, pending: true}))},
		{name: "scatter/4-6stores/non-up/hist<=2", tiers: "thorough",
			desc: "3 replicas, rules {off, on}: 4 stores with <=2 and 5 stores with <=1 of offline / down / disconnected / tombstone / evicted / reject-leader, histories of <=2 earlier calls; 5 stores with 2 non-up stores and 6 stores with <=1: histories of <=1 call; 5 stores with zone labels, <=1 of offline/down/evicted/reject-leader: <=2 calls",
			gen: concat(genScatter(mkEnvs([]int{4}, []int{3}, []int{0, 1}, one, 2, allKinds[:6]), scatterBounds{hist: 2, groups: 1}),
				genScatter(mkEnvs([]int{5}, []int{3}, []int{0, 1}, one, 1, allKinds[:6]), scatterBounds{hist: 2, groups: 1}),
				genScatter(mkEnvs([]int{5}, []int{3}, []int{0, 1}, one, 2, plainKinds), scatterBounds{hist: 1, groups: 1}),
				genScatter(mkEnvs([]int{6}, []int{3}, []int{0, 1}, one, 1, plainKinds), scatterBounds{hist: 1, groups: 1}),
				genScatter(mkEnvs([]int{5}, []int{3}, []int{0, 1}, []int{1}, 1, plainKinds), scatterBounds{hist: 2, groups: 1}))},
		{name: "scatter/learners+tiflash/hist<=2", tiers: "thorough",
			desc: "placement rules with a learner: (a) 2 voters + 1 learner on TiKV stores: 4 stores with <=1 of offline/down/evicted/reject-leader and 5 up stores, histories of <=2 earlier calls; 5 stores with 1 non-up store and 3 voters + 1 TiKV learner on 5 stores (<=1 non-up): <=1 call; (b) a learner on engine=tiflash: 2 voters on 5 stores and 3 voters on 6 stores, 2 of them TiFlash, <=1 of the others offline/down/evicted/reject-leader: <=2 calls (groups g1 g2 on 5 stores)",
			gen: concat(genScatter(mkEnvs([]int{4}, []int{2}, []int{3}, one, 1, plainKinds), scatterBounds{hist: 2, groups: 1}),
				genScatter(mkEnvs([]int{5}, []int{2}, []int{3}, one, 0, nil), scatterBounds{hist: 2, groups: 1}),
				genScatter(mkEnvs([]int{5}, []int{2}, []int{3}, one, 1, plainKinds)[1:], scatterBounds{hist: 1, groups: 1}),
				genScatter(mkEnvs([]int{5}, []int{3}, []int{3}, one, 1, plainKinds), scatterBounds{hist: 1, groups: 1}),
				genScatter(tiflashEnvs(5, 2, plainKinds), scatterBounds{hist: 2, groups: 2}),
				genScatter(tiflashEnvs(6, 3, plainKinds), scatterBounds{hist: 2, groups: 1}))},
		{name: "sched/4stores/2-non-up", tiers: "thorough",
			desc: "4 stores of which <=2 are offline/down/disconnected/tombstone/evicted/reject-leader (tiflash too under rules), 3 replicas, rules {off, on}; region on stores 1-3 with every leader, optionally one follower pending; every load vector over 3 levels; all schedulers (hot ones: 2 load levels, no pending peer)",
			gen: concat(genSched(mkEnvs([]int{4}, []int{3}, []int{0, 1}, one, 2, allKinds), schedBounds{types: coldTypes, levels: 3, pending: true}),
				genSched(mkEnvs([]int{4}, []int{3}, []int{0, 1}, one, 2, allKinds), schedBounds{types: hotTypes, levels: 2}))},
		{name: "sched/5stores", tiers: "thorough",
			desc: "5 stores, 3 replicas, rules {off, on}: <=1 non-up store of every kind, every load vector over 3 levels, optional pending follower; with zone labels (every region store subset): 2 load levels; <=2 of offline/down/evicted/reject-leader with 2 load levels; a second region sharing no (store, role) with the first (rules off, <=1 non-up, 2 load levels); hot schedulers: <=1 non-up store, 2 load levels",
			gen: concat(genSched(mkEnvs([]int{5}, []int{3}, []int{0, 1}, one, 1, allKinds), schedBounds{types: coldTypes, levels: 3, pending: true}),
				genSched(mkEnvs([]int{5}, []int{3}, []int{0, 1}, []int{1}, 1, allKinds), schedBounds{types: coldTypes, levels: 2}),
				genSched(mkEnvs([]int{5}, []int{3}, []int{0, 1}, one, 2, plainKinds), schedBounds{types: coldTypes, levels: 2}),
				genSched(mkEnvs([]int{5}, []int{3}, one, one, 1, plainKinds), schedBounds{types: coldTypes[:7], levels: 2, second: true}),
				genSched(mkEnvs([]int{5}, []int{3}, []int{0, 1}, one, 1, allKinds), schedBounds{types: hotTypes, levels: 2}))},
		{name: "sched/replicas+learners", tiers: "thorough",
			desc: "4 and 5 stores, <=1 non-up store: 1, 2 and 4 replicas (rules off / on), 3 load levels on 4 stores and 2 on 5; 2 or 3 voters + 1 TiKV learner (rules on, every learner position, optional pending follower; 3 load levels for 2 voters on 4 stores, else 2); 2 voters + 1 TiFlash learner (5 stores, 2 TiFlash, 3 load levels); all schedulers (hot ones: 2 load levels, no pending peer)",
			gen: concat(genSched(mkEnvs([]int{4}, []int{1, 2, 4}, []int{0, 1}, one, 1, allKinds), schedBounds{types: coldTypes, levels: 3}),
				genSched(mkEnvs([]int{5}, []int{1, 2, 4}, []int{0, 1}, one, 1, allKinds), schedBounds{types: coldTypes, levels: 2}),
				genSched(mkEnvs([]int{4}, []int{2}, []int{3}, one, 1, allKinds), schedBounds{types: coldTypes, levels: 3, pending: true}),
				genSched(mkEnvs([]int{4}, []int{3}, []int{3}, one, 1, allKinds), schedBounds{types: coldTypes, levels: 2, pending: true}),
				genSched(mkEnvs([]int{5}, []int{2, 3}, []int{3}, one, 1, allKinds), schedBounds{types: coldTypes, levels: 2, pending: true}),
				genSched(tiflashEnvs(5, 2, plainKinds), schedBounds{types: coldTypes, levels: 3}),
				genSched(mkEnvs([]int{4, 5}, []int{1, 2, 4}, []int{0, 1}, one, 1, plainKinds), schedBounds{types: hotTypes, levels: 2}),
				genSched(mkEnvs([]int{4, 5}, []int{2, 3}, []int{3}, one, 1, plainKinds), schedBounds{types: hotTypes, levels: 2}))},
		{name: "sched/scatter-range/capped", tiers: "thorough",
			desc: "scatter-range only acts on >=5 regions per store: 4 stores (<=1 offline/down/evicted/reject-leader), 5 regions on stores 1-3 (every leader store). NOT exhaustive in the random draws: core.RandomRegions draws 10 regions per pick (5^10 outcomes), the first 2000 outcomes of the depth-first enumeration are executed per input and the scope is reported in caps_hit",
			gen:  genSched(mkEnvs([]int{4}, []int{3}, one, one, 1, plainKinds), schedBounds{types: []string{schedulers.ScatterRangeType}, levels: 1, clones: 5, runCap: 2000})},
	}
}

func boundsDoc() interface{} {
	return map[string]interface{}{
		"stores":            "3-6 (scatter), 4-5 (schedulers)",
		"replicas":          "1-4 peers per region (+1 learner under the learner rules)",
		"store_kinds":       kindStr,
		"non_up_stores":     "<=1 quick, <=2 thorough",
		"scatter_histories": "quick: <=2 earlier calls (5 up stores; 4 stores with a non-up store), else <=1; thorough: <=3 (5 up stores), else <=2 (<=1 for the largest environments); groups g1 g2",
		"scatter_last_call": "every region of the environment that counts as replicated, every peer order, every voter leader; ScatterRegions on pairs; a pending peer",
		"scheduler_loads":   "per-store load level in {low, mid, high} = region count {2,40,100} / leader count {1,15,40} / flow {0,4.5,7.5} MB/s",
		"scheduler_regions": "1 region (every leader, learner position, optional pending follower) and 1 further region sharing no (store, role) with it",
		"schedulers":        append(append([]string(nil), coldTypes...), hotTypes...),
		"random_draws":      "all outcomes (vrand), run cap per input 20000 (scheduler) / 4096 (scatter), inputs hitting the cap are reported in caps_hit",
	}
}

func assumptions() []string {
	return []string{
		"regionsim models a TiKV 5.0 store applying PD's commands; it is cross-checked at start-up against the steps' own IsFinish / ConfVerChanged; a newly added peer is first pending, then caught up",
		"pkg/mock/mockcluster is the opt.Cluster (joint consensus supported and enabled); stores are built with core.StoreInfo options; time is virtual (vclock at a fixed epoch): up stores have a heartbeat at the epoch, disconnected 40 s before, down 24 h before",
		"the oracle is written from the statement: a store is 'up' for receiving a peer when it is not offline / tombstone / down / disconnected; a store 'accepts leaders' when it is up, leader transfer to it is not paused (evict-leader), it has no reject-leader label and is not a TiFlash store; same number of voters and learners before and after; never two peers on a store; no store both loses and receives a peer; the operator must be executable by the store step by step",
		"Go map iteration order inside pd (peers and target peers in scatterRegion, stores in GetStores, hot-store maps) is not controlled: each run takes one order; the inputs' peer orders are permuted (maps of <=8 entries iterate as a rotation of insertion order); this dimension is not claimed exhaustive",
		"random draws in the history calls of a scatter sequence take their first outcome (the only draw, in CreateScatterRegionOperator, is overridden by the scatterer's target leader); every history call is itself the last call of a shorter enumerated input, where all outcomes are enumerated",
		"the hot schedulers choose read / write with a private generator seeded from the clock (rand.Int, not a choice point of the shim): the scheduler is created at a virtual time whose seed selects the wanted type",
		"grant-leader is only run with an up granted store (its purpose is to force leaders onto the configured store); random-merge is excluded (it merges, it does not move peers); scatter-range is run on the same scenarios as the others but needs >=5 regions per store to act, whose 10 up-front region draws per pick (5^10 outcomes) are beyond exhaustive enumeration: its inner balance-leader / balance-region code is what the standalone schedulers exercise",
		"schedulers see at most one region per (store, role) so that core's RandomRegions (10 draws per pick) has a single outcome per pick",
	}
}
