package main

var plainKinds = []int{kOffline, kDown, kEvicted, kReject}
var allKinds = []int{kOffline, kDown, kDisconn, kTomb, kEvicted, kReject, kTiFlash}

func scopes() []*scope {
	return []*scope{
		{name: "scatter/5stores/hist2", tiers: "quick", desc: "",
			gen: genScatter(mkEnvs([]int{5}, []int{3}, []int{0}, []int{0}, 0, nil), scatterBounds{hist: 2, groups: 2})},
		{name: "scatter/4stores/1special", tiers: "quick", desc: "",
			gen: genScatter(mkEnvs([]int{4}, []int{3}, []int{0,1}, []int{0}, 1, plainKinds), scatterBounds{hist: 2, groups: 2})},
		{name: "sched/4stores", tiers: "quick", desc: "",
			gen: genSched(mkEnvs([]int{4}, []int{3}, []int{0}, []int{0}, 1, allKinds), schedBounds{types: allSchedTypes, levels: 3, pending: true})},
	}
}

func boundsDoc() interface{} { return nil }
func assumptions() []string  { return nil }
