// Check C11: scatter and balance moves preserve a region's replica count and roles.
//
// Engines C + B on the real schedule.RegionScatterer (Scatter / ScatterRegions,
// with histories of earlier scatter calls that bias later choices through the
// selected-store counters) and on every built-in scheduler that moves peers or
// leaders, created through schedule.CreateScheduler, with pkg/mock/mockcluster
// as the opt.Cluster. Every operator that comes out is executed step by step on
// the TiKV region simulator (verif/engine/regionsim) and the oracle below,
// written from the property statement, is evaluated:
//
//	<who>/replica-lost, <who>/replica-added, <who>/role-count-changed   number of peers (per role) differs after the operator
//	<who>/two-peers-on-store, <who>/peer-to-store-holding-region
//	<who>/peer-to-store:<state>                          a peer is added on a store that is not up
//	<who>/leader-to-learner, <who>/leader-to-absent
//	<who>/leader-to-store:<state>                        leadership goes to a store that does not accept leaders
//	<who>/source-equals-target                           a peer is removed from and added to the same store
//	<who>/left-in-joint-state, <who>/leader-lost
//	<who>/exec:<...>                                     the operator cannot be executed by the store (refused / unsafe / never finished step)
//	<who>/foreign-region, <who>/panic
//
// <who> is "scatter" or the scheduler type. scatter.go and sched.go hold the two
// harnesses, scopes.go the enumerated bounds of both tiers.
//
// Flags: -scope <prefix> (only these scopes), -list (input counts), -budget <s>,
// -replay <file>; VERIF_C11_CPUPROFILE=file profiles worker 0.
package main

import (
	"context"
	"encoding/json"
	"flag"
	"fmt"
	"os"
	"os/exec"
	"runtime"
	"runtime/pprof"
	"sort"
	"strings"
	"sync"
	"syscall"
	"time"

	"github.com/pingcap/kvproto/pkg/metapb"
	"github.com/pingcap/kvproto/pkg/pdpb"
	"github.com/pingcap/log"
	"github.com/tikv/pd/pkg/mock/mockcluster"
	"github.com/tikv/pd/pkg/verifshim/vclock"
	"github.com/tikv/pd/server/config"
	"github.com/tikv/pd/server/core"
	"github.com/tikv/pd/server/schedule/operator"
	"github.com/tikv/pd/server/schedule/opt"
	"github.com/tikv/pd/server/schedule/placement"
	"github.com/tikv/pd/server/versioninfo"
	"go.uber.org/zap"
	"verif/engine/evidence"
	"verif/engine/regionsim"
)

const property = "C11"

// ---------------------------------------------------------------- environment

// store kinds
const (
	kUp = iota
	kOffline
	kDown
	kDisconn
	kTomb
	kEvicted      // leader transfer paused (an evict-leader scheduler owns the store)
	kReject       // reject-leader label property
	kTiFlash      // engine=tiflash label
	kTiFlashOff   // engine=tiflash label, store offline
	kFollowerOnly // label role=follower: under Rules 4 the store matches the follower rule only
)

func isTiFlash(kind int) bool { return kind == kTiFlash || kind == kTiFlashOff }

var kindStr = []string{"up", "offline", "down", "disconnected", "tombstone", "evicted", "reject-leader", "tiflash", "tiflash+offline", "follower-rule-only"}

// the oracle's own classification, from the statement: "peers move only to up
// stores", "leaders only to ... stores that accept leaders"
var peerOK = []bool{true, false, false, false, false, true, true, true, false, true}
var leaderOK = []bool{true, false, false, false, false, false, false, false, false, false}

type envSpec struct {
	N        int   `json:"stores"`
	Kinds    []int `json:"kinds"`           // per store 1..N
	Layout   int   `json:"layout"`          // 0 no location labels; 1 zones z1 z1 z2 z2 z3 z3, location-labels [zone]
	Replicas int   `json:"replicas"`        // max-replicas = voters of the default rule
	Rules    int   `json:"rules"`           // 0 placement rules off; 1 on (default rule); 2 on + 1 learner on engine=tiflash; 3 on + 1 learner anywhere; 4 on: replicas-1 voters + 1 follower on role=follower stores
	Joint    int   `json:"joint,omitempty"` // 0 joint consensus supported and enabled; 1 switched off (enable-joint-consensus=false); 2 not supported (stores older than 5.0)
}

func (e envSpec) key() string { b, _ := json.Marshal(e); return string(b) }

func (e envSpec) String() string {
	var st []string
	for i, s := range e.Kinds {
		if s != kUp {
			st = append(st, fmt.Sprintf("%d=%s", i+1, kindStr[s]))
		}
	}
	j := []string{"", " joint-off", " joint-unsupported"}[e.Joint]
	return fmt.Sprintf("stores=%d replicas=%d rules=%d layout=%d%s non-up[%s]", e.N, e.Replicas, e.Rules, e.Layout, j, strings.Join(st, ","))
}

func (e envSpec) kind(store uint64) int {
	if store == 0 || int(store) > len(e.Kinds) {
		return -1
	}
	return e.Kinds[store-1]
}

func (e envSpec) peers() int {
	if e.Rules == 2 || e.Rules == 3 {
		return e.Replicas + 1
	}
	return e.Replicas
}

func must(err error) {
	if err != nil {
		fmt.Fprintf(os.Stderr, "INFRA: %v\n", err)
		os.Exit(2)
	}
}

func storeLabels(e envSpec, id uint64) []*metapb.StoreLabel {
	var labels []*metapb.StoreLabel
	if e.Layout == 1 {
		labels = append(labels, &metapb.StoreLabel{Key: "zone", Value: fmt.Sprintf("z%d", (id+1)/2)})
	}
	switch e.kind(id) {
	case kReject:
		labels = append(labels, &metapb.StoreLabel{Key: "noleader", Value: "true"})
	case kTiFlash, kTiFlashOff:
		labels = append(labels, &metapb.StoreLabel{Key: "engine", Value: "tiflash"})
	case kFollowerOnly:
		labels = append(labels, &metapb.StoreLabel{Key: "role", Value: "follower"})
	}
	return labels
}

const gb = 1 << 30

// newStore builds the StoreInfo of store id; regionCount / leaderCount give its load.
func newStore(e envSpec, id uint64, regionCount, leaderCount int) *core.StoreInfo {
	const regionSize = 96 // MiB
	stats := &pdpb.StoreStats{Capacity: 1000 * gb, UsedSize: uint64(regionCount) * regionSize << 20}
	stats.Available = stats.Capacity - stats.UsedSize
	o := []core.StoreCreateOption{core.SetStoreStats(stats), core.SetLastHeartbeatTS(vclock.Epoch),
		core.SetRegionCount(regionCount), core.SetRegionSize(int64(regionCount) * regionSize),
		core.SetLeaderCount(leaderCount), core.SetLeaderSize(int64(leaderCount) * regionSize)}
	switch e.kind(id) {
	case kOffline, kTiFlashOff:
		o = append(o, core.OfflineStore(false))
	case kDown:
		o = append(o, core.SetLastHeartbeatTS(vclock.Epoch.Add(-24*time.Hour)))
	case kDisconn:
		o = append(o, core.SetLastHeartbeatTS(vclock.Epoch.Add(-40*time.Second)))
	case kTomb:
		o = append(o, core.TombstoneStore())
	case kEvicted:
		o = append(o, core.PauseLeaderTransfer())
	}
	return core.NewStoreInfo(&metapb.Store{Id: id, Labels: storeLabels(e, id)}, o...)
}

func newCluster(e envSpec) (*mockcluster.Cluster, context.CancelFunc) {
	ctx, cancel := context.WithCancel(context.Background())
	// the replication config is set before the cluster is created: NewCluster
	// initialises the rule manager (default rule = max-replicas voters with the
	// location labels) when placement rules are enabled, which is the default
	opts := config.NewTestOptions()
	rc := opts.GetReplicationConfig().Clone()
	rc.MaxReplicas = uint64(e.Replicas)
	rc.EnablePlacementRules = e.Rules > 0
	rc.LocationLabels = nil
	if e.Layout == 1 {
		rc.LocationLabels = []string{"zone"}
	}
	opts.SetReplicationConfig(rc)
	if e.Joint == 1 {
		sc := opts.GetScheduleConfig().Clone()
		sc.EnableJointConsensus = false
		opts.SetScheduleConfig(sc)
	}
	c := mockcluster.NewCluster(ctx, opts)
	if e.Joint == 2 {
		c.DisableFeature(versioninfo.JointConsensus)
	}
	c.SetLabelPropertyConfig(config.LabelPropertyConfig{opt.RejectLeader: {{Key: "noleader", Value: "never"}, {Key: "noleader", Value: "true"}}})
	for i := 0; i < e.N; i++ {
		c.PutStore(newStore(e, uint64(i+1), 0, 0))
	}
	switch e.Rules {
	case 2:
		must(c.RuleManager.SetRule(&placement.Rule{GroupID: "pd", ID: "learner", Role: placement.Learner, Count: 1,
			LabelConstraints: []placement.LabelConstraint{{Key: "engine", Op: placement.In, Values: []string{"tiflash"}}}}))
	case 3:
		must(c.RuleManager.SetRule(&placement.Rule{GroupID: "pd", ID: "learner", Role: placement.Learner, Count: 1}))
	case 4:
		// replicas-1 voters on the ordinary stores, one follower on the stores labelled role=follower:
		// those stores hold voters that must never lead
		must(c.RuleManager.SetRule(&placement.Rule{GroupID: "pd", ID: "default", Role: placement.Voter, Count: e.Replicas - 1,
			LabelConstraints: []placement.LabelConstraint{{Key: "role", Op: placement.NotIn, Values: []string{"follower"}}}}))
		must(c.RuleManager.SetRule(&placement.Rule{GroupID: "pd", ID: "follower", Role: placement.Follower, Count: 1,
			LabelConstraints: []placement.LabelConstraint{{Key: "role", Op: placement.In, Values: []string{"follower"}}}}))
	}
	// peer ids handed out by the allocator stay away from store ids and the inputs' peer ids
	for i := 0; i < 5000; i++ {
		c.AllocID()
	}
	return c, cancel
}

// ---------------------------------------------------------------- regions

const (
	rV = 0
	rL = 1
)

var metaRole = []metapb.PeerRole{metapb.PeerRole_Voter, metapb.PeerRole_Learner}
var roleStr = []string{"v", "l"}

type peerSpec struct {
	S uint64 `json:"s"`
	R int    `json:"r"`
}

type regionSpec struct {
	Peers   []peerSpec `json:"peers"` // in region.GetPeers() order
	Leader  uint64     `json:"leader"`
	Pending uint64     `json:"pending,omitempty"` // store of a peer reported pending
}

func (r regionSpec) String() string {
	var l []string
	for _, p := range r.Peers {
		s := fmt.Sprintf("%d:%s", p.S, roleStr[p.R])
		if p.S == r.Leader {
			s += "*"
		}
		if p.S == r.Pending {
			s += "(p)"
		}
		l = append(l, s)
	}
	return "{" + strings.Join(l, " ") + "}"
}

func (r regionSpec) sim(id uint64) *regionsim.Region {
	var ps []regionsim.Peer
	for _, p := range r.Peers {
		ps = append(ps, regionsim.Peer{ID: id*100 + p.S, Store: p.S, Role: metaRole[p.R]})
	}
	s := regionsim.New(id, ps, r.Leader)
	if r.Pending != 0 {
		if p := s.StorePeer(r.Pending); p != nil {
			s.Pending[p.ID] = true
		}
	}
	return s
}

func subsets(n, k int) [][]uint64 {
	var out [][]uint64
	for mask := 1; mask < 1<<uint(n); mask++ {
		var s []uint64
		for i := 0; i < n; i++ {
			if mask&(1<<uint(i)) != 0 {
				s = append(s, uint64(i+1))
			}
		}
		if len(s) == k {
			out = append(out, s)
		}
	}
	return out
}

func permutations(n int) [][]int {
	if n == 0 {
		return [][]int{{}}
	}
	var out [][]int
	for _, p := range permutations(n - 1) {
		for pos := 0; pos <= len(p); pos++ {
			q := append(append(append([]int(nil), p[:pos]...), n-1), p[pos:]...)
			out = append(out, q)
		}
	}
	sort.Slice(out, func(i, j int) bool { return fmt.Sprint(out[i]) < fmt.Sprint(out[j]) })
	return out
}

// ---------------------------------------------------------------- oracle

type violation struct {
	Key string
	Msg string
}

type counters struct {
	Inputs    int64            `json:"inputs"`
	Calls     int64            `json:"calls"`    // Scatter / ScatterRegions / Schedule invocations
	Runs      int64            `json:"runs"`     // executions incl. every outcome of the random draws
	Produced  int64            `json:"produced"` // inputs whose last call produced at least one operator
	Operators int64            `json:"operators"`
	Steps     int64            `json:"steps"`
	States    int64            `json:"states"`
	Capped    int64            `json:"capped"` // inputs whose random-draw tree was cut by the run cap
	By        map[string]int64 `json:"by"`     // operators per component
	Shapes    map[string]int64 `json:"shapes"` // operators per outcome shape
	StepKinds map[string]int64 `json:"step_kinds"`
	Samples   []string         `json:"samples,omitempty"`
}

func newCounters() *counters {
	return &counters{By: map[string]int64{}, Shapes: map[string]int64{}, StepKinds: map[string]int64{}}
}

func merge(dst, src *counters) {
	dst.Inputs += src.Inputs
	dst.Calls += src.Calls
	dst.Runs += src.Runs
	dst.Produced += src.Produced
	dst.Operators += src.Operators
	dst.Steps += src.Steps
	dst.States += src.States
	dst.Capped += src.Capped
	for k, v := range src.By {
		dst.By[k] += v
	}
	for k, v := range src.Shapes {
		dst.Shapes[k] += v
	}
	for k, v := range src.StepKinds {
		dst.StepKinds[k] += v
	}
}

func stepType(s operator.OpStep) string {
	return strings.TrimPrefix(fmt.Sprintf("%T", s), "operator.")
}

type runner struct {
	cnt     *counters
	verbose bool
}

func (rn *runner) logf(f string, a ...interface{}) {
	if rn.verbose {
		fmt.Printf(f+"\n", a...)
	}
}

// lazyStr renders a message part only when a violation is reported.
type lazyStr func() string

func (l lazyStr) String() string { return l() }

func roleCounts(r *regionsim.Region) (voters, learners, joint int) {
	for _, p := range r.Peers {
		switch p.Role {
		case metapb.PeerRole_Voter:
			voters++
		case metapb.PeerRole_Learner:
			learners++
		default:
			joint++
		}
	}
	return
}

// execute runs the operator's steps on r like the operator controller would and
// evaluates the oracle. who names the component that produced the operator, ctx
// renders the input for messages.
func (rn *runner) execute(e envSpec, who string, op *operator.Operator, r *regionsim.Region, ctx func() string) *violation {
	before := r.Clone()
	bad := func(key, f string, a ...interface{}) *violation {
		var steps []string
		for i := 0; i < op.Len(); i++ {
			steps = append(steps, op.Step(i).String())
		}
		return &violation{Key: who + "/" + key, Msg: fmt.Sprintf(f, a...) + fmt.Sprintf("\n  region before: %s\n  operator: %s\n  input: %s", before, strings.Join(steps, " ; "), ctx())}
	}
	rn.cnt.Operators++
	rn.cnt.By[who]++
	rn.cnt.States++
	leaderMoved := false
	acceptsLeader := func(store uint64, at fmt.Stringer) *violation {
		k := e.kind(store)
		if k < 0 {
			return bad("leader-to-store:missing", "%s: leadership goes to store %d which does not exist", at, store)
		}
		if !leaderOK[k] {
			return bad("leader-to-store:"+kindStr[k], "%s: leadership goes to store %d which is %s (does not accept leaders)", at, store, kindStr[k])
		}
		return nil
	}
	for i := 0; i < op.Len(); i++ {
		step := op.Step(i)
		typ := stepType(step)
		info := r.Info()
		if step.IsFinish(info) {
			continue
		}
		rn.cnt.Steps++
		rn.cnt.StepKinds[typ]++
		at := lazyStr(func() string { return fmt.Sprintf("step %d/%d [%s] (region %s)", i+1, op.Len(), step, r) })
		// (1) the statement's conditions on the individual moves
		var addStore, addID uint64
		switch st := step.(type) {
		case operator.AddPeer:
			addStore, addID = st.ToStore, st.PeerID
		case operator.AddLearner:
			addStore, addID = st.ToStore, st.PeerID
		case operator.AddLightPeer:
			addStore, addID = st.ToStore, st.PeerID
		case operator.AddLightLearner:
			addStore, addID = st.ToStore, st.PeerID
		case operator.TransferLeader:
			p := r.StorePeer(st.ToStore)
			switch {
			case p == nil:
				return bad("leader-to-absent", "%s: leadership goes to a store without peer", at)
			case p.Role == metapb.PeerRole_Learner || p.Role == metapb.PeerRole_DemotingVoter:
				return bad("leader-to-learner", "%s: leadership goes to a %s peer", at, p.Role)
			}
			if st.ToStore != r.LeaderStore() {
				leaderMoved = true
				if v := acceptsLeader(st.ToStore, at); v != nil {
					return v
				}
			}
		case operator.MergeRegion, operator.SplitRegion:
			return bad("unexpected-step", "%s: a scatter / balance operator must only move peers and leaders", at)
		}
		if addStore != 0 {
			if p := r.StorePeer(addStore); p != nil && p.ID != addID {
				return bad("peer-to-store-holding-region", "%s: a peer is added on store %d which still holds peer %d of the region", at, addStore, p.ID)
			}
			k := e.kind(addStore)
			if k < 0 {
				return bad("peer-to-store:missing", "%s: a peer is added on store %d which does not exist", at, addStore)
			}
			if !peerOK[k] {
				return bad("peer-to-store:"+kindStr[k], "%s: a peer is added on store %d which is %s (not up)", at, addStore, kindStr[k])
			}
			if q := before.StorePeer(addStore); q != nil {
				return bad("source-equals-target", "%s: a peer is added on store %d from which the operator removed the region's peer %d", at, addStore, q.ID)
			}
		}
		// (2) the store executes the step
		if err := step.CheckSafety(info); err != nil {
			return bad("exec:unsafe-step:"+typ, "%s: CheckSafety fails when the step's turn comes: %v", at, err)
		}
		sent, err := r.Apply(step)
		if err != nil || !sent {
			return bad("exec:store-refuses:"+typ, "%s: the store does not execute the step (command sent=%v): %v", at, sent, err)
		}
		rn.cnt.States++
		if r.HasPending() {
			if err := step.CheckSafety(r.Info()); err != nil {
				return bad("exec:unsafe-step-pending:"+typ, "%s: CheckSafety fails while the added peer is pending (%s): %v", at, r, err)
			}
			rn.cnt.States++
			r.CatchUp()
		}
		if !step.IsFinish(r.Info()) {
			return bad("exec:not-finished:"+typ, "%s: after the store executed the command the region is %s but the step does not report finished", at, r)
		}
		// (3) every intermediate state
		for a, p := range r.Peers {
			for _, q := range r.Peers[:a] {
				if q.Store == p.Store {
					return bad("two-peers-on-store", "after %s: two peers on store %d: %s", at, p.Store, r)
				}
			}
		}
		if l := r.LeaderPeer(); l == nil || l.Role == metapb.PeerRole_Learner {
			return bad("leader-lost", "after %s: the region has no voter leader: %s", at, r)
		}
	}
	// (4) the region the operator leaves behind
	if r.InJoint() {
		return bad("left-in-joint-state", "after the operator the region is still in the joint state: %s", r)
	}
	v0, l0, _ := roleCounts(before)
	v1, l1, _ := roleCounts(r)
	if v0+l0 != v1+l1 {
		key := "replica-lost"
		if v1+l1 > v0+l0 {
			key = "replica-added"
		}
		return bad(key, "the region had %d peers (%d voters, %d learners), after the operator it has %d (%d voters, %d learners): %s", v0+l0, v0, l0, v1+l1, v1, l1, r)
	}
	if v0 != v1 || l0 != l1 {
		return bad("role-count-changed", "the region had %d voters and %d learners, after the operator it has %d voters and %d learners: %s", v0, l0, v1, l1, r)
	}
	moved := 0
	for _, p := range r.Peers {
		q := before.StorePeer(p.Store)
		if q == nil {
			moved++
			continue
		}
		if q.ID != p.ID {
			return bad("source-equals-target", "peer %d on store %d was replaced by peer %d on the same store: %s", q.ID, p.Store, p.ID, r)
		}
	}
	if ls := r.LeaderStore(); ls != before.LeaderStore() {
		leaderMoved = true
		if v := acceptsLeader(ls, lazyStr(func() string { return "final state " + r.String() })); v != nil {
			return v
		}
	}
	shape := fmt.Sprintf("%s: %d peer(s) moved", who, moved)
	if leaderMoved {
		shape += ", leader moved"
	}
	rn.cnt.Shapes[shape]++
	if len(rn.cnt.Samples) < 2 && (moved > 0 || who != "scatter") && rn.cnt.By[who] > 3 {
		var steps []string
		for i := 0; i < op.Len(); i++ {
			steps = append(steps, op.Step(i).String())
		}
		rn.cnt.Samples = append(rn.cnt.Samples, fmt.Sprintf("%s => [%s] : %s -> %s", ctx(), strings.Join(steps, " ; "), before, r))
	}
	rn.logf("    executed: %s -> %s", before, r)
	return nil
}

// ---------------------------------------------------------------- inputs / scopes

type input struct {
	Scatter *scatterInput `json:"scatter,omitempty"`
	Sched   *schedInput   `json:"sched,omitempty"`
}

func (in *input) String() string {
	if in.Scatter != nil {
		return in.Scatter.String()
	}
	return in.Sched.String()
}

func (in *input) size() int {
	if in.Scatter != nil {
		n := 0
		for _, c := range in.Scatter.Calls {
			n += 10 + len(c.Regions)
		}
		return n
	}
	return in.Sched.size()
}

// genCtx drives one worker's share of a scope.
type genCtx struct {
	shard, n int
	block    int
	deadline time.Time
	stopped  bool
	emit     func(in *input)
}

// Block starts a new block of inputs; false when it belongs to another worker.
func (g *genCtx) Block() bool {
	if g.stopped {
		return false
	}
	if !g.deadline.IsZero() && time.Now().After(g.deadline) {
		g.stopped = true
		return false
	}
	b := g.block
	g.block++
	// blocks are dealt out pseudo-randomly so that periodic patterns of heavy blocks do not pile up on one worker
	return int((uint64(b)*0x9E3779B97F4A7C15>>33)%uint64(g.n)) == g.shard
}

type scope struct {
	name  string
	tiers string
	desc  string
	gen   func(g *genCtx)
}

type clusterCache struct {
	key    string
	cl     *mockcluster.Cluster
	cancel context.CancelFunc
	// scheduler scenarios: cluster with regions, reused while only the store loads change
	skey    string
	scl     *mockcluster.Cluster
	scancel context.CancelFunc
	ssims   map[uint64]*regionsim.Region
}

func (c *clusterCache) get(e envSpec) *mockcluster.Cluster {
	if k := e.key(); c.cl == nil || c.key != k {
		if c.cancel != nil {
			c.cancel()
		}
		c.cl, c.cancel = newCluster(e)
		c.key = k
	}
	return c.cl
}

func (rn *runner) eval(in *input, cc *clusterCache) (v *violation) {
	defer func() {
		if p := recover(); p != nil {
			buf := make([]byte, 4096)
			buf = buf[:runtime.Stack(buf, false)]
			who := "scatter"
			if in.Sched != nil {
				who = in.Sched.Type
			}
			v = &violation{Key: who + "/panic", Msg: fmt.Sprintf("panic: %v\n%s\n  input: %s", p, buf, in)}
		}
	}()
	rn.cnt.Inputs++
	vclock.Enable(vclock.Epoch) // ScatterRegions sleeps (virtually) between retries: every input starts at the epoch
	if in.Scatter != nil {
		return rn.runScatter(in.Scatter, cc.get(in.Scatter.Env))
	}
	return rn.runSched(in.Sched, cc)
}

// ---------------------------------------------------------------- driver

type vrec struct {
	Key   string `json:"key"`
	Msg   string `json:"msg"`
	Input *input `json:"input"`
}

type result struct {
	CPU      float64   `json:"cpu_s"`
	Cnt      *counters `json:"cnt"`
	Complete bool      `json:"complete"`
	Viol     []vrec    `json:"viol,omitempty"`
}

func runShard(sc *scope, shard, n int, deadline time.Time) *result {
	res := &result{Cnt: newCounters(), Complete: true}
	rn := &runner{cnt: res.Cnt}
	cc := &clusterCache{}
	g := &genCtx{shard: shard, n: n, deadline: deadline}
	g.emit = func(in *input) {
		if g.stopped {
			return
		}
		if res.Cnt.Inputs&255 == 255 && !deadline.IsZero() && time.Now().After(deadline) {
			g.stopped = true
			return
		}
		v := rn.eval(in, cc)
		if v == nil {
			return
		}
		for i, o := range res.Viol {
			if o.Key == v.Key {
				if in.size() < o.Input.size() {
					res.Viol[i] = vrec{Key: v.Key, Msg: v.Msg, Input: in}
				}
				return
			}
		}
		res.Viol = append(res.Viol, vrec{Key: v.Key, Msg: v.Msg, Input: in})
	}
	sc.gen(g)
	res.Complete = !g.stopped
	return res
}

func workerMain(all []*scope, arg string) {
	parts := strings.Split(arg, "\x1f")
	var shard, n int
	var dl int64
	fmt.Sscan(parts[1], &shard)
	fmt.Sscan(parts[2], &n)
	fmt.Sscan(parts[3], &dl)
	var sc *scope
	for _, s := range all {
		if s.name == parts[0] && s.tiers == parts[4] {
			sc = s
		}
	}
	pfd, _ := syscall.Dup(1)
	if dn, err := os.OpenFile(os.DevNull, os.O_WRONLY, 0); err == nil {
		syscall.Dup2(int(dn.Fd()), 1)
		if os.Getenv("VERIF_WORKER_STDERR") == "" {
			syscall.Dup2(int(dn.Fd()), 2)
		}
	}
	var deadline time.Time
	if dl > 0 {
		deadline = time.UnixMilli(dl)
	}
	if pf := os.Getenv("VERIF_C11_CPUPROFILE"); pf != "" && shard == 0 {
		f, _ := os.Create(pf)
		pprof.StartCPUProfile(f)
		defer pprof.StopCPUProfile()
	}
	res := runShard(sc, shard, n, deadline)
	var ru syscall.Rusage
	if syscall.Getrusage(syscall.RUSAGE_SELF, &ru) == nil {
		res.CPU = float64(ru.Utime.Sec+ru.Stime.Sec) + float64(ru.Utime.Usec+ru.Stime.Usec)/1e6
	}
	b, _ := json.Marshal(res)
	out := os.NewFile(uintptr(pfd), "proto")
	out.Write(append(b, '\n'))
	out.Close()
}

func replayFile(path string) int {
	b, err := os.ReadFile(path)
	if err != nil {
		fmt.Fprintln(os.Stderr, err)
		return 2
	}
	var v struct {
		Key    string `json:"key"`
		Replay *input `json:"replay"`
	}
	if err := json.Unmarshal(b, &v); err != nil || v.Replay == nil || (v.Replay.Scatter == nil && v.Replay.Sched == nil) {
		fmt.Fprintf(os.Stderr, "INFRA: bad replay file %s: %v\n", path, err)
		return 2
	}
	fmt.Printf("replaying %s\n(expected key %s; the iteration order of Go maps inside pd is not controlled, the replay is repeated up to 200 times)\n", v.Replay, v.Key)
	for try := 0; try < 200; try++ {
		rn := &runner{cnt: newCounters(), verbose: try == 0}
		cc := &clusterCache{}
		viol := rn.eval(v.Replay, cc)
		if cc.cancel != nil {
			cc.cancel()
		}
		if cc.scancel != nil {
			cc.scancel()
		}
		if viol != nil {
			fmt.Printf("VIOLATION property=%s replay=%s\n  key=%s (attempt %d)\n  %s\n", property, path, viol.Key, try+1, viol.Msg)
			return 1
		}
	}
	fmt.Println("no violation on replay")
	return 0
}

func main() {
	tier := flag.String("tier", "quick", "quick|thorough")
	worker := flag.String("worker", "", "internal")
	replay := flag.String("replay", "", "replay a violation file")
	budget := flag.Int("budget", 0, "time budget in seconds")
	nworkers := flag.Int("workers", 0, "worker processes")
	only := flag.String("scope", "", "only the scopes whose name has this prefix")
	list := flag.Bool("list", false, "list the scopes with their input counts")
	flag.Parse()
	log.ReplaceGlobals(zap.NewNop(), &log.ZapProperties{})
	vclock.Enable(vclock.Epoch)
	all := scopes()
	if *worker != "" {
		workerMain(all, *worker)
		return
	}
	if *replay != "" {
		os.Exit(replayFile(*replay))
	}
	if *budget == 0 {
		*budget = 100
		if *tier == "thorough" {
			*budget = 1100
		}
	}
	if *nworkers == 0 {
		*nworkers = runtime.NumCPU()
	}
	rep := evidence.NewReporter(property)
	cov := evidence.Coverage{Exhaustive: true}
	total := newCounters()

	infra := false
	for _, d := range regionsim.SelfCheck() {
		if strings.HasPrefix(d.Tag, "ChangePeerV2Leave:confver") {
			continue // belongs to C09 (ConfVerChanged), not used here
		}
		fmt.Fprintf(os.Stderr, "INFRA: regionsim disagrees with the code: %s: %s\n", d.Tag, d.Msg)
		infra = true
	}
	if infra {
		os.Exit(2)
	}

	var scs []*scope
	for _, s := range all {
		if s.tiers == *tier && strings.HasPrefix(s.name, *only) {
			scs = append(scs, s)
		}
	}
	if *list {
		for _, sc := range scs {
			n := 0
			g := &genCtx{n: 1}
			g.emit = func(*input) { n++ }
			sc.gen(g)
			fmt.Printf("%-40s %d inputs\n", sc.name, n)
		}
		return
	}
	best := map[string]*vrec{}
	bestScope := map[string]string{}
	var order []string
	deadline := time.Now().Add(time.Duration(*budget) * time.Second)
	for i, sc := range scs {
		remain := time.Until(deadline)
		dl := time.Now().Add(remain / time.Duration(len(scs)-i))
		start := time.Now()
		n := *nworkers
		results := make([]*result, n)
		errs := make([]error, n)
		var wg sync.WaitGroup
		for sh := 0; sh < n; sh++ {
			wg.Add(1)
			go func(sh int) {
				defer wg.Done()
				cmd := exec.Command(os.Args[0], "-worker", fmt.Sprintf("%s\x1f%d\x1f%d\x1f%d\x1f%s", sc.name, sh, n, dl.UnixMilli(), *tier))
				cmd.Stderr = os.Stderr
				cmd.Env = append(os.Environ(), "GOMAXPROCS=2", "GOGC=400")
				out, err := cmd.Output()
				if err != nil {
					errs[sh] = fmt.Errorf("worker %d: %v", sh, err)
					return
				}
				var r result
				for _, line := range strings.Split(string(out), "\n") {
					if strings.HasPrefix(line, "{") && json.Unmarshal([]byte(line), &r) == nil {
						results[sh] = &r
					}
				}
				if results[sh] == nil {
					errs[sh] = fmt.Errorf("worker %d: no result", sh)
				}
			}(sh)
		}
		wg.Wait()
		tot := newCounters()
		complete := true
		cpu := 0.0
		for sh := 0; sh < n; sh++ {
			if errs[sh] != nil {
				fmt.Fprintf(os.Stderr, "INFRA: %s scope %s: %v\n", property, sc.name, errs[sh])
				os.Exit(2)
			}
			r := results[sh]
			merge(tot, r.Cnt)
			for _, smp := range r.Cnt.Samples {
				if len(tot.Samples) < 2 {
					tot.Samples = append(tot.Samples, smp)
					cov.Samples = append(cov.Samples, map[string]interface{}{"scope": sc.name, "case": smp})
				}
			}
			cpu += r.CPU
			complete = complete && r.Complete
			for k := range r.Viol {
				v := &r.Viol[k]
				if o, ok := best[v.Key]; !ok {
					best[v.Key] = v
					bestScope[v.Key] = sc.name
					order = append(order, v.Key)
				} else if bestScope[v.Key] == sc.name && v.Input.size() < o.Input.size() {
					best[v.Key] = v
				}
			}
		}
		merge(total, tot)
		if !complete {
			cov.Exhaustive = false
			cov.CapsHit = append(cov.CapsHit, fmt.Sprintf("scope %s: time budget reached after %d inputs", sc.name, tot.Inputs))
		}
		if tot.Capped > 0 {
			cov.Exhaustive = false
			cov.CapsHit = append(cov.CapsHit, fmt.Sprintf("scope %s: the random-draw tree of %d inputs was cut by the run cap", sc.name, tot.Capped))
		}
		cov.Scenarios = append(cov.Scenarios, map[string]interface{}{"scope": sc.name, "bounds": sc.desc, "inputs": tot.Inputs, "calls": tot.Calls, "runs_incl_random_outcomes": tot.Runs,
			"inputs_producing_operators": tot.Produced, "operators_executed": tot.Operators, "operators_by_component": tot.By, "steps_executed": tot.Steps, "region_states": tot.States,
			"outcome_shapes": tot.Shapes, "step_kinds": tot.StepKinds, "exhaustive": complete && tot.Capped == 0, "wall_s": time.Since(start).Seconds(), "cpu_s": cpu})
		fmt.Printf("%s %-34s inputs=%d runs=%d operators=%d steps=%d states=%d exhaustive=%v %.1fs (cpu %.0fs)\n", property, sc.name, tot.Inputs, tot.Runs, tot.Operators, tot.Steps, tot.States, complete && tot.Capped == 0, time.Since(start).Seconds(), cpu)
	}
	sort.Strings(order)
	for _, k := range order {
		v := best[k]
		rep.Report(&evidence.Violation{Scenario: bestScope[k], Key: v.Key, Message: v.Msg, Replay: v.Input})
	}
	cov.States = total.States
	cov.Transitions = total.Steps
	cov.TracesValidatedAgainstImpl = total.Operators
	cov.Evaluations = total.Runs
	cov.DistinctNontrivial = total.Produced
	cov.Rule = "every input of the listed scopes is enumerated once (inputs are pairwise distinct by construction: environment x sequence of scatter calls, or environment x store loads x regions x scheduler); for each input every outcome of pd's math/rand draws is enumerated (runs); an input is non-trivial when its last call produces at least one operator; every operator is executed step by step on regionsim (states = region states visited, transitions = steps executed, traces = operators executed) and the oracle is evaluated on it. The iteration order of Go maps inside pd (peers in scatterRegion, stores in GetStores) is not controlled: each run executes one order, the peer order of the inputs is permuted to vary it"
	cov.Bounds = boundsDoc()
	cov.KnownFindings = rep.KnownReported()
	ev := &evidence.File{PropertyID: property, Tier: *tier, Seed: evidence.Seed(), Level: "model_checking", Coverage: cov, WallS: rep.Wall(), Violations: len(rep.Unknown),
		Assumptions: assumptions()}
	if err := evidence.Write(ev); err != nil {
		fmt.Fprintf(os.Stderr, "INFRA: write evidence: %v\n", err)
		os.Exit(2)
	}
	if rep.Failed() {
		os.Exit(1)
	}
}
