// Check C08: generated operator steps are safe and reach the requested placement.
//
// Engine C (bounded exhaustive input enumeration) on the real operator.Builder
// and operator.Create*Operator helpers with pkg/mock/mockcluster as
// opt.Cluster. Every produced operator is executed step by step on the TiKV
// region simulator (verif/engine/regionsim) exactly like the operator
// controller drives it (skip steps that report finished, CheckSafety, send the
// command, new peer first pending then caught up) and the oracle below, written
// from the property statement, is evaluated on every intermediate state.
//
// Violation keys (stable; "/joint" or "/plain" = the operator contains
// ChangePeerV2 steps or not):
//
//	leader-removed, leader-demoted, leader-demoted-by-leave   the current leader is removed / demoted
//	leader-to-absent, leader-to-learner, leader-to-demoting   leadership goes to a peer that must not lead
//	two-peers-on-store, duplicate-peer-id, leader-lost        malformed intermediate region
//	voters-below-min:<Step>                                   voters (either joint configuration) < min(origin, target)
//	unsafe-step:<Step>, unsafe-step-pending:<Step>            the step's own CheckSafety fails at its turn
//	store-refuses:<Step>                                      the simulated store refuses the command
//	not-finished:<Step>, enter-joint-single-change            the step does not report finished after it was executed
//	final-peers, final-leader, final-follower-leads           the final region is not the requested one
//	merge-peers-mismatch, merge-passive, nil-operator, panic
//
// Debug switches: VERIF_C08_SPLIT=1 (keys also carry helper/feature/flags, to
// list every failing class), VERIF_C08_V2_ALWAYS_JOINT=1 (simulated store enters
// the joint state for a single-change ChangePeerV2, as pd assumes),
// VERIF_C08_CPUPROFILE=file (profile worker 0).
package main

import (
	"context"
	"encoding/json"
	"flag"
	"fmt"
	"os"
	"os/exec"
	"runtime"
	"runtime/pprof"
	"sort"
	"strings"
	"sync"
	"syscall"
	"time"

	"github.com/pingcap/kvproto/pkg/metapb"
	"github.com/pingcap/kvproto/pkg/pdpb"
	"github.com/pingcap/log"
	"github.com/tikv/pd/pkg/mock/mockcluster"
	"github.com/tikv/pd/server/config"
	"github.com/tikv/pd/server/core"
	"github.com/tikv/pd/server/schedule/operator"
	"github.com/tikv/pd/server/schedule/opt"
	"github.com/tikv/pd/server/schedule/placement"
	"github.com/tikv/pd/server/versioninfo"
	"go.uber.org/zap"
	"verif/engine/enum"
	"verif/engine/evidence"
	"verif/engine/regionsim"
)

const property = "C08"

// ---------------------------------------------------------------- inputs

// roles of peerSpec.R
const (
	rV  = 0 // voter
	rL  = 1 // learner
	rIn = 2 // incoming voter (joint)
	rDe = 3 // demoting voter (joint)
)

var metaRole = []metapb.PeerRole{metapb.PeerRole_Voter, metapb.PeerRole_Learner, metapb.PeerRole_IncomingVoter, metapb.PeerRole_DemotingVoter}
var roleStr = []string{"v", "l", "in", "de"}

type peerSpec struct {
	S uint64 `json:"s"`
	R int    `json:"r"`
}

// store states
const (
	sUp      = 0
	sOffline = 1
	sDown    = 2
	sEvicted = 3 // leader transfer paused (evict-leader)
	sReject  = 4 // reject-leader label property
)

var stateStr = []string{"up", "offline", "down", "evicted", "reject-leader"}

type envSpec struct {
	N       int   `json:"stores"`
	States  []int `json:"states"`  // per store 1..N
	Layout  int   `json:"layout"`  // 0 all stores in one zone/host, 1 zones z1 z1 z2 z2 z3 z3 with hosts
	Feature int   `json:"feature"` // 0 joint consensus used, 1 supported but switched off (demote allowed), 2 not supported
	Rules   int   `json:"rules"`   // 0 the default configuration (placement rules on, default rule only), 1 voters in z1/z2 + learner in z3, 2 placement rules switched off, 3 leader in z1 + 2 followers outside z1
}

func (e envSpec) key() string { b, _ := json.Marshal(e); return string(b) }

func (e envSpec) String() string {
	var st []string
	for i, s := range e.States {
		if s != sUp {
			st = append(st, fmt.Sprintf("%d=%s", i+1, stateStr[s]))
		}
	}
	f := []string{"joint", "demote-only", "no-joint"}[e.Feature]
	return fmt.Sprintf("stores=%d layout=%d %s rules=%d non-up[%s]", e.N, e.Layout, f, e.Rules, strings.Join(st, ","))
}

type roleSpec struct {
	S    uint64 `json:"s"`
	Role string `json:"role"` // leader voter follower learner
}

type input struct {
	Env       envSpec    `json:"env"`
	Origin    []peerSpec `json:"origin"`
	Leader    uint64     `json:"leader"`
	Pending   uint64     `json:"pending,omitempty"` // store of an origin peer reported pending
	Kind      string     `json:"kind"`
	Target    []peerSpec `json:"target,omitempty"`
	ReqLeader uint64     `json:"req_leader,omitempty"`
	Roles     []roleSpec `json:"roles,omitempty"`
	Light     bool       `json:"light,omitempty"`
	Force     bool       `json:"force,omitempty"`
	A         uint64     `json:"a,omitempty"`
	B         uint64     `json:"b,omitempty"`
	C         uint64     `json:"c,omitempty"`
	AR        int        `json:"ar,omitempty"`
}

func peersStr(ps []peerSpec, leader uint64) string {
	var l []string
	for _, p := range ps {
		s := fmt.Sprintf("%d:%s", p.S, roleStr[p.R])
		if p.S == leader {
			s += "*"
		}
		l = append(l, s)
	}
	return "{" + strings.Join(l, " ") + "}"
}

func (in *input) String() string {
	var b strings.Builder
	fmt.Fprintf(&b, "%s origin=%s", in.Kind, peersStr(in.Origin, in.Leader))
	if in.Pending != 0 {
		fmt.Fprintf(&b, " pending=%d", in.Pending)
	}
	if in.Target != nil {
		fmt.Fprintf(&b, " target=%s", peersStr(in.Target, in.ReqLeader))
	}
	if in.Roles != nil {
		fmt.Fprintf(&b, " roles=%v", in.Roles)
	}
	if in.Target == nil && in.ReqLeader != 0 {
		fmt.Fprintf(&b, " leader->%d", in.ReqLeader)
	}
	if in.A != 0 || in.B != 0 || in.C != 0 {
		fmt.Fprintf(&b, " args=(%d,%d:%s,%d)", in.A, in.B, roleStr[in.AR], in.C)
	}
	if in.Light {
		b.WriteString(" light")
	}
	if in.Force {
		b.WriteString(" force-leader")
	}
	fmt.Fprintf(&b, " | %s", in.Env)
	return b.String()
}

// shape is a coarse canonical signature of an input that does not depend on how the stores are
// numbered: the multiset of per-store role transitions (origin role -> requested role), plus
// operation kind and feature level. Leader position, store states, pending marks and flags are
// left out on purpose: the class must be small enough to list as a known finding and still
// separate different planner paths.
func shape(in *input) string {
	type t struct{ o, g string }
	m := map[uint64]*t{}
	get := func(s uint64) *t {
		if m[s] == nil {
			m[s] = &t{o: "-", g: "-"}
		}
		return m[s]
	}
	for _, p := range in.Origin {
		get(p.S).o = roleStr[p.R]
	}
	for _, p := range in.Target {
		get(p.S).g = roleStr[p.R]
	}
	for _, r := range in.Roles {
		get(r.S).g = r.Role
	}
	for _, a := range []uint64{in.A, in.B, in.C} {
		if a != 0 {
			get(a).g += "#"
		}
	}
	var l []string
	for _, x := range m {
		if x.o == "-" && x.g == "-" {
			continue
		}
		l = append(l, x.o+">"+x.g)
	}
	sort.Strings(l)
	f := []string{"joint", "demote-only", "no-joint"}[in.Env.Feature]
	return fmt.Sprintf("%s/%s[%s]", in.Kind, f, strings.Join(l, " "))
}

// ---------------------------------------------------------------- cluster

var farFuture = time.Now().Add(1000 * time.Hour)

func storeLabels(layout int, id uint64) map[string]string {
	if layout == 0 {
		return map[string]string{"zone": "z1", "host": "h1"}
	}
	zone := fmt.Sprintf("z%d", (id+1)/2)
	host := fmt.Sprintf("h%d", id)
	return map[string]string{"zone": zone, "host": host}
}

func newCluster(e envSpec) (*mockcluster.Cluster, context.CancelFunc) {
	ctx, cancel := context.WithCancel(context.Background())
	opts := config.NewTestOptions()
	c := mockcluster.NewCluster(ctx, opts)
	c.SetLabelPropertyConfig(config.LabelPropertyConfig{opt.RejectLeader: {{Key: "noleader", Value: "never"}, {Key: "noleader", Value: "true"}}})
	c.SetLocationLabels([]string{"zone", "host"})
	switch e.Feature {
	case 1:
		s := c.GetScheduleConfig().Clone()
		s.EnableJointConsensus = false
		c.SetScheduleConfig(s)
	case 2:
		c.DisableFeature(versioninfo.JointConsensus)
	}
	for i := 0; i < e.N; i++ {
		id := uint64(i + 1)
		var labels []*metapb.StoreLabel
		lm := storeLabels(e.Layout, id)
		for _, k := range []string{"zone", "host"} {
			labels = append(labels, &metapb.StoreLabel{Key: k, Value: lm[k]})
		}
		o := []core.StoreCreateOption{core.SetStoreStats(&pdpb.StoreStats{Capacity: 1 << 40, Available: 1 << 39}), core.SetLastHeartbeatTS(farFuture)}
		switch e.States[i] {
		case sOffline:
			o = append(o, core.OfflineStore(false))
		case sDown:
			o = append(o, core.SetLastHeartbeatTS(time.Time{}))
		case sEvicted:
			o = append(o, core.PauseLeaderTransfer())
		case sReject:
			labels = append(labels, &metapb.StoreLabel{Key: "noleader", Value: "true"})
		}
		c.PutStore(core.NewStoreInfo(&metapb.Store{Id: id, Labels: labels}, o...))
	}
	if e.Rules == 2 {
		c.SetEnablePlacementRules(false)
	}
	if e.Rules == 1 {
		c.SetEnablePlacementRules(true)
		must(c.RuleManager.SetRule(&placement.Rule{GroupID: "pd", ID: "default", Role: placement.Voter, Count: 2,
			LabelConstraints: []placement.LabelConstraint{{Key: "zone", Op: placement.In, Values: []string{"z1", "z2"}}}}))
		must(c.RuleManager.SetRule(&placement.Rule{GroupID: "pd", ID: "z3", Role: placement.Learner, Count: 1,
			LabelConstraints: []placement.LabelConstraint{{Key: "zone", Op: placement.In, Values: []string{"z3"}}}}))
	}
	if e.Rules == 3 {
		// a leader rule and a follower rule: voters on the follower stores must never lead
		c.SetEnablePlacementRules(true)
		must(c.RuleManager.SetRule(&placement.Rule{GroupID: "pd", ID: "default", Role: placement.Leader, Count: 1,
			LabelConstraints: []placement.LabelConstraint{{Key: "zone", Op: placement.In, Values: []string{"z1"}}}}))
		must(c.RuleManager.SetRule(&placement.Rule{GroupID: "pd", ID: "followers", Role: placement.Follower, Count: 2,
			LabelConstraints: []placement.LabelConstraint{{Key: "zone", Op: placement.NotIn, Values: []string{"z1"}}}}))
	}
	// peer ids handed out by the allocator stay away from store ids and origin peer ids
	for i := 0; i < 5000; i++ {
		c.AllocID()
	}
	return c, cancel
}

func must(err error) {
	if err != nil {
		fmt.Fprintf(os.Stderr, "INFRA: %v\n", err)
		os.Exit(2)
	}
}

// ---------------------------------------------------------------- oracle

type violation struct {
	Key string
	Msg string
}

type expect struct {
	peers     map[uint64]metapb.PeerRole
	leader    uint64          // 0 = not requested
	notLeader map[uint64]bool // stores requested as follower
	mergeTo   *regionsim.Region
}

type counters struct {
	Inputs     int64             `json:"inputs"`
	Produced   int64             `json:"produced"`
	Refused    int64             `json:"refused"`
	Operators  int64             `json:"operators"`
	Steps      int64             `json:"steps"`
	Skipped    int64             `json:"skipped"`
	States     int64             `json:"states"`
	RandRuns   int64             `json:"rand_runs"`
	StepKinds  map[string]int64  `json:"step_kinds"`
	ByKind     map[string]int64  `json:"by_kind"`
	ProdByKind map[string]int64  `json:"prod_by_kind"`
	Notes      map[string]int64  `json:"notes"`
	NoteEx     map[string]string `json:"note_ex"`
	MaxSteps   int               `json:"max_steps"`
	MaxSample  []string          `json:"max_sample"`
}

func newCounters() *counters {
	return &counters{StepKinds: map[string]int64{}, ByKind: map[string]int64{}, ProdByKind: map[string]int64{}, Notes: map[string]int64{}, NoteEx: map[string]string{}}
}

func (c *counters) note(tag, ex string) {
	c.Notes[tag]++
	if _, ok := c.NoteEx[tag]; !ok {
		c.NoteEx[tag] = ex
	}
}

func (c *counters) noteF(tag string, f func() string) {
	c.Notes[tag]++
	if _, ok := c.NoteEx[tag]; !ok {
		c.NoteEx[tag] = f()
	}
}

func stepType(s operator.OpStep) string {
	switch s.(type) {
	case operator.TransferLeader:
		return "TransferLeader"
	case operator.AddPeer:
		return "AddPeer"
	case operator.AddLearner:
		return "AddLearner"
	case operator.AddLightPeer:
		return "AddLightPeer"
	case operator.AddLightLearner:
		return "AddLightLearner"
	case operator.PromoteLearner:
		return "PromoteLearner"
	case operator.DemoteFollower:
		return "DemoteFollower"
	case operator.RemovePeer:
		return "RemovePeer"
	case operator.ChangePeerV2Enter:
		return "ChangePeerV2Enter"
	case operator.ChangePeerV2Leave:
		return "ChangePeerV2Leave"
	case operator.MergeRegion:
		return "MergeRegion"
	case operator.SplitRegion:
		return "SplitRegion"
	}
	return strings.TrimPrefix(fmt.Sprintf("%T", s), "operator.")
}

// VERIF_C08_V2_ALWAYS_JOINT=1 (triage aid): the simulated store enters the joint
// state also for a ChangePeerV2 with a single change, as pd's IsFinish assumes.
var v2AlwaysJoint = os.Getenv("VERIF_C08_V2_ALWAYS_JOINT") != ""

func originRegion(in *input, id uint64) *regionsim.Region {
	var ps []regionsim.Peer
	for _, p := range in.Origin {
		ps = append(ps, regionsim.Peer{ID: id*1000 + p.S, Store: p.S, Role: metaRole[p.R]})
	}
	r := regionsim.New(id, ps, in.Leader)
	r.V2AlwaysJoint = v2AlwaysJoint
	if in.Pending != 0 {
		if p := r.StorePeer(in.Pending); p != nil {
			r.Pending[p.ID] = true
		}
	}
	return r
}

func targetMap(ps []peerSpec) map[uint64]*metapb.Peer {
	m := map[uint64]*metapb.Peer{}
	for _, p := range ps {
		m[p.S] = &metapb.Peer{StoreId: p.S, Role: metaRole[p.R]}
	}
	return m
}

func originExpect(in *input) *expect {
	e := &expect{peers: map[uint64]metapb.PeerRole{}}
	for _, p := range in.Origin {
		e.peers[p.S] = metaRole[p.R]
	}
	return e
}

// build calls the real code for the input and derives the requested placement.
func build(in *input, cl *mockcluster.Cluster, r *regionsim.Region) ([]*operator.Operator, *expect, error) {
	region := r.Info()
	exp := originExpect(in)
	one := func(op *operator.Operator, err error) ([]*operator.Operator, *expect, error) {
		if err != nil {
			return nil, nil, err
		}
		return []*operator.Operator{op}, exp, nil
	}
	newPeer := func(store uint64, role int) *metapb.Peer { return &metapb.Peer{StoreId: store, Role: metaRole[role]} }
	switch in.Kind {
	case "set-peers":
		b := operator.NewBuilder("c08", cl, region).SetPeers(targetMap(in.Target))
		if in.ReqLeader != 0 {
			b.SetLeader(in.ReqLeader)
		}
		if in.Light {
			b.EnableLightWeight()
		}
		if in.Force {
			b.EnableForceTargetLeader()
		}
		exp.peers = map[uint64]metapb.PeerRole{}
		for _, p := range in.Target {
			exp.peers[p.S] = metaRole[p.R]
		}
		exp.leader = in.ReqLeader
		return one(b.Build(0))
	case "move-region":
		roles := map[uint64]placement.PeerRoleType{}
		exp.peers = map[uint64]metapb.PeerRole{}
		exp.notLeader = map[uint64]bool{}
		for _, rs := range in.Roles {
			role := placement.PeerRoleType(rs.Role)
			roles[rs.S] = role
			exp.peers[rs.S] = role.MetaPeerRole()
			switch role {
			case placement.Leader:
				exp.leader = rs.S
			case placement.Follower:
				exp.notLeader[rs.S] = true
			}
		}
		return one(operator.CreateMoveRegionOperator("c08", cl, region, 0, roles))
	case "add-peer":
		exp.peers[in.A] = metaRole[in.AR]
		return one(operator.CreateAddPeerOperator("c08", cl, region, newPeer(in.A, in.AR), 0))
	case "remove-peer":
		delete(exp.peers, in.A)
		return one(operator.CreateRemovePeerOperator("c08", cl, 0, region, in.A))
	case "promote-learner":
		exp.peers[in.A] = metapb.PeerRole_Voter
		return one(operator.CreatePromoteLearnerOperator("c08", cl, region, &metapb.Peer{StoreId: in.A}))
	case "demote-voter":
		exp.peers[in.A] = metapb.PeerRole_Learner
		return one(operator.NewBuilder("c08", cl, region).DemoteVoter(in.A).Build(0))
	case "transfer-leader":
		exp.leader = in.A
		return one(operator.CreateTransferLeaderOperator("c08", cl, region, in.Leader, in.A, 0))
	case "force-transfer-leader":
		exp.leader = in.A
		return one(operator.CreateForceTransferLeaderOperator("c08", cl, region, in.Leader, in.A, 0))
	case "move-peer":
		delete(exp.peers, in.A)
		exp.peers[in.B] = metaRole[in.AR]
		return one(operator.CreateMovePeerOperator("c08", cl, region, 0, in.A, newPeer(in.B, in.AR)))
	case "replace-leader-peer":
		delete(exp.peers, in.A)
		exp.peers[in.B] = metaRole[in.AR]
		exp.leader = in.C
		return one(operator.CreateReplaceLeaderPeerOperator("c08", cl, region, 0, in.A, newPeer(in.B, in.AR), &metapb.Peer{StoreId: in.C}))
	case "move-leader":
		delete(exp.peers, in.A)
		exp.peers[in.B] = metaRole[in.AR]
		exp.leader = in.B
		return one(operator.CreateMoveLeaderOperator("c08", cl, region, 0, in.A, newPeer(in.B, in.AR)))
	case "scatter":
		exp.peers = map[uint64]metapb.PeerRole{}
		for _, p := range in.Target {
			exp.peers[p.S] = metaRole[p.R]
		}
		exp.leader = in.ReqLeader
		return one(operator.CreateScatterRegionOperator("c08", cl, region, targetMap(in.Target), in.ReqLeader))
	case "leave-joint":
		for s, role := range exp.peers {
			switch role {
			case metapb.PeerRole_IncomingVoter:
				exp.peers[s] = metapb.PeerRole_Voter
			case metapb.PeerRole_DemotingVoter:
				exp.peers[s] = metapb.PeerRole_Learner
			}
		}
		return one(operator.CreateLeaveJointStateOperator("c08", cl, region))
	case "split":
		return one(operator.CreateSplitRegionOperator("c08", region, 0, pdpb.CheckPolicy_USEKEY, [][]byte{append(append([]byte(nil), r.StartKey...), 'm')}))
	case "merge":
		var tp []regionsim.Peer
		var tl uint64
		exp.peers = map[uint64]metapb.PeerRole{}
		for _, p := range in.Target {
			tp = append(tp, regionsim.Peer{ID: 2000 + p.S, Store: p.S, Role: metaRole[p.R]})
			exp.peers[p.S] = metaRole[p.R]
			if tl == 0 && p.R == rV {
				tl = p.S
			}
		}
		t := regionsim.New(2, tp, tl)
		exp.mergeTo = t
		ops, err := operator.CreateMergeRegionOperator("c08", cl, region, t.Info(), 0)
		if err != nil {
			return nil, nil, err
		}
		return ops, exp, nil
	}
	panic("unknown input kind " + in.Kind)
}

type runner struct {
	cnt     *counters
	verbose bool
	detail  bool // render messages and the step trace (second run of a violating input)
	lastLen int  // number of steps of the last simulated operator
}

func (rn *runner) logf(f string, a ...interface{}) {
	if rn.verbose {
		fmt.Printf(f+"\n", a...)
	}
}

// simulate executes the operator's steps on r like the operator controller
// would and evaluates the oracle on every intermediate state.
func (rn *runner) simulate(in *input, op *operator.Operator, r *regionsim.Region, exp *expect) (v *violation, trace []string) {
	oin, oout := r.Voters()
	minVoters := oin
	if oout < minVoters {
		minVoters = oout
	}
	tv := 0
	for _, role := range exp.peers {
		if role != metapb.PeerRole_Learner {
			tv++
		}
	}
	if tv < minVoters {
		minVoters = tv
	}
	// the builder path the operator came from is part of a failure's identity
	path := "/plain"
	for i := 0; i < op.Len(); i++ {
		switch op.Step(i).(type) {
		case operator.ChangePeerV2Enter, operator.ChangePeerV2Leave:
			path = "/joint"
		}
	}
	// ... and so is the local context of the failing step: its kind, what the store it acts on holds
	// and is asked to hold, and the next two steps relative to that store. A listed known finding
	// therefore names one planner path and does not hide a different plan failing the same way.
	cur := -1
	stepStore := func(st operator.OpStep) uint64 {
		switch a := st.(type) {
		case operator.AddLearner:
			return a.ToStore
		case operator.AddLightLearner:
			return a.ToStore
		case operator.AddPeer:
			return a.ToStore
		case operator.AddLightPeer:
			return a.ToStore
		case operator.PromoteLearner:
			return a.ToStore
		case operator.DemoteFollower:
			return a.ToStore
		case operator.RemovePeer:
			return a.FromStore
		case operator.TransferLeader:
			return a.ToStore
		}
		return 0
	}
	context := func() string {
		feat := []string{"joint", "demote-only", "no-joint"}[in.Env.Feature]
		if cur < 0 || cur >= op.Len() {
			return feat + ":end"
		}
		st := op.Step(cur)
		store := stepStore(st)
		have, want := "-", "-"
		if p := r.StorePeer(store); p != nil {
			have = roleStr[p.Role]
		}
		if role, ok := exp.peers[store]; ok {
			want = roleStr[role]
		}
		c := fmt.Sprintf("%s:%s[%s>%s]", feat, stepType(st), have, want)
		for k := cur + 1; k <= cur+2 && k < op.Len(); k++ {
			rel := "other"
			if s2 := stepStore(op.Step(k)); s2 == store && store != 0 {
				rel = "same"
			}
			c += "," + stepType(op.Step(k)) + "@" + rel
		}
		return c
	}
	bad := func(key, f string, a ...interface{}) *violation {
		key += path + "|" + context()
		if os.Getenv("VERIF_C08_SPLIT") != "" {
			nonUp := 0
			for _, st := range in.Env.States {
				if st != sUp {
					nonUp++
				}
			}
			key += fmt.Sprintf("|%s|f%d|light=%v,force=%v|nonup=%d", in.Kind, in.Env.Feature, in.Light, in.Force, nonUp)
		}
		return &violation{Key: key, Msg: fmt.Sprintf(f, a...)}
	}
	rn.cnt.Operators++
	rn.cnt.States++
	rn.lastLen = op.Len()
	for i := 0; i < op.Len(); i++ {
		step := op.Step(i)
		cur = i
		typ := stepType(step)
		if rn.detail {
			trace = append(trace, step.String())
		}
		info := r.Info()
		if step.IsFinish(info) {
			// the controller moves on without sending anything
			rn.cnt.Skipped++
			rn.logf("  step %d %s [%s]: already finished on %s, skipped", i+1, typ, step, r)
			continue
		}
		rn.cnt.Steps++
		rn.cnt.StepKinds[typ]++
		at := ""
		if rn.detail {
			at = fmt.Sprintf("step %d/%d %s [%s] on %s", i+1, op.Len(), typ, step, r)
		}
		// (1) the statement's own safety conditions, independent of CheckSafety
		leader := r.LeaderPeer()
		switch st := step.(type) {
		case operator.RemovePeer:
			if p := r.StorePeer(st.FromStore); p != nil && leader != nil && p.ID == leader.ID {
				return bad("leader-removed", "%s removes the current leader", at), trace
			}
		case operator.DemoteFollower:
			if p := r.StorePeer(st.ToStore); p != nil && leader != nil && p.ID == leader.ID {
				return bad("leader-demoted", "%s demotes the current leader", at), trace
			}
		case operator.ChangePeerV2Leave:
			if leader != nil && leader.Role == metapb.PeerRole_DemotingVoter {
				return bad("leader-demoted-by-leave", "%s leaves the joint state while the leader (store %d) is a demoting voter", at, leader.Store), trace
			}
		case operator.TransferLeader:
			p := r.StorePeer(st.ToStore)
			switch {
			case p == nil:
				return bad("leader-to-absent", "%s transfers leadership to a store without peer", at), trace
			case p.Role == metapb.PeerRole_Learner:
				return bad("leader-to-learner", "%s transfers leadership to a learner", at), trace
			case p.Role == metapb.PeerRole_DemotingVoter:
				return bad("leader-to-demoting", "%s transfers leadership to a demoting voter", at), trace
			}
		case operator.AddLearner, operator.AddLightLearner, operator.AddPeer, operator.AddLightPeer:
			var store, id uint64
			switch a := st.(type) {
			case operator.AddLearner:
				store, id = a.ToStore, a.PeerID
			case operator.AddLightLearner:
				store, id = a.ToStore, a.PeerID
			case operator.AddPeer:
				store, id = a.ToStore, a.PeerID
			case operator.AddLightPeer:
				store, id = a.ToStore, a.PeerID
			}
			if p := r.StorePeer(store); p != nil && p.ID != id {
				return bad("two-peers-on-store", "%s adds peer %d on store %d which still holds peer %d", at, id, store, p.ID), trace
			}
		case operator.MergeRegion:
			if exp.mergeTo != nil && !st.IsPassive {
				for _, p := range r.Peers {
					q := exp.mergeTo.StorePeer(p.Store)
					if q == nil || (q.Role == metapb.PeerRole_Learner) != (p.Role == metapb.PeerRole_Learner) || len(r.Peers) != len(exp.mergeTo.Peers) || r.InJoint() {
						return bad("merge-peers-mismatch", "%s merges into %s whose peers do not match", at, exp.mergeTo), trace
					}
				}
			}
		}
		// (2) the step's own precondition holds when its turn comes
		if err := step.CheckSafety(info); err != nil {
			return bad("unsafe-step:"+typ, "%s: CheckSafety fails when the step's turn comes: %v", at, err), trace
		}
		if _, isMerge := step.(operator.MergeRegion); !isMerge {
			if d := step.ConfVerChanged(info); d != 0 {
				rn.cnt.noteF(typ+":confver-before", func() string {
					return fmt.Sprintf("step %d %v on %s of %s: ConfVerChanged=%d before the step is executed", i+1, step, r, in, d)
				})
			}
		}
		// (3) the store executes the command
		cv := r.ConfVer
		sent, err := r.Apply(step)
		if err != nil || !sent {
			return bad("store-refuses:"+typ, "%s: the store does not execute the step (command sent=%v): %v", at, sent, err), trace
		}
		rn.cnt.States++
		if r.HasPending() && in.Pending == 0 {
			// environment: the new peer is first reported pending; the controller checks the step again
			pi := r.Info()
			if step.IsFinish(pi) {
				rn.cnt.noteF(typ+":finished-while-pending", func() string { return fmt.Sprintf("step %d %v of %s", i+1, step, in) })
			}
			if err := step.CheckSafety(pi); err != nil {
				return bad("unsafe-step-pending:"+typ, "%s: CheckSafety fails while the added peer is pending (%s): %v", at, r, err), trace
			}
			rn.cnt.States++
		}
		r.CatchUp()
		rn.logf("  step %d %s [%s] -> %s", i+1, typ, step, r)
		after := r.Info()
		if m, ok := step.(operator.MergeRegion); !(ok && !m.IsPassive) {
			if !step.IsFinish(after) {
				key := "not-finished:" + typ
				if e, ok := step.(operator.ChangePeerV2Enter); ok && len(e.PromoteLearners)+len(e.DemoteVoters) == 1 {
					key = "enter-joint-single-change"
				}
				return bad(key, "%s: after the store executed the command the region is %s but the step does not report finished (the operator can never proceed)", at, r), trace
			}
			if d := step.ConfVerChanged(after); d != r.ConfVer-cv {
				rn.cnt.noteF(typ+":confver-after", func() string {
					return fmt.Sprintf("step %d %v of %s: ConfVerChanged=%d but conf_ver moved by %d (now %s)", i+1, step, in, d, r.ConfVer-cv, r)
				})
			}
		}
		// (4) invariants of every intermediate state
		for a, p := range r.Peers {
			for _, q := range r.Peers[:a] {
				if q.Store == p.Store {
					return bad("two-peers-on-store", "after %s: two peers on store %d: %s", at, p.Store, r), trace
				}
				if q.ID == p.ID {
					return bad("duplicate-peer-id", "after %s: peer id %d is used twice: %s", at, p.ID, r), trace
				}
			}
			if p.ID == 0 {
				return bad("duplicate-peer-id", "after %s: peer id zero: %s", at, r), trace
			}
		}
		if l := r.LeaderPeer(); l == nil || l.Role == metapb.PeerRole_Learner {
			return bad("leader-lost", "after %s: the region has no voter leader: %s", at, r), trace
		}
		if vi, vo := r.Voters(); vi < minVoters || vo < minVoters {
			return bad("voters-below-min:"+typ, "after %s: voters incoming=%d outgoing=%d fall below min(origin,target)=%d: %s", at, vi, vo, minVoters, r), trace
		}
	}
	if op.Len() > rn.cnt.MaxSteps {
		rn.cnt.MaxSteps = op.Len()
		rn.cnt.MaxSample = []string{in.String()}
		for i := 0; i < op.Len(); i++ {
			rn.cnt.MaxSample = append(rn.cnt.MaxSample, op.Step(i).String())
		}
	}
	// (5) the final state is exactly the requested placement
	got := map[uint64]metapb.PeerRole{}
	for _, p := range r.Peers {
		got[p.Store] = p.Role
	}
	same := len(got) == len(exp.peers)
	for s, role := range exp.peers {
		if g, ok := got[s]; !ok || g != role {
			same = false
		}
	}
	if !same {
		return bad("final-peers", "after all %d steps the region is %s, requested peers %v", op.Len(), r, fmtPeers(exp.peers)), trace
	}
	if exp.leader != 0 && r.LeaderStore() != exp.leader {
		return bad("final-leader", "after all %d steps the leader is on store %d, requested leader %d (region %s)", op.Len(), r.LeaderStore(), exp.leader, r), trace
	}
	if exp.notLeader[r.LeaderStore()] {
		return bad("final-follower-leads", "after all %d steps the leader is on store %d which was requested as follower (region %s)", op.Len(), r.LeaderStore(), r), trace
	}
	return nil, trace
}

func fmtPeers(m map[uint64]metapb.PeerRole) string {
	var ids []uint64
	for s := range m {
		ids = append(ids, s)
	}
	sort.Slice(ids, func(i, j int) bool { return ids[i] < ids[j] })
	var l []string
	for _, s := range ids {
		l = append(l, fmt.Sprintf("%d:%s", s, strings.ToLower(m[s].String())))
	}
	return "{" + strings.Join(l, " ") + "}"
}

// evalOnce builds and executes one input (one outcome of the random draws).
func (rn *runner) evalOnce(in *input, cl *mockcluster.Cluster) (v *violation, trace []string, produced bool) {
	defer func() {
		if p := recover(); p != nil {
			buf := make([]byte, 2048)
			buf = buf[:runtime.Stack(buf, false)]
			v = &violation{Key: "panic", Msg: fmt.Sprintf("panic: %v\n%s", p, buf)}
		}
	}()
	r := originRegion(in, 1)
	ops, exp, err := build(in, cl, r)
	if err != nil {
		rn.logf("  no operator: %v", err)
		return nil, nil, false
	}
	for i, op := range ops {
		if op == nil {
			return &violation{Key: "nil-operator", Msg: "nil operator without error"}, nil, true
		}
		rn.logf("  operator %d: %s", i+1, op)
	}
	v, trace = rn.simulate(in, ops[0], r, exp)
	if v == nil && len(ops) == 2 {
		// the passive half of a merge on the target region
		t := exp.mergeTo
		st := ops[1].Step(0)
		if ops[1].Len() != 1 || st.IsFinish(t.Info()) || st.CheckSafety(t.Info()) != nil {
			return &violation{Key: "merge-passive", Msg: fmt.Sprintf("passive merge operator %s is finished or unsafe before the merge", ops[1])}, trace, true
		}
		t.AbsorbMerge(r.Meta())
		if !st.IsFinish(t.Info()) {
			rn.cnt.note("MergeRegion:passive-unfinished-after", in.String())
		}
	}
	return v, trace, true
}

// eval runs an input; the random leader pick of the scatter helper is enumerated.
func (rn *runner) eval(in *input, cl *mockcluster.Cluster) (*violation, []string) {
	rn.cnt.Inputs++
	rn.cnt.ByKind[in.Kind]++
	var v *violation
	var trace []string
	produced := false
	if in.Kind == "scatter" && in.ReqLeader == 0 {
		// every outcome of the random draw is enumerated; which voter a draw
		// selects depends on Go's map order, so the coverage of every leader
		// comes from the inputs with an explicit target leader
		enum.All(64, func() {
			rn.cnt.RandRuns++
			v1, t1, p1 := rn.evalOnce(in, cl)
			produced = produced || p1
			if v1 != nil && v == nil {
				v, trace = v1, t1
			}
		})
	} else {
		v, trace, produced = rn.evalOnce(in, cl)
	}
	if produced {
		rn.cnt.Produced++
		rn.cnt.ProdByKind[in.Kind]++
	} else {
		rn.cnt.Refused++
	}
	return v, trace
}

// ---------------------------------------------------------------- enumeration

type originSpec struct {
	peers  []peerSpec
	leader uint64
}

func subsets(n, min, max int) [][]uint64 {
	var out [][]uint64
	for mask := 1; mask < 1<<uint(n); mask++ {
		var s []uint64
		for i := 0; i < n; i++ {
			if mask&(1<<uint(i)) != 0 {
				s = append(s, uint64(i+1))
			}
		}
		if len(s) >= min && len(s) <= max {
			out = append(out, s)
		}
	}
	sort.SliceStable(out, func(i, j int) bool { return len(out[i]) < len(out[j]) })
	return out
}

// assignments enumerates all role vectors over nRoles roles for k peers.
func assignments(k, nRoles int) [][]int {
	out := [][]int{{}}
	for i := 0; i < k; i++ {
		var next [][]int
		for _, a := range out {
			for r := 0; r < nRoles; r++ {
				next = append(next, append(append([]int(nil), a...), r))
			}
		}
		out = next
	}
	return out
}

// origins: all peer sets on <= maxPeers of n stores with roles and a non-learner
// leader. joint=false: roles voter/learner. joint=true: only regions in the joint
// state (some incoming/demoting voter) whose incoming and outgoing voter sets are non-empty.
func origins(n, maxPeers int, joint bool) []originSpec {
	var out []originSpec
	nr := 2
	if joint {
		nr = 4
	}
	for _, ss := range subsets(n, 1, maxPeers) {
		for _, as := range assignments(len(ss), nr) {
			var ps []peerSpec
			in, outg, jr := 0, 0, 0
			for i, s := range ss {
				ps = append(ps, peerSpec{S: s, R: as[i]})
				switch as[i] {
				case rV:
					in++
					outg++
				case rIn:
					in++
					jr++
				case rDe:
					outg++
					jr++
				}
			}
			if in == 0 || outg == 0 || (joint && jr == 0) {
				continue
			}
			for _, p := range ps {
				if p.R != rL {
					out = append(out, originSpec{peers: ps, leader: p.S})
				}
			}
		}
	}
	return out
}

type targetSpec struct {
	peers  []peerSpec
	leader uint64
}

// targets: all peer maps on <= maxPeers of n stores with roles voter/learner
// (including maps without voter, which must be refused) and a requested leader:
// none, or any store of the map (a learner leader must be refused).
func targets(n, maxPeers int, leaders bool) []targetSpec {
	var out []targetSpec
	for _, ss := range subsets(n, 1, maxPeers) {
		for _, as := range assignments(len(ss), 2) {
			var ps []peerSpec
			for i, s := range ss {
				ps = append(ps, peerSpec{S: s, R: as[i]})
			}
			out = append(out, targetSpec{peers: ps})
			if leaders {
				for _, p := range ps {
					out = append(out, targetSpec{peers: ps, leader: p.S})
				}
			}
		}
	}
	return out
}

var roleNames = []string{"leader", "voter", "follower", "learner"}

func roleTargets(n, maxPeers int) [][]roleSpec {
	var out [][]roleSpec
	for _, ss := range subsets(n, 1, maxPeers) {
		for _, as := range assignments(len(ss), 4) {
			var rs []roleSpec
			for i, s := range ss {
				rs = append(rs, roleSpec{S: s, Role: roleNames[as[i]]})
			}
			out = append(out, rs)
		}
	}
	return out
}

func allUp(n int) []int { return make([]int, n) }

// envStates: store state vectors with at most maxNonUp non-up stores drawn from kinds,
// non-up stores restricted to the positions in pos (nil = all).
func envStates(n, maxNonUp int, kinds []int, pos []int) [][]int {
	if pos == nil {
		for i := 0; i < n; i++ {
			pos = append(pos, i)
		}
	}
	out := [][]int{allUp(n)}
	if maxNonUp >= 1 {
		for _, i := range pos {
			for _, k := range kinds {
				s := allUp(n)
				s[i] = k
				out = append(out, s)
			}
		}
	}
	if maxNonUp >= 2 {
		for a := 0; a < len(pos); a++ {
			for b := a + 1; b < len(pos); b++ {
				for _, k1 := range kinds {
					for _, k2 := range kinds {
						s := allUp(n)
						s[pos[a]], s[pos[b]] = k1, k2
						out = append(out, s)
					}
				}
			}
		}
	}
	return out
}

func mkEnvs(n int, states [][]int, layouts, features, rules []int) []envSpec {
	var out []envSpec
	for _, st := range states {
		for _, l := range layouts {
			for _, f := range features {
				for _, r := range rules {
					out = append(out, envSpec{N: n, States: st, Layout: l, Feature: f, Rules: r})
				}
			}
		}
	}
	return out
}

// genCtx drives one worker's share of a scope.
type genCtx struct {
	shard, n int
	block    int
	deadline time.Time
	stopped  bool
	emit     func(in *input)
}

// Block starts a new block of inputs; false when it belongs to another worker.
func (g *genCtx) Block() bool {
	if g.stopped {
		return false
	}
	if !g.deadline.IsZero() && time.Now().After(g.deadline) {
		g.stopped = true
		return false
	}
	b := g.block
	g.block++
	return b%g.n == g.shard
}

type scope struct {
	name  string
	tiers string
	desc  string
	gen   func(g *genCtx)
}

type flagSet struct{ light, force bool }

func genSetPeers(envs []envSpec, os []originSpec, ts []targetSpec, flags []flagSet, pending bool) func(g *genCtx) {
	return func(g *genCtx) {
		for _, e := range envs {
			for _, o := range os {
				if !g.Block() {
					continue
				}
				pend := []uint64{0}
				if pending {
					for _, p := range o.peers {
						if p.S != o.leader {
							pend = append(pend, p.S)
						}
					}
				}
				for _, pd := range pend {
					for _, t := range ts {
						for _, f := range flags {
							g.emit(&input{Env: e, Origin: o.peers, Leader: o.leader, Pending: pd, Kind: "set-peers", Target: t.peers, ReqLeader: t.leader, Light: f.light, Force: f.force})
						}
					}
				}
			}
		}
	}
}

func genMoveRegion(envs []envSpec, os []originSpec, rts [][]roleSpec) func(g *genCtx) {
	return func(g *genCtx) {
		for _, e := range envs {
			for _, o := range os {
				if !g.Block() {
					continue
				}
				for _, rt := range rts {
					g.emit(&input{Env: e, Origin: o.peers, Leader: o.leader, Kind: "move-region", Roles: rt})
				}
			}
		}
	}
}

// genHelpers: every Create*Operator helper (and the Builder methods behind them)
// with every store argument, on plain and joint-state origins.
func genHelpers(envs []envSpec, os []originSpec, ts []targetSpec, pending, moves bool) func(g *genCtx) {
	return func(g *genCtx) {
		for _, e := range envs {
			n := uint64(e.N)
			for _, o := range os {
				if !g.Block() {
					continue
				}
				pend := []uint64{0}
				if pending {
					for _, p := range o.peers {
						if p.S != o.leader {
							pend = append(pend, p.S)
						}
					}
				}
				for _, pd := range pend {
					base := input{Env: e, Origin: o.peers, Leader: o.leader, Pending: pd}
					mk := func(kind string, a, b, c uint64, ar int) {
						in := base
						in.Kind, in.A, in.B, in.C, in.AR = kind, a, b, c, ar
						g.emit(&in)
					}
					mk("leave-joint", 0, 0, 0, 0)
					mk("split", 0, 0, 0, 0)
					for a := uint64(1); a <= n; a++ {
						mk("add-peer", a, 0, 0, rV)
						mk("add-peer", a, 0, 0, rL)
						mk("remove-peer", a, 0, 0, 0)
						mk("promote-learner", a, 0, 0, 0)
						mk("demote-voter", a, 0, 0, 0)
						mk("transfer-leader", a, 0, 0, 0)
						mk("force-transfer-leader", a, 0, 0, 0)
						if !moves {
							continue
						}
						for b := uint64(1); b <= n; b++ {
							for _, ar := range []int{rV, rL} {
								mk("move-peer", a, b, 0, ar)
								mk("move-leader", a, b, 0, ar)
								for c := uint64(1); c <= n; c++ {
									mk("replace-leader-peer", a, b, c, ar)
								}
							}
						}
					}
					for _, t := range ts {
						in := base
						in.Kind, in.Target, in.ReqLeader = "scatter", t.peers, t.leader
						g.emit(&in)
						if t.leader == 0 {
							in := base
							in.Kind, in.Target = "merge", t.peers
							g.emit(&in)
						}
					}
				}
			}
		}
	}
}

func concat(gs ...func(g *genCtx)) func(g *genCtx) {
	return func(g *genCtx) {
		for _, f := range gs {
			f(g)
		}
	}
}

var kinds4 = []int{sOffline, sDown, sEvicted, sReject}
var kinds3 = []int{sOffline, sDown, sEvicted}

func scopes() []*scope {
	noFlags := []flagSet{{}}
	plainForce := []flagSet{{}, {force: true}}
	allFlags := []flagSet{{}, {force: true}, {light: true}, {light: true, force: true}}
	f3 := []int{0, 1, 2}
	l0, r0 := []int{0}, []int{0}
	return []*scope{
		{name: "setpeers/5stores/all-up", tiers: "quick",
			desc: "SetPeers(+SetLeader).Build: origins <=4 peers of 5 stores x targets <=4 peers with every leader request x 3 feature levels, all stores up",
			gen:  genSetPeers(mkEnvs(5, [][]int{allUp(5)}, l0, f3, r0), origins(5, 4, false), targets(5, 4, true), noFlags, false)},
		{name: "setpeers/5stores/flags+pending+labels", tiers: "quick",
			desc: "origins <=3 x targets <=3 of 5 stores x 3 feature levels: (a) flags force / light / light+force, (b) one origin peer pending, (c) label layout z1 z1 z2 z2 z3 with all stores up or one store offline",
			gen: concat(genSetPeers(mkEnvs(5, [][]int{allUp(5)}, l0, f3, r0), origins(5, 3, false), targets(5, 3, true), allFlags[1:], false),
				genSetPeers(mkEnvs(5, [][]int{allUp(5)}, l0, f3, r0), origins(5, 3, false), targets(5, 3, true), noFlags, true),
				genSetPeers(mkEnvs(5, envStates(5, 1, []int{sOffline}, nil), []int{1}, f3, r0), origins(5, 3, false), targets(5, 3, true), noFlags, false))},
		{name: "setpeers/5stores/1-non-up", tiers: "quick",
			desc: "origins <=3 x targets <=3 x store 1 or store 5 offline/down/evicted/reject-leader x 3 feature levels x {plain, force}",
			gen:  genSetPeers(mkEnvs(5, envStates(5, 1, kinds4, []int{0, 4})[1:], l0, f3, r0), origins(5, 3, false), targets(5, 3, true), plainForce, false)},
		{name: "setpeers/5stores/rules-off", tiers: "quick",
			desc: "placement rules switched off (the leader eligibility of a store is then decided without the rule fit): origins <=3 x targets <=3 x all up or store 1 / store 5 offline/down/evicted/reject-leader x 3 feature levels x {plain, force}",
			gen:  genSetPeers(mkEnvs(5, envStates(5, 1, kinds4, []int{0, 4}), l0, f3, []int{2}), origins(5, 3, false), targets(5, 3, true), plainForce, false)},
		{name: "setpeers/4stores/2-non-up", tiers: "quick",
			desc: "4 stores, origins <=3 x targets <=3, every assignment of <=2 non-up stores (offline/down/evicted; reject-leader for single stores), 3 feature levels",
			gen: concat(genSetPeers(mkEnvs(4, envStates(4, 2, kinds3, nil), l0, f3, r0), origins(4, 3, false), targets(4, 3, true), noFlags, false),
				genSetPeers(mkEnvs(4, envStates(4, 1, []int{sReject}, nil)[1:], l0, f3, r0), origins(4, 3, false), targets(4, 3, true), noFlags, false))},
		{name: "move-region", tiers: "quick",
			desc: "CreateMoveRegionOperator with expected roles leader/voter/follower/learner on <=3 stores, origins <=3: 5 stores all up; 4 stores with one store offline/evicted/reject-leader at every position",
			gen: concat(genMoveRegion(mkEnvs(5, [][]int{allUp(5)}, l0, f3, r0), origins(5, 3, false), roleTargets(5, 3)),
				genMoveRegion(mkEnvs(4, envStates(4, 1, []int{sOffline, sEvicted, sReject}, nil)[1:], l0, f3, r0), origins(4, 3, false), roleTargets(4, 3)))},
		{name: "helpers/4stores", tiers: "quick",
			desc: "every Create*Operator helper (and Builder.DemoteVoter) with every store argument on 4 stores: plain origins <=3 peers with an origin peer pending; joint-state origins <=3 peers (without the two-store move helpers); all up or store 1 / store 4 non-up",
			gen: concat(
				genHelpers(mkEnvs(4, envStates(4, 1, kinds4, []int{0, 3}), l0, f3, r0), origins(4, 3, false), targets(4, 3, true), true, true),
				genHelpers(mkEnvs(4, envStates(4, 1, []int{sOffline, sEvicted}, []int{0, 3}), l0, f3, r0), origins(4, 3, true), targets(4, 2, true), false, false))},

		{name: "leader+follower-rules/4-5stores", tiers: "quick",
			desc: "placement rules 'leader x1 in z1' + 'follower x2 outside z1' on the label layout z1 z1 z2 z2 (z3): every helper with every store argument on joint-state and plain origins <=3 peers of 4 stores; SetPeers origins <=3 x targets <=3 of 5 stores, {plain, force}; 3 feature levels",
			gen: concat(
				genHelpers(mkEnvs(4, [][]int{allUp(4)}, []int{1}, f3, []int{3}), origins(4, 3, true), targets(4, 2, true), false, false),
				genHelpers(mkEnvs(4, [][]int{allUp(4)}, []int{1}, f3, []int{3}), origins(4, 3, false), targets(4, 3, true), false, true),
				genSetPeers(mkEnvs(5, [][]int{allUp(5)}, []int{1}, f3, []int{3}), origins(5, 3, false), targets(5, 3, true), plainForce, false))},

		// thorough
		{name: "setpeers/6stores/all-up", tiers: "thorough",
			desc: "origins <=4 peers of 6 stores x targets <=4 peers with every leader request x 3 feature levels x both label layouts",
			gen:  genSetPeers(mkEnvs(6, [][]int{allUp(6)}, []int{0, 1}, f3, r0), origins(6, 4, false), targets(6, 4, true), noFlags, false)},
		{name: "setpeers/5stores/flags+pending", tiers: "thorough",
			desc: "origins <=4 x targets <=4 of 5 stores x flags force / light / light+force; one origin peer pending (origins <=4, targets <=3)",
			gen: concat(genSetPeers(mkEnvs(5, [][]int{allUp(5)}, l0, f3, r0), origins(5, 4, false), targets(5, 4, true), allFlags[1:], false),
				genSetPeers(mkEnvs(5, [][]int{allUp(5)}, l0, f3, r0), origins(5, 4, false), targets(5, 3, true), noFlags, true))},
		{name: "setpeers/5stores/placement-rules", tiers: "thorough",
			desc: "placement rules on (2 voters in z1/z2, 1 learner in z3): origins <=3 x targets <=3, <=1 non-up store, {plain, force}",
			gen:  genSetPeers(mkEnvs(5, envStates(5, 1, kinds4, nil), []int{1}, f3, []int{1}), origins(5, 3, false), targets(5, 3, true), plainForce, false)},
		{name: "move-region", tiers: "thorough",
			desc: "CreateMoveRegionOperator with expected roles on <=4 of 5 stores (origins <=3, <=1 non-up store) and <=3 of 6 stores (origins <=3, all up / store 1 or 6 offline or evicted, both layouts)",
			gen: concat(genMoveRegion(mkEnvs(5, envStates(5, 1, kinds4, nil), l0, f3, r0), origins(5, 3, false), roleTargets(5, 4)),
				genMoveRegion(mkEnvs(6, envStates(6, 1, []int{sOffline, sEvicted}, []int{0, 5}), []int{0, 1}, f3, r0), origins(6, 3, false), roleTargets(6, 3)))},
		{name: "helpers/5stores", tiers: "thorough",
			desc: "every helper with every store argument on 5 stores, 3 feature levels: plain origins <=4 with <=1 non-up store (an origin peer pending when all stores are up); joint-state origins <=3 with all helpers and joint-state origins <=4 without the two-store move helpers, all up or store 1 / store 5 non-up",
			gen: concat(
				genHelpers(mkEnvs(5, envStates(5, 1, kinds4, nil), l0, f3, r0), origins(5, 4, false), targets(5, 3, true), false, true),
				genHelpers(mkEnvs(5, [][]int{allUp(5)}, l0, f3, r0), origins(5, 4, false), targets(5, 3, true), true, true),
				genHelpers(mkEnvs(5, envStates(5, 1, kinds4, []int{0, 4}), l0, f3, r0), origins(5, 3, true), targets(5, 3, true), false, true),
				genHelpers(mkEnvs(5, envStates(5, 1, kinds4, []int{0, 4}), l0, f3, r0), origins(5, 4, true), targets(5, 2, true), false, false))},
		// the largest scope runs last and may use all the remaining time
		{name: "setpeers/5stores/2-non-up", tiers: "thorough",
			desc: "5 stores, 3 feature levels: origins <=3 x targets <=3 x every assignment of 2 non-up stores (offline/down/evicted/reject-leader); x {plain, force} for all up and every single non-up store; origins <=4 x targets <=4 x {plain, force} for every single non-up store; label layout z1 z1 z2 z2 z3 with <=1 non-up store",
			gen: concat(genSetPeers(mkEnvs(5, envStates(5, 2, kinds4, nil)[21:], l0, f3, r0), origins(5, 3, false), targets(5, 3, true), noFlags, false),
				genSetPeers(mkEnvs(5, envStates(5, 1, kinds4, nil), l0, f3, r0), origins(5, 3, false), targets(5, 3, true), plainForce, false),
				genSetPeers(mkEnvs(5, envStates(5, 1, kinds4, nil)[1:], l0, f3, r0), origins(5, 4, false), targets(5, 4, true), plainForce, false),
				genSetPeers(mkEnvs(5, envStates(5, 1, kinds4, nil), []int{1}, f3, r0), origins(5, 3, false), targets(5, 3, true), noFlags, false))},
	}
}

// ---------------------------------------------------------------- driver

type vrec struct {
	Key   string   `json:"key"`
	Msg   string   `json:"msg"`
	Input *input   `json:"input"`
	Trace []string `json:"trace"`
}

type result struct {
	CPU      float64   `json:"cpu_s"`
	Cnt      *counters `json:"cnt"`
	Complete bool      `json:"complete"`
	Viol     []vrec    `json:"viol,omitempty"`
	Samples  []string  `json:"samples,omitempty"`
}

func sameEnv(a, b envSpec) bool {
	if a.N != b.N || a.Layout != b.Layout || a.Feature != b.Feature || a.Rules != b.Rules || len(a.States) != len(b.States) {
		return false
	}
	for i := range a.States {
		if a.States[i] != b.States[i] {
			return false
		}
	}
	return true
}

type clusterCache struct {
	env    envSpec
	cl     *mockcluster.Cluster
	cancel context.CancelFunc
}

func (c *clusterCache) get(e envSpec) *mockcluster.Cluster {
	if c.cl == nil || !sameEnv(c.env, e) {
		if c.cancel != nil {
			c.cancel()
		}
		c.cl, c.cancel = newCluster(e)
		c.env = e
	}
	return c.cl
}

func runShard(sc *scope, shard, n int, deadline time.Time) *result {
	res := &result{Cnt: newCounters(), Complete: true}
	rn := &runner{cnt: res.Cnt}
	cc := &clusterCache{}
	g := &genCtx{shard: shard, n: n, deadline: deadline}
	g.emit = func(in *input) {
		if g.stopped {
			return
		}
		if res.Cnt.Inputs&1023 == 1023 && !deadline.IsZero() && time.Now().After(deadline) {
			g.stopped = true
			return
		}
		v, trace := rn.eval(in, cc.get(in.Env))
		if v != nil {
			// the key names the class of input that fails (store numbering abstracted away), so
			// that a listed known finding does not hide a different failing input
			for _, o := range res.Viol {
				if o.Key == v.Key {
					return
				}
			}
			// run the input again rendering messages and the step trace
			dr := &runner{cnt: newCounters(), detail: true}
			if v2, t2 := dr.eval(in, cc.get(in.Env)); v2 != nil && v2.Key == v.Key {
				v, trace = v2, t2
			}
			cp := *in
			res.Viol = append(res.Viol, vrec{Key: v.Key, Msg: v.Msg, Input: &cp, Trace: trace})
		} else if len(res.Samples) < 2 && rn.lastLen >= 3 {
			dr := &runner{cnt: newCounters(), detail: true}
			if _, t2 := dr.eval(in, cc.get(in.Env)); len(t2) >= 3 {
				res.Samples = append(res.Samples, in.String()+" => "+strings.Join(t2, " ; "))
			}
		}
	}
	sc.gen(g)
	res.Complete = !g.stopped
	return res
}

func workerMain(all []*scope, arg string) {
	parts := strings.Split(arg, "\x1f")
	var shard, n int
	var dl int64
	fmt.Sscan(parts[1], &shard)
	fmt.Sscan(parts[2], &n)
	fmt.Sscan(parts[3], &dl)
	var sc *scope
	for _, s := range all {
		if s.name == parts[0] && (s.tiers == parts[4]) {
			sc = s
		}
	}
	pfd, _ := syscall.Dup(1)
	if dn, err := os.OpenFile(os.DevNull, os.O_WRONLY, 0); err == nil {
		syscall.Dup2(int(dn.Fd()), 1)
		if os.Getenv("VERIF_WORKER_STDERR") == "" {
			syscall.Dup2(int(dn.Fd()), 2)
		}
	}
	var deadline time.Time
	if dl > 0 {
		deadline = time.UnixMilli(dl)
	}
	if pf := os.Getenv("VERIF_C08_CPUPROFILE"); pf != "" && shard == 0 {
		f, _ := os.Create(pf)
		pprof.StartCPUProfile(f)
		defer pprof.StopCPUProfile()
	}
	res := runShard(sc, shard, n, deadline)
	var ru syscall.Rusage
	if syscall.Getrusage(syscall.RUSAGE_SELF, &ru) == nil {
		res.CPU = float64(ru.Utime.Sec+ru.Stime.Sec) + float64(ru.Utime.Usec+ru.Stime.Usec)/1e6
	}
	b, _ := json.Marshal(res)
	out := os.NewFile(uintptr(pfd), "proto")
	out.Write(append(b, '\n'))
	out.Close()
}

func merge(dst, src *counters) {
	dst.Inputs += src.Inputs
	dst.Produced += src.Produced
	dst.Refused += src.Refused
	dst.Operators += src.Operators
	dst.Steps += src.Steps
	dst.Skipped += src.Skipped
	dst.States += src.States
	dst.RandRuns += src.RandRuns
	for k, v := range src.StepKinds {
		dst.StepKinds[k] += v
	}
	for k, v := range src.ByKind {
		dst.ByKind[k] += v
	}
	for k, v := range src.ProdByKind {
		dst.ProdByKind[k] += v
	}
	for k, v := range src.Notes {
		dst.Notes[k] += v
		if _, ok := dst.NoteEx[k]; !ok {
			dst.NoteEx[k] = src.NoteEx[k]
		}
	}
	if src.MaxSteps > dst.MaxSteps {
		dst.MaxSteps, dst.MaxSample = src.MaxSteps, src.MaxSample
	}
}

// notes (simulator vs. the code's own IsFinish/ConfVerChanged) that are expected:
// they belong to another property and are only reported.
var toleratedNotes = map[string]string{
	"ChangePeerV2Leave:confver-before": "C09 suspicion (DESIGN 6c): ChangePeerV2Leave.ConfVerChanged looks the demoted peer up with GetStorePeer(dv.PeerID) (peer id used as store id), so a leave with only demotions reports its conf_ver delta before it happened",
}

func replayFile(path string) int {
	b, err := os.ReadFile(path)
	if err != nil {
		fmt.Fprintln(os.Stderr, err)
		return 2
	}
	var v struct {
		Key    string `json:"key"`
		Replay *input `json:"replay"`
	}
	if err := json.Unmarshal(b, &v); err != nil || v.Replay == nil {
		fmt.Fprintf(os.Stderr, "INFRA: bad replay file %s: %v\n", path, err)
		return 2
	}
	fmt.Printf("replaying %s\n", v.Replay)
	rn := &runner{cnt: newCounters(), verbose: true, detail: true}
	cl, cancel := newCluster(v.Replay.Env)
	defer cancel()
	viol, _ := rn.eval(v.Replay, cl)
	if viol != nil {
		fmt.Printf("VIOLATION property=%s replay=%s\n  key=%s\n  %s\n", property, path, viol.Key, viol.Msg)
		return 1
	}
	fmt.Println("no violation on replay")
	return 0
}

func main() {
	tier := flag.String("tier", "quick", "quick|thorough")
	worker := flag.String("worker", "", "internal")
	replay := flag.String("replay", "", "replay a violation file")
	budget := flag.Int("budget", 0, "time budget in seconds")
	nworkers := flag.Int("workers", 0, "worker processes")
	only := flag.String("scope", "", "only this scope")
	flag.Parse()
	log.ReplaceGlobals(zap.NewNop(), &log.ZapProperties{})
	all := scopes()
	if *worker != "" {
		workerMain(all, *worker)
		return
	}
	if *replay != "" {
		os.Exit(replayFile(*replay))
	}
	if *budget == 0 {
		*budget = 150
		if *tier == "thorough" {
			*budget = 1100
		}
	}
	if *nworkers == 0 {
		*nworkers = runtime.NumCPU()
	}
	rep := evidence.NewReporter(property)
	cov := evidence.Coverage{Exhaustive: true}
	total := newCounters()

	// start-up cross-check of the simulator against the code's IsFinish / ConfVerChanged
	infra := false
	for _, d := range regionsim.SelfCheck() {
		if why, ok := toleratedNotes[d.Tag]; ok {
			total.note(d.Tag, d.Msg)
			fmt.Printf("NOTE %s: %s\n  (%s)\n", d.Tag, d.Msg, why)
			continue
		}
		fmt.Fprintf(os.Stderr, "INFRA: regionsim disagrees with the code: %s: %s\n", d.Tag, d.Msg)
		infra = true
	}
	if infra {
		os.Exit(2)
	}

	var scs []*scope
	for _, s := range all {
		if s.tiers == *tier && (*only == "" || *only == s.name) {
			scs = append(scs, s)
		}
	}
	deadline := time.Now().Add(time.Duration(*budget) * time.Second)
	for i, sc := range scs {
		remain := time.Until(deadline)
		dl := time.Now().Add(remain / time.Duration(len(scs)-i))
		start := time.Now()
		n := *nworkers
		results := make([]*result, n)
		errs := make([]error, n)
		var wg sync.WaitGroup
		for sh := 0; sh < n; sh++ {
			wg.Add(1)
			go func(sh int) {
				defer wg.Done()
				cmd := exec.Command(os.Args[0], "-worker", fmt.Sprintf("%s\x1f%d\x1f%d\x1f%d\x1f%s", sc.name, sh, n, dl.UnixMilli(), *tier))
				cmd.Stderr = os.Stderr
				cmd.Env = append(os.Environ(), "GOMAXPROCS=2", "GOGC=800")
				out, err := cmd.Output()
				if err != nil {
					errs[sh] = fmt.Errorf("worker %d: %v", sh, err)
					return
				}
				var r result
				for _, line := range strings.Split(string(out), "\n") {
					if strings.HasPrefix(line, "{") && json.Unmarshal([]byte(line), &r) == nil {
						results[sh] = &r
					}
				}
				if results[sh] == nil {
					errs[sh] = fmt.Errorf("worker %d: no result", sh)
				}
			}(sh)
		}
		wg.Wait()
		tot := newCounters()
		complete := true
		cpu := 0.0
		for sh := 0; sh < n; sh++ {
			if errs[sh] != nil {
				fmt.Fprintf(os.Stderr, "INFRA: %s scope %s: %v\n", property, sc.name, errs[sh])
				os.Exit(2)
			}
			r := results[sh]
			merge(tot, r.Cnt)
			cpu += r.CPU
			complete = complete && r.Complete
			for _, v := range r.Viol {
				rep.Report(&evidence.Violation{Scenario: sc.name, Key: v.Key, Message: v.Msg + "\ninput: " + v.Input.String() + "\nsteps: " + strings.Join(v.Trace, " ; "), Replay: v.Input, Trace: v.Trace})
			}
			for _, s := range r.Samples {
				if len(cov.Samples) < 10 && sh < 2 {
					cov.Samples = append(cov.Samples, map[string]interface{}{"scope": sc.name, "case": s})
				}
			}
		}
		merge(total, tot)
		if !complete {
			cov.Exhaustive = false
			cov.CapsHit = append(cov.CapsHit, fmt.Sprintf("scope %s: time budget reached after %d inputs", sc.name, tot.Inputs))
		}
		cov.Scenarios = append(cov.Scenarios, map[string]interface{}{"scope": sc.name, "bounds": sc.desc, "inputs": tot.Inputs, "operators_produced": tot.Produced,
			"requests_refused_by_builder": tot.Refused, "steps_executed": tot.Steps, "steps_skipped_already_finished": tot.Skipped, "region_states": tot.States,
			"inputs_by_kind": tot.ByKind, "produced_by_kind": tot.ProdByKind, "step_kinds": tot.StepKinds, "max_steps": tot.MaxSteps, "exhaustive": complete, "wall_s": time.Since(start).Seconds(), "cpu_s": cpu})
		fmt.Printf("%s %-36s inputs=%d operators=%d refused=%d steps=%d states=%d exhaustive=%v %.1fs (cpu %.0fs)\n", property, sc.name, tot.Inputs, tot.Produced, tot.Refused, tot.Steps, tot.States, complete, time.Since(start).Seconds(), cpu)
	}
	// simulator / code disagreements seen during the enumeration
	var tags []string
	for t := range total.Notes {
		tags = append(tags, t)
	}
	sort.Strings(tags)
	notes := map[string]interface{}{}
	for _, t := range tags {
		why, ok := toleratedNotes[t]
		notes[t] = map[string]interface{}{"count": total.Notes[t], "example": total.NoteEx[t], "classified": why}
		if !ok {
			fmt.Fprintf(os.Stderr, "INFRA: regionsim disagrees with the code (%d times): %s: %s\n", total.Notes[t], t, total.NoteEx[t])
			infra = true
		} else {
			fmt.Printf("NOTE %s x%d (%s)\n", t, total.Notes[t], why)
		}
	}
	if infra {
		os.Exit(2)
	}
	if total.MaxSample != nil {
		cov.Samples = append(cov.Samples, map[string]interface{}{"longest_operator": total.MaxSample})
	}
	cov.States = total.States
	cov.Transitions = total.Steps
	cov.TracesValidatedAgainstImpl = total.Operators
	cov.Evaluations = total.Inputs
	cov.DistinctNontrivial = total.Produced
	cov.Rule = "every input of the listed scopes is enumerated once (inputs are pairwise distinct by construction: environment x origin peers/roles/leader x request); an input is non-trivial when the real code produces an operator for it, which is then executed step by step on regionsim with the oracle evaluated at every intermediate region state; states = region states visited, transitions = steps executed, traces = operators executed"
	cov.Bounds = map[string]interface{}{"stores": "4-6", "origin_peers": "<=4", "target_peers": "<=4", "non_up_stores": "<=2", "store_states": stateStr, "feature_levels": []string{"joint consensus", "joint supported but disabled (demote allowed)", "joint unsupported"}, "regionsim_vs_code_notes": notes}
	cov.KnownFindings = rep.KnownReported()
	ev := &evidence.File{PropertyID: property, Tier: *tier, Seed: evidence.Seed(), Level: "model_checking", Coverage: cov, WallS: rep.Wall(), Violations: len(rep.Unknown),
		Assumptions: []string{
			"regionsim models a TiKV 5.0 store applying PD's commands (simple conf changes, ChangePeerV2 enter/leave with a single change applied as a simple change, leader transfer, refusals); it is cross-checked at start-up and at every executed step against the steps' own IsFinish / ConfVerChanged",
			"pkg/mock/mockcluster is the opt.Cluster; store states are built with core.StoreInfo options (heartbeat in the far future for up stores so that wall-clock time does not matter)",
			"the oracle is written from the property statement: leader never removed/demoted (joint: not at leave), leadership only to a present non-learner non-demoting peer, <=1 peer per store, voters (both joint configurations) >= min(origin, target), CheckSafety holds at each step's turn (also while the added peer is pending), final peers/roles/leader equal the request",
			"every outcome of the random leader draw of CreateScatterRegionOperator is enumerated through the vrand shim (package rewritten with flag r); which voter a draw selects depends on map order, every leader is covered by the inputs with an explicit target leader; because of that map order the operator count of the scatter inputs without target leader may differ by a few between runs",
		}}
	if err := evidence.Write(ev); err != nil {
		fmt.Fprintf(os.Stderr, "INFRA: write evidence: %v\n", err)
		os.Exit(2)
	}
	if rep.Failed() {
		os.Exit(1)
	}
}
