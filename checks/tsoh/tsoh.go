// Package tsoh is the shared harness of checks C01 and C02: real
// tso.AllocatorManager + GlobalTSOAllocator + member/election on the fake etcd,
// virtual clock, request / update / admin threads.
package tsoh

import (
	"context"
	"fmt"
	"sort"
	"strings"
	"time"

	"github.com/pingcap/kvproto/pkg/pdpb"
	"github.com/pingcap/log"
	"github.com/tikv/pd/pkg/tsoutil"
	"github.com/tikv/pd/pkg/typeutil"
	"github.com/tikv/pd/pkg/verifshim/sched"
	"github.com/tikv/pd/pkg/verifshim/vclock"
	"github.com/tikv/pd/server/config"
	"github.com/tikv/pd/server/member"
	"github.com/tikv/pd/server/tso"
	"go.uber.org/zap"
	"verif/engine/explore"
	"verif/engine/fakeetcd"
)

// Root is the etcd root path used by the harness.
const Root = "/pd/7"

// TSKey is the key of the global time window.
const TSKey = Root + "/timestamp"

const maxLogical = 1 << 18

func init() {
	log.ReplaceGlobals(zap.NewNop(), &log.ZapProperties{})
}

// Grant is one TSO request in the recorded history.
type Grant struct {
	Thread   int
	Who      string // serving member
	Inv, Ret int    // global sequence numbers of invocation / return
	Count    uint32
	Phys     int64
	Logical  int64
	Err      string
	StoredAt int64 // stored bound (unix ns) at return time, 0 if none
}

func (g Grant) hi() uint64 { return tsoutil.ComposeTS(g.Phys, g.Logical) }
func (g Grant) lo() uint64 { return tsoutil.ComposeTS(g.Phys, g.Logical-int64(g.Count)+1) }

// Node is one PD member with its allocator manager.
type Node struct {
	ID     int
	M      *member.Member
	AM     *tso.AllocatorManager
	Alloc  tso.Allocator
	cancel context.CancelFunc
}

// World is one fresh instance.
type World struct {
	St      *fakeetcd.Store
	Nodes   map[int]*Node
	Grants  []Grant
	seq     int
	Bad     []string // C02-style violations detected on the fly (key: text)
	BadKeys []string
	Takeover bool // run the crash/take-over oracle after each grant
	nextNode int
	SaveLog []int64 // successive stored bounds
	SaveInterval time.Duration // tso-save-interval of every node (0: 3s)
}

// NewWorld creates the fake etcd and the virtual clock.
func NewWorld(faults bool) *World {
	vclock.Enable(vclock.Epoch)
	w := &World{St: fakeetcd.New(), Nodes: map[int]*Node{}}
	w.St.FaultWrites = faults
	w.St.OnCommit = func(evs []fakeetcd.Event) {
		for _, e := range evs {
			if e.Key == TSKey && !e.Delete {
				t, err := typeutil.ParseTimestamp([]byte(e.Value))
				if err != nil {
					continue
				}
				v := t.UnixNano()
				if n := len(w.SaveLog); n > 0 && v < w.SaveLog[n-1] {
					w.addBad("stored-window-decreased", fmt.Sprintf("stored window bound went from %s back to %s (writer %s)", time.Unix(0, w.SaveLog[n-1]).UTC().Format("15:04:05.000"), t.UTC().Format("15:04:05.000"), e.Who))
				}
				w.SaveLog = append(w.SaveLog, v)
			}
		}
	}
	return w
}

func (w *World) addBad(key, msg string) {
	w.BadKeys = append(w.BadKeys, key)
	w.Bad = append(w.Bad, msg)
}

// Cfg returns the configuration used for every node.
func Cfg() *config.Config {
	c := &config.Config{}
	c.LeaderLease = 3
	c.TSOSaveInterval = typeutil.NewDuration(3 * time.Second)
	c.TSOUpdatePhysicalInterval = typeutil.NewDuration(50 * time.Millisecond)
	c.AdvertiseClientUrls = "http://127.0.0.1:2379"
	c.AdvertisePeerUrls = "http://127.0.0.1:2380"
	return c
}

// AddNode creates member id with its allocator manager on store st (w.St when nil).
func (w *World) AddNode(id int, st *fakeetcd.Store) *Node {
	if st == nil {
		st = w.St
	}
	cl := st.Client()
	m := member.NewMember(nil, cl, uint64(id))
	cfg := Cfg()
	if w.SaveInterval != 0 {
		cfg.TSOSaveInterval = typeutil.NewDuration(w.SaveInterval)
	}
	m.MemberInfo(cfg, fmt.Sprintf("pd%d", id), Root)
	am := tso.NewAllocatorManager(m, Root, cfg, func() time.Duration { return 24 * time.Hour })
	ctx, cancel := context.WithCancel(context.Background())
	am.SetUpAllocator(ctx, tso.GlobalDCLocation, m.GetLeadership())
	al, _ := am.GetAllocator(tso.GlobalDCLocation)
	n := &Node{ID: id, M: m, AM: am, Alloc: al, cancel: cancel}
	if st == w.St {
		w.Nodes[id] = n
	}
	return n
}

// Campaign runs what Server.campaignLeader does up to the point where TSO is served.
func (n *Node) Campaign() error {
	if err := n.M.CampaignLeader(3); err != nil {
		return err
	}
	if err := n.Alloc.Initialize(0); err != nil {
		n.AM.ResetAllocatorGroup(tso.GlobalDCLocation)
		n.M.ResetLeader()
		return err
	}
	n.M.EnableLeader()
	return nil
}

// StepDown is the deferred part of campaignLeader, in its order: the leadership is given up
// first (the last registered defer), the allocator group is reset afterwards.
func (n *Node) StepDown() {
	n.M.ResetLeader()
	n.AM.ResetAllocatorGroup(tso.GlobalDCLocation)
}

// Stored returns the stored bound (unix ns; 0 if missing).
func Stored(st *fakeetcd.Store) int64 {
	v, ok := st.Get(TSKey)
	if !ok {
		return 0
	}
	t, err := typeutil.ParseTimestamp([]byte(v))
	if err != nil {
		return 0
	}
	return t.UnixNano()
}

// Request issues one TSO request on node n and records it.
func (w *World) Request(n *Node, count uint32) {
	t := sched.Cur()
	tid := -1
	if t != nil {
		tid = t.ID
	}
	old := sched.SetMember(n.ID)
	defer sched.SetMember(old)
	g := Grant{Thread: tid, Who: fmt.Sprintf("pd%d", n.ID), Count: count, Inv: w.seq}
	w.seq++
	var ts pdpb.Timestamp
	var err error
	ts, err = n.AM.HandleTSORequest("", count)
	g.Ret = w.seq
	w.seq++
	if err != nil {
		g.Err = err.Error()
	} else {
		g.Phys, g.Logical = ts.Physical, ts.Logical
		g.StoredAt = Stored(w.St)
		if w.Takeover {
			w.takeoverCheck(fmt.Sprintf("after grant %d", len(w.Grants)), g)
		}
	}
	w.Grants = append(w.Grants, g)
}

// takeoverCheck: the serving process stops now; a fresh member (clock offset
// -1h, 0, +1h) takes over on a copy of the storage. Its first timestamp must
// exceed every timestamp granted so far.
func (w *World) takeoverCheck(when string, last Grant) {
	sched.Atomic(func() {
		maxTS := last.hi()
		for _, g := range w.Grants {
			if g.Err == "" && g.hi() > maxTS {
				maxTS = g.hi()
			}
		}
		for i, off := range []time.Duration{0, -time.Hour, time.Hour} {
			cl := w.St.Clone()
			cl.FaultWrites = false
			for _, id := range cl.LeaseIDs() {
				cl.RevokeLeaseDirect(id)
			}
			id := 90 + i
			vclock.SetOffset(id, off)
			old := sched.SetMember(id)
			n := w.AddNode(id, cl)
			err := n.Campaign()
			var ts pdpb.Timestamp
			if err == nil {
				ts, err = n.AM.HandleTSORequest("", 1)
			}
			n.cancel()
			sched.SetMember(old)
			if err != nil {
				w.addBad("takeover-failed", fmt.Sprintf("%s: successor with clock offset %v could not serve: %v", when, off, err))
				continue
			}
			got := tsoutil.ComposeTS(ts.Physical, ts.Logical)
			if got <= maxTS {
				w.addBad("takeover-not-larger", fmt.Sprintf("%s: successor (clock offset %v) granted %d.%d which is not larger than an earlier grant %d.%d; stored bound at crash %s",
					when, off, ts.Physical, ts.Logical, int64(maxTS>>18), int64(maxTS&(maxLogical-1)), time.Unix(0, Stored(w.St)).UTC().Format("15:04:05.000")))
			}
		}
	})
}

// CheckC01 evaluates the C01 oracle on the recorded history.
func (w *World) CheckC01() *explore.Violation {
	var ok []Grant
	for _, g := range w.Grants {
		if g.Err != "" {
			continue
		}
		if g.Logical >= maxLogical || g.Logical < 0 {
			return &explore.Violation{Key: "logical-overflow", Msg: fmt.Sprintf("returned logical %d does not fit 18 bits (%+v)", g.Logical, g)}
		}
		if g.Logical-int64(g.Count)+1 < 0 {
			return &explore.Violation{Key: "range-underflow", Msg: fmt.Sprintf("range of %+v starts below logical 0", g)}
		}
		ok = append(ok, g)
	}
	for i := 0; i < len(ok); i++ {
		for j := i + 1; j < len(ok); j++ {
			a, b := ok[i], ok[j]
			if a.lo() <= b.hi() && b.lo() <= a.hi() {
				return &explore.Violation{Key: "ranges-overlap", Msg: fmt.Sprintf("granted ranges overlap: %s and %s", a, b)}
			}
			if a.Ret < b.Inv && a.hi() >= b.lo() {
				return &explore.Violation{Key: "real-time-order", Msg: fmt.Sprintf("%s completed before %s began but is not smaller", a, b)}
			}
			if b.Ret < a.Inv && b.hi() >= a.lo() {
				return &explore.Violation{Key: "real-time-order", Msg: fmt.Sprintf("%s completed before %s began but is not smaller", b, a)}
			}
		}
	}
	return nil
}

func (g Grant) String() string {
	if g.Err != "" {
		return fmt.Sprintf("[%s t%d inv%d ret%d n=%d ERR %s]", g.Who, g.Thread, g.Inv, g.Ret, g.Count, g.Err)
	}
	return fmt.Sprintf("[%s t%d inv%d ret%d n=%d ts=%d.%d]", g.Who, g.Thread, g.Inv, g.Ret, g.Count, g.Phys, g.Logical)
}

// CheckC02 evaluates the C02 oracle.
func (w *World) CheckC02() *explore.Violation {
	if len(w.Bad) > 0 {
		return &explore.Violation{Key: w.BadKeys[0], Msg: strings.Join(w.Bad, "\n")}
	}
	// take-over between the real members of the scenario: what a member grants after it took
	// over is larger than everything another member had granted before the request began
	for _, a := range w.Grants {
		for _, b := range w.Grants {
			if a.Err == "" && b.Err == "" && a.Who != b.Who && a.Ret < b.Inv && a.hi() >= b.lo() {
				return &explore.Violation{Key: "takeover-not-larger", Msg: fmt.Sprintf("%s was granted by %s after %s had been granted by %s, and is not larger", b, b.Who, a, a.Who)}
			}
		}
	}
	for _, g := range w.Grants {
		if g.Err != "" {
			continue
		}
		if g.Phys*int64(time.Millisecond) >= g.StoredAt {
			return &explore.Violation{Key: "grant-not-below-stored", Msg: fmt.Sprintf("grant %s has physical %d ms but the stored bound at that time is %d ms", g, g.Phys, g.StoredAt/int64(time.Millisecond))}
		}
	}
	return nil
}

// Outcome is a short signature of the history.
func (w *World) Outcome() string {
	var l []string
	base := vclock.Epoch.UnixNano() / int64(time.Millisecond)
	for _, g := range w.Grants {
		if g.Err != "" {
			e := g.Err
			if len(e) > 24 {
				e = e[len(e)-24:]
			}
			l = append(l, "E:"+e)
		} else {
			l = append(l, fmt.Sprintf("%d.%d", g.Phys-base, g.Logical))
		}
	}
	sort.Strings(l)
	return strings.Join(l, ",") + fmt.Sprintf("|saves=%d", len(w.SaveLog))
}

// Close releases the nodes.
func (w *World) Close() {
	for _, n := range w.Nodes {
		n.cancel()
	}
}

// TS composes a uint64 timestamp at Epoch+d with the given logical.
func TS(d time.Duration, logical int64) uint64 {
	return tsoutil.ComposeTS(vclock.Epoch.Add(d).UnixNano()/int64(time.Millisecond), logical)
}

// ClockChoice advances the clock by an amount chosen by the explorer (default def).
func ClockChoice(def time.Duration, alts ...time.Duration) {
	c := sched.Choose(1+len(alts), "clock")
	d := def
	if c > 0 {
		d = alts[c-1]
	}
	vclock.Advance(d)
}

// Scenario builds the standard C01/C02 scenarios. oracle selects the check.
type Admin struct {
	Name string
	Run  func(w *World, n1 *Node)
}

// Admins is the list of admin actions (one per scenario).
func Admins() []Admin {
	set := func(name string, f func() uint64) Admin {
		return Admin{Name: name, Run: func(w *World, n1 *Node) {
			old := sched.SetMember(n1.ID)
			_ = n1.Alloc.SetTSO(f())
			sched.SetMember(old)
		}}
	}
	return []Admin{
		{Name: "none", Run: func(w *World, n1 *Node) {}},
		set("set-1ms", func() uint64 { return TS(-time.Millisecond, 5) }),
		set("set-same-ms-small", func() uint64 { return TS(0, 0) }),
		set("set-same-ms-near-overflow", func() uint64 { return TS(0, maxLogical-2) }),
		set("set+10ms", func() uint64 { return TS(10*time.Millisecond, 7) }),
		set("set+window", func() uint64 { return TS(3*time.Second, 0) }),
		set("set+10s", func() uint64 { return TS(10*time.Second, 0) }),
		set("set+25h", func() uint64 { return TS(25*time.Hour, 0) }),
		{Name: "reset-reinit", Run: func(w *World, n1 *Node) {
			old := sched.SetMember(n1.ID)
			n1.StepDown()
			_ = n1.Campaign()
			sched.SetMember(old)
		}},
	}
}

// Handover makes node 1 step down and node 2 (clock offset off) campaign.
func Handover(off time.Duration) Admin {
	return Admin{Name: fmt.Sprintf("handover%+v", off), Run: func(w *World, n1 *Node) {
		old := sched.SetMember(n1.ID)
		n1.StepDown()
		vclock.SetOffset(2, off)
		sched.SetMember(2)
		n2 := w.Nodes[2]
		if err := n2.Campaign(); err == nil {
			w.Request(n2, 1)
			w.Request(n2, 2)
		}
		sched.SetMember(old)
	}}
}

// Handover2 is two leader changes in a row: node 1 steps down, node 2 (clock offset
// off) campaigns and serves, steps down, node 3 (same offset) campaigns and serves.
func Handover2(off time.Duration) Admin {
	return Admin{Name: fmt.Sprintf("handover-twice%+v", off), Run: func(w *World, n1 *Node) {
		old := sched.SetMember(n1.ID)
		n1.StepDown()
		prev := n1
		for _, id := range []int{2, 3} {
			if prev != n1 {
				sched.SetMember(prev.ID)
				prev.StepDown()
			}
			vclock.SetOffset(id, off)
			sched.SetMember(id)
			n := w.Nodes[id]
			if n == nil {
				n = w.AddNode(id, nil)
			}
			if err := n.Campaign(); err != nil {
				break
			}
			w.Request(n, 1)
			w.Request(n, 2)
			prev = n
		}
		sched.SetMember(old)
	}}
}

// HandoverBack: node 1 steps down, node 2 campaigns and serves, steps down, node 1 campaigns
// again (its allocator object has lived through the other member's term) and serves.
func HandoverBack(off time.Duration) Admin {
	return Admin{Name: fmt.Sprintf("handover-and-back%+v", off), Run: func(w *World, n1 *Node) {
		old := sched.SetMember(n1.ID)
		n1.StepDown()
		vclock.SetOffset(2, off)
		sched.SetMember(2)
		n2 := w.Nodes[2]
		if err := n2.Campaign(); err == nil {
			w.Request(n2, 1)
			w.Request(n2, 2)
			n2.StepDown()
			sched.SetMember(n1.ID)
			if err := n1.Campaign(); err == nil {
				w.Request(n1, 1)
			}
		}
		sched.SetMember(old)
	}}
}

// LostRetry: the leader record disappears behind the member's back (its lease still looks
// valid locally) and a manual reset to +10 s is tried twice.
func LostRetry() Admin {
	return Admin{Name: "lost-leader-record+set-retry", Run: func(w *World, n1 *Node) {
		sched.PointAt(sched.KUser, "delete leader record")
		w.St.DeleteDirect(Root + "/leader")
		old := sched.SetMember(n1.ID)
		_ = n1.Alloc.SetTSO(TS(10*time.Second, 0))
		_ = n1.Alloc.SetTSO(TS(10*time.Second, 0))
		sched.SetMember(old)
	}}
}

// Seq runs several admin actions one after the other (with one request served in between).
func Seq(name string, as ...Admin) Admin {
	return Admin{Name: name, Run: func(w *World, n1 *Node) {
		for i, a := range as {
			if i > 0 {
				w.Request(n1, 1)
			}
			a.Run(w, n1)
		}
	}}
}
