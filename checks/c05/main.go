// Check C05: local and global timestamps are mutually consistent.
//
// Engine A: 2-3 real Servers with per-datacenter allocators on one fake etcd.
// Local allocator leaders are elected by the real campaign sequence; PD-to-PD
// RPCs (SyncMaxTS, GetDCLocationInfo) are the real generated gRPC client calls
// over an in-process connection whose interceptor invokes the target Server's
// real handler; the per-URL goroutines of SyncMaxTS are harness threads.
package main

import (
	"context"
	"fmt"
	"math/bits"
	"sort"
	"strconv"
	"strings"
	"time"

	"github.com/pingcap/kvproto/pkg/pdpb"
	"github.com/tikv/pd/pkg/tsoutil"
	"github.com/tikv/pd/pkg/typeutil"
	"github.com/tikv/pd/pkg/verifshim/sched"
	"github.com/tikv/pd/pkg/verifshim/vclock"
	"github.com/tikv/pd/server/config"
	"github.com/tikv/pd/server/tso"
	"google.golang.org/grpc"
	"verif/checks/srvh"
	"verif/engine/explore"
	"verif/engine/fakeetcd"
)

type grant struct {
	dc       string
	who      int
	inv, ret int
	ts       uint64
	phys     int64
	logical  int64
	bits     uint32
	err      string
}

func (g grant) String() string {
	if g.err != "" {
		return fmt.Sprintf("[%s@pd%d inv%d ret%d ERR %s]", g.dc, g.who, g.inv, g.ret, g.err)
	}
	return fmt.Sprintf("[%s@pd%d inv%d ret%d ts=%d.%d bits=%d]", g.dc, g.who, g.inv, g.ret, g.phys, g.logical, g.bits)
}

type world struct {
	realCampaign bool
	bad          []string // violations noticed while the scenario runs
	badKey       string
	st           *fakeetcd.Store
	srvs         map[int]*srvh.Srv
	conns        []*grpc.ClientConn
	zones        map[int]string
	grants       []grant
	seq          int
	ctx          context.Context
	cancel       context.CancelFunc
	leader       int
	allocLeader  map[string]int
}

func (w *world) conn(target *srvh.Srv) *grpc.ClientConn {
	cc, err := grpc.Dial("passthrough:///inproc", grpc.WithInsecure(), grpc.WithUnaryInterceptor(
		func(ctx context.Context, method string, req, reply interface{}, _ *grpc.ClientConn, _ grpc.UnaryInvoker, _ ...grpc.CallOption) error {
			old := sched.SetMember(target.ID)
			defer sched.SetMember(old)
			switch method {
			case "/pdpb.PD/SyncMaxTS":
				resp, err := target.SyncMaxTS(ctx, req.(*pdpb.SyncMaxTSRequest))
				if err != nil {
					return err
				}
				*reply.(*pdpb.SyncMaxTSResponse) = *resp
				return nil
			case "/pdpb.PD/GetDCLocationInfo":
				resp, err := target.GetDCLocationInfo(ctx, req.(*pdpb.GetDCLocationInfoRequest))
				if err != nil {
					return err
				}
				*reply.(*pdpb.GetDCLocationInfoResponse) = *resp
				return nil
			}
			return fmt.Errorf("in-process connection: method %s not wired", method)
		}))
	if err != nil {
		panic(err)
	}
	w.conns = append(w.conns, cc)
	return cc
}

// newWorld creates n servers in the given zones; server 1 becomes PD leader.
func newWorld(zones map[int]string) *world {
	vclock.Enable(vclock.Epoch)
	ctx, cancel := context.WithCancel(context.Background())
	zc := map[int]string{}
	for k, v := range zones {
		zc[k] = v
	}
	zones = zc
	w := &world{st: fakeetcd.New(), srvs: map[int]*srvh.Srv{}, zones: zones, ctx: ctx, cancel: cancel, leader: 1, allocLeader: map[string]int{}}
	srvh.SeedClusterID(w.st)
	// an allocator leadership (record <root>/<dc-location>) is only ever won while no live record exists
	live := map[string]bool{}
	w.st.OnCommit = func(evs []fakeetcd.Event) {
		for _, e := range evs {
			if !strings.HasPrefix(e.Key, srvh.Root+"/dc") || strings.Count(e.Key, "/") != 3 {
				continue
			}
			if e.Delete {
				delete(live, e.Key)
				continue
			}
			if live[e.Key] {
				w.bad = append(w.bad, fmt.Sprintf("the allocator leader record %s was written by %s while a live record existed", e.Key, e.Who))
				w.badKey = "allocator-campaign-over-live-leader"
			}
			live[e.Key] = true
		}
	}
	var ids []int
	for id := range zones {
		ids = append(ids, id)
	}
	sort.Ints(ids)
	for _, id := range ids {
		w.addServer(id)
	}
	if err := w.srvs[1].VerifBecomeTSOLeader(); err != nil {
		panic(err)
	}
	w.afterLeaderChange()
	return w
}

func (w *world) addServer(id int) {
	zone := w.zones[id]
	s, err := srvh.NewTSO(w.st, id, func(c *config.Config) {
		c.EnableLocalTSO = true
		c.Labels = map[string]string{config.ZoneLabel: zone}
		c.LeaderLease = 100000
	})
	if err != nil {
		panic(err)
	}
	w.srvs[id] = s
	// connections in both directions
	for _, o := range w.srvs {
		o.GetTSOAllocatorManager().VerifSetGRPCConn(s.Cfg.AdvertiseClientUrls, w.conn(s))
		if o != s {
			s.GetTSOAllocatorManager().VerifSetGRPCConn(o.Cfg.AdvertiseClientUrls, w.conn(o))
		}
	}
}

// afterLeaderChange: followers learn the PD leader, everybody refreshes the dc-location view and
// sets up the local allocators of every known dc-location (what the daemons do periodically).
func (w *world) afterLeaderChange() {
	l := w.srvs[w.leader]
	for _, s := range w.sorted() {
		if s != l {
			s.VerifMember().VerifSetLeader(l.VerifMember().Member())
		}
	}
	w.refresh()
}

func (w *world) sorted() []*srvh.Srv {
	var ids []int
	for id := range w.srvs {
		ids = append(ids, id)
	}
	sort.Ints(ids)
	var l []*srvh.Srv
	for _, id := range ids {
		l = append(l, w.srvs[id])
	}
	return l
}

func (w *world) refresh() {
	// leader first (it assigns suffixes), then the followers
	w.srvs[w.leader].GetTSOAllocatorManager().ClusterDCLocationChecker()
	for _, s := range w.sorted() {
		am := s.GetTSOAllocatorManager()
		am.ClusterDCLocationChecker()
		var dcs []string
		for dc := range am.GetClusterDCLocations() {
			dcs = append(dcs, dc)
		}
		sort.Strings(dcs)
		for _, dc := range dcs {
			am.VerifSetUpLocalAllocator(w.ctx, dc)
		}
	}
}

// electAllocator: server id campaigns for the allocator of dc; everybody else observes the result.
func (w *world) electAllocator(id int, dc string) error {
	err := w.electAllocatorUnobserved(id, dc)
	w.observe(dc)
	return err
}

// electAllocatorUnobserved: the other members have not yet noticed the result (their watch is late).
func (w *world) electAllocatorUnobserved(id int, dc string) error {
	old := sched.SetMember(id)
	defer sched.SetMember(old)
	if sched.Cur() == nil { // set-up (not a harness thread): the member's clock all the same
		defer vclock.SetDefaultMember(vclock.SetDefaultMember(id))
	}
	var err error
	if w.realCampaign {
		err = w.srvs[id].GetTSOAllocatorManager().VerifBecomeAllocatorLeaderReal(w.ctx, dc)
	} else {
		err = w.srvs[id].GetTSOAllocatorManager().VerifBecomeAllocatorLeader(w.ctx, dc)
	}
	if err == nil {
		w.allocLeader[dc] = id
	}
	return err
}

func (w *world) observe(dc string) {
	for _, s := range w.sorted() {
		s.GetTSOAllocatorManager().VerifObserveAllocatorLeader(dc)
	}
	for _, s := range w.sorted() {
		s.GetTSOAllocatorManager().ClusterDCLocationChecker()
	}
}

func (w *world) request(id int, dc string, count uint32) {
	s := w.srvs[id]
	old := sched.SetMember(id)
	defer sched.SetMember(old)
	g := grant{dc: dc, who: id, inv: w.seq}
	w.seq++
	ts, err := s.GetTSOAllocatorManager().HandleTSORequest(dc, count)
	g.ret = w.seq
	w.seq++
	if err != nil {
		g.err = err.Error()
		if len(g.err) > 60 {
			g.err = g.err[len(g.err)-60:]
		}
	} else {
		g.phys, g.logical, g.bits = ts.Physical, ts.Logical, ts.SuffixBits
		g.ts = tsoutil.ComposeTS(ts.Physical, ts.Logical)
		// the granted physical time lies below the window that is stored for that allocator
		key := srvh.Root + "/timestamp"
		if dc != tso.GlobalDCLocation {
			key = srvh.Root + "/" + dc + "/timestamp"
		}
		if v, ok := w.st.Get(key); ok {
			if t, err := typeutil.ParseTimestamp([]byte(v)); err == nil && ts.Physical*int64(time.Millisecond) >= t.UnixNano() && w.badKey == "" {
				w.bad = append(w.bad, fmt.Sprintf("%s granted physical %d ms while the stored window bound of %s is %d ms", g.String(), ts.Physical, key, t.UnixNano()/int64(time.Millisecond)))
				w.badKey = "grant-not-below-stored"
			}
		}
	}
	w.grants = append(w.grants, g)
}

func (w *world) update(id int, d time.Duration) {
	old := sched.SetMember(id)
	defer sched.SetMember(old)
	vclock.Advance(d)
	w.srvs[id].GetTSOAllocatorManager().VerifAllocatorUpdaterSync()
}

func (w *world) suffixes() map[string]int {
	out := map[string]int{}
	for _, kv := range w.st.Dump() {
		if strings.Contains(kv[0], "/local-tso-suffix/") || strings.Contains(kv[0], "/lts/") || strings.Contains(kv[0], "tso-suffix") {
			p := strings.Split(kv[0], "/")
			n, _ := strconv.Atoi(kv[1])
			out[p[len(p)-1]] = n
		}
	}
	return out
}

func (w *world) close() {
	for _, s := range w.srvs {
		s.Close()
	}
	for _, c := range w.conns {
		c.Close()
	}
	w.cancel()
}

func (w *world) check(r *sched.Run) (string, *explore.Violation) {
	defer w.close()
	if len(w.bad) > 0 {
		k := w.badKey
		if k == "" {
			k = "suffix-changed"
		}
		return "", &explore.Violation{Key: k, Msg: strings.Join(w.bad, "; ")}
	}
	var ok []grant
	sfx := w.suffixes()
	maxSuffix := 0
	for _, v := range sfx {
		if v > maxSuffix {
			maxSuffix = v
		}
	}
	for _, g := range w.grants {
		if g.err != "" {
			continue
		}
		if g.logical >= 1<<18 {
			return "", &explore.Violation{Key: "logical-overflow", Msg: fmt.Sprintf("%s: logical does not fit 18 bits", g)}
		}
		// the suffix carried in the low bits must be the allocator's
		want := 0
		if g.dc != tso.GlobalDCLocation {
			want = sfx[g.dc]
		}
		if g.bits > 0 && int(g.logical&(1<<g.bits-1)) != want {
			return "", &explore.Violation{Key: "wrong-suffix", Msg: fmt.Sprintf("%s carries suffix %d in its low %d bits, the dc-location's suffix is %d (%v)", g, g.logical&(1<<g.bits-1), g.bits, want, sfx)}
		}
		ok = append(ok, g)
	}
	// suffix width large enough for every suffix in use: every dc-location whose allocator
	// had served a timestamp before this request began
	for _, g := range ok {
		for _, h := range ok {
			if h.dc == tso.GlobalDCLocation || h.ret >= g.inv {
				continue
			}
			if need := bits.Len(uint(sfx[h.dc])); int(g.bits) < need {
				return "", &explore.Violation{Key: "suffix-bits-too-small", Msg: fmt.Sprintf("%s reports %d suffix bits but suffix %d of %s, which had served %s before, needs %d", g, g.bits, sfx[h.dc], h.dc, h, need)}
			}
		}
	}
	for i := 0; i < len(ok); i++ {
		for j := i + 1; j < len(ok); j++ {
			a, b := ok[i], ok[j]
			if a.ts == b.ts {
				key := "same-allocator-duplicate"
				if a.dc != b.dc {
					key = "cross-allocator-duplicate"
				}
				return "", &explore.Violation{Key: key, Msg: fmt.Sprintf("the same timestamp was granted twice: %s and %s", a, b)}
			}
			for _, p := range [][2]grant{{a, b}, {b, a}} {
				x, y := p[0], p[1] // x completed before y began?
				if x.ret >= y.inv {
					continue
				}
				switch {
				case x.dc == y.dc && x.ts >= y.ts:
					return "", &explore.Violation{Key: "same-allocator-order", Msg: fmt.Sprintf("%s completed before %s began but is not smaller", x, y)}
				case y.dc == tso.GlobalDCLocation && x.dc != tso.GlobalDCLocation && x.ts >= y.ts:
					return "", &explore.Violation{Key: "global-not-above-earlier-local", Msg: fmt.Sprintf("local %s completed before global %s began but the global timestamp is not larger", x, y)}
				case x.dc == tso.GlobalDCLocation && y.dc != tso.GlobalDCLocation && x.ts >= y.ts:
					return "", &explore.Violation{Key: "local-not-above-earlier-global", Msg: fmt.Sprintf("global %s was returned before local %s was requested but the local timestamp is not larger", x, y)}
				}
			}
		}
	}
	// suffixes: distinct, positive
	seen := map[int]string{}
	for dc, v := range sfx {
		if v <= 0 {
			return "", &explore.Violation{Key: "suffix-not-positive", Msg: fmt.Sprintf("dc-location %s has suffix %d", dc, v)}
		}
		if o, dup := seen[v]; dup {
			return "", &explore.Violation{Key: "suffix-shared", Msg: fmt.Sprintf("dc-locations %s and %s share suffix %d", o, dc, v)}
		}
		seen[v] = dc
	}
	var l []string
	base := vclock.Epoch.UnixNano() / int64(time.Millisecond)
	for _, g := range w.grants {
		if g.err != "" {
			l = append(l, g.dc+":E")
		} else {
			l = append(l, fmt.Sprintf("%s:%d.%d", g.dc, g.phys-base, g.logical))
		}
	}
	sort.Strings(l)
	return strings.Join(l, ","), nil
}

type scen struct {
	retries int  // maxRetryCount of the TSO code (0 = the real 10)
	fine    bool // read-lock acquisitions are scheduling points too
	name    string
	zones   map[int]string
	alloc   map[string]int // dc -> server that leads its allocator
	pre     int
	dev     int                   // > 0: storage writes may fail, at most dev of them
	offsets map[int]time.Duration // clock offsets of the servers, in force from the start
	tiers   string
	build   func(w *world) ([]string, []func())
	// realCampaign: allocator elections run the steps generated from the current source of
	// campaignAllocatorLeader (rewriter option steps=) instead of the hook that restates them
	realCampaign bool
}

func scenario(sc scen) *explore.Scenario {
	kinds := uint32(1<<sched.KLock | 1<<sched.KEtcd | 1<<sched.KUser | 1<<sched.KWait | 1<<sched.KStart | 1<<sched.KYield)
	if sc.fine {
		kinds |= 1 << sched.KRLock
	}
	return &explore.Scenario{Name: sc.name, MaxPre: sc.pre, MaxDev: sc.dev, Tiers: sc.tiers,
		Opts: sched.Options{Kinds: kinds, Delay: true},
		Setup: func() *explore.Instance {
			if sc.retries > 0 {
				tso.VerifSetMaxRetryCount(sc.retries)
			} else {
				tso.VerifSetMaxRetryCount(10)
			}
			w := newWorld(sc.zones)
			w.realCampaign = sc.realCampaign
			for id, off := range sc.offsets {
				vclock.SetOffset(id, off)
			}
			var dcs []string
			for dc := range sc.alloc {
				dcs = append(dcs, dc)
			}
			sort.Strings(dcs)
			for _, dc := range dcs {
				if err := w.electAllocator(sc.alloc[dc], dc); err != nil {
					panic(fmt.Sprintf("harness: cannot elect allocator of %s on pd%d: %v", dc, sc.alloc[dc], err))
				}
			}
			names, th := sc.build(w)
			w.st.FaultWrites = sc.dev > 0
			return &explore.Instance{Names: names, Threads: th, Check: w.check}
		}}
}

func main() {
	defer srvh.Cleanup()
	G := tso.GlobalDCLocation
	two := map[int]string{1: "dc1", 2: "dc2"}
	var l []*explore.Scenario
	// two datacenters, allocator leaders on their own servers
	basic := func(w *world) ([]string, []func()) {
		return []string{"local1", "local2", "global"}, []func(){
			func() { w.request(1, "dc1", 1) },
			func() { w.request(2, "dc2", 1); w.request(2, "dc2", 1) },
			func() { w.request(1, G, 1) },
		}
	}
	l = append(l, scenario(scen{name: "2dc/local+global", zones: two, alloc: map[string]int{"dc1": 1, "dc2": 2}, pre: 6, tiers: "quick", build: basic}))
	l = append(l, scenario(scen{name: "2dc/local+global/fine", zones: two, alloc: map[string]int{"dc1": 1, "dc2": 2}, pre: 10, tiers: "thorough", build: basic, fine: true}))
	l = append(l, scenario(scen{name: "2dc/local+global@3", zones: two, alloc: map[string]int{"dc1": 1, "dc2": 2}, pre: 10, tiers: "thorough", build: basic}))
	// both allocator leaders co-located on the PD leader
	l = append(l, scenario(scen{name: "2dc/co-located", zones: two, alloc: map[string]int{"dc1": 1, "dc2": 1}, pre: 6, tiers: "quick", build: func(w *world) ([]string, []func()) {
		return []string{"local1", "local2", "global"}, []func(){
			func() { w.request(1, "dc1", 1) },
			func() { w.request(1, "dc2", 1); w.request(1, "dc2", 1) },
			func() { w.request(1, G, 1); w.request(1, G, 1) },
		}
	}}))
	// two concurrent global requests
	twoGlobals := func(w *world) ([]string, []func()) {
		return []string{"global-a", "global-b", "local2"}, []func(){
			func() { w.request(1, G, 1) },
			func() { w.request(1, G, 1) },
			func() { w.request(2, "dc2", 1); w.request(2, "dc2", 1) },
		}
	}
	l = append(l, scenario(scen{name: "2dc/two-globals", zones: two, alloc: map[string]int{"dc1": 1, "dc2": 2}, pre: 4, tiers: "quick", build: twoGlobals}))
	l = append(l, scenario(scen{name: "2dc/two-globals@3", zones: two, alloc: map[string]int{"dc1": 1, "dc2": 2}, pre: 10, tiers: "thorough", build: twoGlobals}))
	// physical time advances between requests (updater rounds)
	withUpdates := func(w *world) ([]string, []func()) {
		return []string{"local2", "global", "updater"}, []func(){
			func() { w.request(2, "dc2", 1); w.request(2, "dc2", 1) },
			func() { w.request(1, G, 1); w.request(1, G, 1) },
			func() { w.update(2, 50*time.Millisecond); w.update(1, 50*time.Millisecond) },
		}
	}
	l = append(l, scenario(scen{name: "2dc/updates", zones: two, alloc: map[string]int{"dc1": 1, "dc2": 2}, pre: 4, tiers: "quick", build: withUpdates}))
	// the PD leader's clock is ahead of dc2's allocator leader: a global timestamp written to
	// dc2 as MaxTS is ahead of dc2's clock while dc2's periodic update is in flight
	skewed := func(w *world) ([]string, []func()) {
		vclock.SetOffset(1, 200*time.Millisecond)
		return []string{"updater", "global", "local2"}, []func(){
			func() { w.update(1, 50*time.Millisecond); w.update(2, 50*time.Millisecond) },
			func() { w.request(1, G, 1) },
			func() { w.request(2, "dc2", 1); w.request(2, "dc2", 1) },
		}
	}
	l = append(l, scenario(scen{name: "2dc/updates/clock-skew", zones: two, alloc: map[string]int{"dc1": 1, "dc2": 2}, pre: 6, tiers: "quick", build: skewed}))
	l = append(l, scenario(scen{name: "2dc/updates/clock-skew@8", zones: two, alloc: map[string]int{"dc1": 1, "dc2": 2}, pre: 8, tiers: "thorough", build: skewed}))
	// PD leadership moves to a member whose view of the dc-locations is stale (it has not run
	// its checker since dc4 joined), then another dc-location joins: suffixes stay distinct
	// and are kept
	leaderMove := func(w *world) ([]string, []func()) {
		return []string{"ops", "global"}, []func(){
			func() {
				w.zones[3] = "dc4"
				w.addServer(3)
				w.srvs[3].VerifMember().VerifSetLeader(w.srvs[1].VerifMember().Member())
				sched.SetMember(1)
				w.srvs[1].GetTSOAllocatorManager().ClusterDCLocationChecker() // the leader gives dc4 its suffix
				before := w.suffixes()
				w.srvs[1].GetTSOAllocatorManager().ResetAllocatorGroup(G)
				w.srvs[1].VerifMember().ResetLeader()
				sched.SetMember(2)
				if err := w.srvs[2].VerifBecomeTSOLeader(); err != nil {
					return
				}
				w.leader = 2
				w.zones[4] = "dc3"
				w.addServer(4)
				w.afterLeaderChange()
				for dc, v := range before {
					if now := w.suffixes()[dc]; now != v {
						w.bad = append(w.bad, fmt.Sprintf("dc-location %s had suffix %d and now has %d", dc, v, now))
					}
				}
				if err := w.electAllocator(4, "dc3"); err == nil {
					w.request(4, "dc3", 1)
				}
				if err := w.electAllocator(3, "dc4"); err == nil {
					w.request(3, "dc4", 1)
				}
				w.request(2, G, 1)
			},
			func() { w.request(1, G, 1); w.request(2, "dc2", 1) },
		}
	}
	l = append(l, scenario(scen{name: "2dc/pd-leader-move+2joins", zones: two, alloc: map[string]int{"dc1": 1, "dc2": 2}, pre: 1, tiers: "quick", build: leaderMove}))
	l = append(l, scenario(scen{name: "2dc/pd-leader-move+2joins@3", zones: two, alloc: map[string]int{"dc1": 1, "dc2": 2}, pre: 3, tiers: "thorough", build: leaderMove}))
	// dc2's allocator leader has a clock reading with a sub-millisecond part (timestamps carry
	// milliseconds): a global timestamp in the same millisecond must still be written back
	subMs := func(w *world) ([]string, []func()) {
		vclock.SetOffset(2, 1300*time.Microsecond)
		return []string{"local2+global", "local1"}, []func(){
			func() { w.update(2, 0); w.request(2, "dc2", 1); w.request(1, G, 1); w.request(2, "dc2", 1) },
			func() { w.request(1, "dc1", 1); w.request(1, G, 1) },
		}
	}
	l = append(l, scenario(scen{name: "2dc/local+global/sub-ms-clock", zones: two, alloc: map[string]int{"dc1": 1, "dc2": 2}, pre: 3, tiers: "quick", build: subMs}))
	// a fourth dc-location joins and the followers run their checker before the PD leader has
	// given it a suffix, and again afterwards: everybody must end up with a wide enough suffix width
	fourth := func(w *world) ([]string, []func()) {
		return []string{"join", "global"}, []func(){
			func() {
				w.zones[4] = "dc4"
				w.addServer(4)
				w.srvs[4].VerifMember().VerifSetLeader(w.srvs[1].VerifMember().Member())
				for _, id := range []int{2, 3, 4} { // followers first: dc4 is known, its suffix is not
					sched.SetMember(id)
					w.srvs[id].GetTSOAllocatorManager().ClusterDCLocationChecker()
				}
				sched.SetMember(1)
				w.refresh() // the leader assigns the suffix, the followers look again
				if err := w.electAllocator(4, "dc4"); err == nil {
					w.request(4, "dc4", 1)
					w.request(2, "dc2", 1)
					w.request(3, "dc3", 1)
					w.request(1, G, 1)
				}
			},
			func() { w.request(1, G, 1) },
		}
	}
	// a fourth dc-location joins while no local allocator has a leader (the PD leader reports an empty
	// maximum) and campaigns before it has looked at the suffixes again: its own campaign must make
	// the suffix width wide enough for its suffix
	fourthAlone := func(w *world) ([]string, []func()) {
		return []string{"join", "global"}, []func(){
			func() {
				w.zones[4] = "dc4"
				w.addServer(4)
				w.srvs[4].VerifMember().VerifSetLeader(w.srvs[1].VerifMember().Member())
				sched.SetMember(4)
				w.srvs[4].GetTSOAllocatorManager().ClusterDCLocationChecker() // dc4 is known, its suffix is not
				sched.SetMember(1)
				w.srvs[1].GetTSOAllocatorManager().ClusterDCLocationChecker() // the leader assigns the suffix
				sched.SetMember(4)
				w.srvs[4].GetTSOAllocatorManager().VerifSetUpLocalAllocator(w.ctx, "dc4")
				if err := w.electAllocatorUnobserved(4, "dc4"); err == nil {
					w.request(4, "dc4", 1)
					w.request(4, "dc4", 1)
				}
			},
			func() { w.request(1, G, 1) },
		}
	}
	three3 := map[int]string{1: "dc1", 2: "dc2", 3: "dc3"}
	l = append(l, scenario(scen{name: "3dc/fourth-joins/followers-look-first", zones: three3, alloc: map[string]int{"dc1": 1, "dc2": 2, "dc3": 3}, pre: 1, tiers: "quick", build: fourth}))
	l = append(l, scenario(scen{name: "3dc/fourth-joins/no-allocator-leaders", zones: three3, alloc: map[string]int{}, pre: 1, tiers: "", build: fourthAlone, realCampaign: true}))
	l = append(l, scenario(scen{name: "3dc/fourth-joins/followers-look-first@3", zones: three3, alloc: map[string]int{"dc1": 1, "dc2": 2, "dc3": 3}, pre: 3, tiers: "thorough", build: fourth}))
	// dc2's clock (and so its local TSO) is 5 s ahead: a global timestamp has to move the global
	// allocator's window, and that save may fail
	ahead := func(w *world) ([]string, []func()) {
		return []string{"dc2+global", "local1"}, []func(){
			func() { w.update(2, 0); w.request(2, "dc2", 1); w.request(1, G, 1); w.request(1, G, 1) },
			func() { w.request(1, "dc1", 1) },
		}
	}
	l = append(l, scenario(scen{name: "2dc/local-ahead-of-global-window/storage-faults", zones: two, alloc: map[string]int{"dc1": 1, "dc2": 2}, pre: 1, dev: 1, tiers: "quick", build: ahead, offsets: map[int]time.Duration{2: 5 * time.Second}}))
	l = append(l, scenario(scen{name: "2dc/local-ahead-of-global-window/storage-faults@3", zones: two, alloc: map[string]int{"dc1": 1, "dc2": 2}, pre: 3, dev: 2, tiers: "thorough", build: ahead, offsets: map[int]time.Duration{2: 5 * time.Second}}))
	// a synchronised MaxTS lands beyond what is left of dc2's window but less than a whole save
	// interval ahead of its time: the window has to be extended before the memory moves
	midJump := func(w *world) ([]string, []func()) {
		return []string{"dc2+global", "local1"}, []func(){
			func() {
				w.update(1, 2*time.Second) // PD leader (clock +1.5 s): global and dc1 at 3.5 s
				w.update(2, 0)             // dc2 at 2 s, its window ends at 3 s
				w.request(1, G, 1)
				w.request(2, "dc2", 1)
			},
			func() { w.request(1, "dc1", 1) },
		}
	}
	l = append(l, scenario(scen{name: "2dc/maxts-beyond-rest-of-window", zones: two, alloc: map[string]int{"dc1": 1, "dc2": 2}, pre: 2, tiers: "quick", build: midJump, offsets: map[int]time.Duration{1: 1500 * time.Millisecond}}))
	// a local allocator whose logical part is close to the limit (after the suffix shift) when a
	// global request collects it: the collected maximum plus the request count crosses the limit
	nearLimit := func(w *world) ([]string, []func()) {
		return []string{"local1", "global", "local2"}, []func(){
			func() { w.request(1, "dc1", 65500); w.request(1, "dc1", 1) },
			func() { w.request(1, G, 100); w.request(1, G, 1) },
			func() { w.request(2, "dc2", 1) },
		}
	}
	l = append(l, scenario(scen{name: "2dc/local-logical-near-limit", zones: two, alloc: map[string]int{"dc1": 1, "dc2": 2}, pre: 2, tiers: "quick", build: nearLimit}))
	// the same with the collected maximum plus the count landing exactly on the limit (2^16 with two
	// suffix bits); the collected value is the local logical part plus what the synchronisation adds,
	// so the counts around 65536 - 65500 are all tried
	for _, cnt := range []uint32{32, 33, 34, 35, 36} {
		cnt := cnt
		atLimit := func(w *world) ([]string, []func()) {
			return []string{"local1", "global", "local2"}, []func(){
				func() { w.request(1, "dc1", 65500); w.request(1, "dc1", 1) },
				func() { w.request(1, G, cnt); w.request(1, G, 1) },
				func() { w.request(2, "dc2", 1) },
			}
		}
		l = append(l, scenario(scen{name: fmt.Sprintf("2dc/local-logical-at-limit/%d", cnt), zones: two, alloc: map[string]int{"dc1": 1, "dc2": 2}, pre: 1, tiers: "quick", build: atLimit}))
	}
	// two members want the same allocator leadership: dc2's allocator is led by server 2 and
	// server 1 campaigns for it as well (its view of the leadership is late)
	contend := func(w *world) ([]string, []func()) {
		return []string{"local2", "contender", "global"}, []func(){
			func() { w.request(2, "dc2", 1); w.request(2, "dc2", 1) },
			func() {
				if err := w.electAllocatorUnobserved(1, "dc2"); err == nil {
					w.request(1, "dc2", 1)
				}
			},
			func() { w.request(1, G, 1) },
		}
	}
	l = append(l, scenario(scen{name: "2dc/allocator-contention", zones: two, alloc: map[string]int{"dc1": 1, "dc2": 2}, pre: 3, tiers: "quick", build: contend}))
	l = append(l, scenario(scen{name: "2dc/allocator-contention@8", zones: two, alloc: map[string]int{"dc1": 1, "dc2": 2}, pre: 8, tiers: "thorough", build: contend}))
	// a datacenter whose allocator leader is elected while traffic is running (joins later)
	joinLater := func(w *world) ([]string, []func()) {
		return []string{"local1", "global", "join"}, []func(){
			func() { w.request(1, "dc1", 1); w.request(1, "dc1", 1) },
			func() { w.request(1, G, 1); w.request(1, G, 1) },
			func() {
				if err := w.electAllocator(2, "dc2"); err == nil {
					w.request(2, "dc2", 1)
					w.request(1, G, 1)
					w.request(2, "dc2", 1)
				}
			},
		}
	}
	l = append(l, scenario(scen{name: "2dc/join-later", zones: two, alloc: map[string]int{"dc1": 1}, pre: 4, tiers: "quick", build: joinLater}))
	l = append(l, scenario(scen{name: "2dc/join-later/real-campaign", zones: two, alloc: map[string]int{"dc1": 1}, pre: 2, tiers: "", build: joinLater, realCampaign: true}))
	// allocator leader move: dc2's allocator is reset on server 2 and server 1 campaigns for it
	move := func(w *world) ([]string, []func()) {
		return []string{"local2", "global", "move"}, []func(){
			func() { w.request(2, "dc2", 1) },
			func() { w.request(1, G, 1) },
			func() {
				w.srvs[2].GetTSOAllocatorManager().ResetAllocatorGroup("dc2")
				w.observe("dc2")
				if err := w.electAllocator(1, "dc2"); err == nil {
					w.request(1, "dc2", 1)
				}
			},
		}
	}
	l = append(l, scenario(scen{name: "2dc/allocator-move", zones: two, alloc: map[string]int{"dc1": 1, "dc2": 2}, pre: 4, tiers: "quick", build: move}))
	// stale view: dc2's allocator moves from server 2 to server 3 (same datacenter) and the PD
	// leader notices late; a global request in between must not be answered without dc2
	stale := func(w *world) ([]string, []func()) {
		return []string{"move", "global", "observe"}, []func(){
			func() {
				w.srvs[2].GetTSOAllocatorManager().ResetAllocatorGroup("dc2")
				w.srvs[2].GetTSOAllocatorManager().VerifObserveAllocatorLeader("dc2")
				if err := w.electAllocatorUnobserved(3, "dc2"); err == nil {
					w.request(3, "dc2", 1)
				}
			},
			func() { w.request(1, G, 1) },
			func() { w.observe("dc2"); w.request(1, G, 1) },
		}
	}
	twoInDC2 := map[int]string{1: "dc1", 2: "dc2", 3: "dc2"}
	l = append(l, scenario(scen{name: "2dc/stale-view", zones: twoInDC2, alloc: map[string]int{"dc1": 2, "dc2": 2}, pre: 3, tiers: "quick", build: stale, retries: 2}))
	l = append(l, scenario(scen{name: "2dc/stale-view@10", zones: twoInDC2, alloc: map[string]int{"dc1": 2, "dc2": 2}, pre: 8, tiers: "thorough", build: stale, retries: 3}))
	// four datacenters: the suffix needs 3 bits
	four := map[int]string{1: "dc1", 2: "dc2", 3: "dc3", 4: "dc4"}
	l = append(l, scenario(scen{name: "4dc/local+global", zones: four, alloc: map[string]int{"dc1": 1, "dc2": 2, "dc3": 3, "dc4": 4}, pre: 2, tiers: "quick", build: func(w *world) ([]string, []func()) {
		return []string{"local4", "local1", "global"}, []func(){
			func() { w.request(4, "dc4", 1) },
			func() { w.request(1, "dc1", 1) },
			func() { w.request(1, G, 1) },
		}
	}}))
	three := map[int]string{1: "dc1", 2: "dc2", 3: "dc3"}
	l = append(l, scenario(scen{name: "3dc/local+global", zones: three, alloc: map[string]int{"dc1": 1, "dc2": 2, "dc3": 3}, pre: 4, tiers: "quick", build: func(w *world) ([]string, []func()) {
		return []string{"local2", "local3", "global"}, []func(){
			func() { w.request(2, "dc2", 1) },
			func() { w.request(3, "dc3", 1) },
			func() { w.request(1, G, 1); w.request(1, G, 1) },
		}
	}}))
	explore.Main(&explore.Config{
		Property:    "C05",
		QuickBudget: 480,
		Scenarios:   l,
		Rule:      "all schedules within a delay bound (round-robin scheduler, k-th alternative costs k; 6 quick, 10 thorough) of local requesters per datacenter, one or two global requesters, updater rounds, a datacenter joining and an allocator leader move, on 2-3 real Servers; the per-URL RPC goroutines of SyncMaxTS are scheduled threads and the RPC handlers run in-process",
		Assumptions: []string{
			"PD-to-PD RPCs: real generated client stubs over an in-process ClientConn whose interceptor calls the target Server's real handler (no sockets)",
			"local allocator election driven by the verif hooks VerifSetUpLocalAllocator / VerifBecomeAllocatorLeader / VerifObserveAllocatorLeader (the steps of allocatorLeaderLoop / campaignAllocatorLeader without their never-ending loops)",
			"lease / leader atomics are not scheduling points in this check (leadership does not expire here)",
		},
	})
}
