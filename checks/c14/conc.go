package main

// Concurrent part of C14 (engine A): store heartbeats, bury (checkStores), UpStore and
// RemoveStore of the same store race on a real bootstrapped Server; after every
// operation's return the served record of the store is observed. Oracle: the observed
// states respect the one-way machine in the order of the observations (a tombstone
// never becomes up or offline again, nothing leaves Offline for Up after it was declared
// physically destroyed), the operations' own answers are honoured (a successful bury is
// final), and at the end the stored record equals the served one.

import (
	"context"
	"fmt"
	"strings"

	"github.com/gogo/protobuf/proto"
	"github.com/pingcap/kvproto/pkg/metapb"
	"github.com/pingcap/kvproto/pkg/pdpb"
	"github.com/tikv/pd/pkg/verifshim/sched"
	"github.com/tikv/pd/pkg/verifshim/vclock"
	"github.com/tikv/pd/server/config"
	"github.com/tikv/pd/server/core"
	"verif/checks/srvh"
	"verif/engine/explore"
	"verif/engine/fakeetcd"
)

type cworld struct {
	s    *srvh.Srv
	obs  []string // "<op>=<state>" in the order of the operations' returns
	seen []metapb.StoreState
	bad  []string
	keys []string
}

func newCWorld(offline bool) *cworld {
	vclock.Enable(vclock.Epoch)
	st := fakeetcd.New()
	srvh.SeedClusterID(st)
	s, err := srvh.New(st, 1, func(c *config.Config) { c.LeaderLease = 1000000 })
	if err != nil {
		panic(err)
	}
	if err := s.VerifBecomeLeader(); err != nil {
		panic(err)
	}
	req := s.BootstrapReq(1, 2, 3, "s1:1")
	req.Store.Version = "4.0.0"
	if _, err := s.Bootstrap(context.Background(), req); err != nil {
		panic(err)
	}
	if _, err := s.PutStore(context.Background(), &pdpb.PutStoreRequest{Header: s.Header(), Store: &metapb.Store{Id: 2, Address: "a:1", Version: "4.0.0"}}); err != nil {
		panic(err)
	}
	if offline {
		if err := s.GetRaftCluster().RemoveStore(2, false); err != nil {
			panic(err)
		}
	}
	return &cworld{s: s}
}

func (w *cworld) observe(op string, err error) {
	sched.Atomic(func() {
		st := w.s.GetRaftCluster().GetStore(2)
		if st == nil {
			w.obs = append(w.obs, op+"=gone")
			return
		}
		cur := st.GetState()
		e := ""
		if err != nil {
			e = "!"
		}
		w.obs = append(w.obs, fmt.Sprintf("%s%s=%s", op, e, cur))
		for _, prev := range w.seen {
			if prev == metapb.StoreState_Tombstone && cur != metapb.StoreState_Tombstone {
				w.bad = append(w.bad, fmt.Sprintf("after %s the store is %s although it was Tombstone before", op, cur))
				w.keys = append(w.keys, "tombstone-revived")
			}
		}
		w.seen = append(w.seen, cur)
	})
}

func (w *cworld) hb() {
	_, err := w.s.StoreHeartbeat(context.Background(), &pdpb.StoreHeartbeatRequest{Header: w.s.Header(), Stats: &pdpb.StoreStats{StoreId: 2, Capacity: 100 << 30, Available: 50 << 30}})
	w.observe("hb", err)
}
func (w *cworld) bury() {
	err := w.s.GetRaftCluster().VerifBuryStore(2)
	w.observe("bury", err)
	if err == nil {
		sched.Atomic(func() {
			if st := w.s.GetRaftCluster().GetStore(2); st != nil && !st.IsTombstone() {
				w.bad = append(w.bad, "bury succeeded but the store is served as "+st.GetState().String())
				w.keys = append(w.keys, "bury-not-final")
			}
		})
	}
}
func (w *cworld) up()     { w.observe("up", w.s.GetRaftCluster().UpStore(2)) }
func (w *cworld) remove() { w.observe("remove", w.s.GetRaftCluster().RemoveStore(2, false)) }
func (w *cworld) weight() { w.observe("weight", w.s.GetRaftCluster().SetStoreWeight(2, 3, 3.5)) }

func (w *cworld) check(r *sched.Run) (string, *explore.Violation) {
	defer w.s.Close()
	if len(w.bad) > 0 {
		return "", &explore.Violation{Key: w.keys[0], Msg: strings.Join(w.bad, "\n") + "\n  observations: " + strings.Join(w.obs, " ")}
	}
	// stored = served at the end
	rc := w.s.GetRaftCluster()
	loaded := map[uint64]*core.StoreInfo{}
	if err := w.s.GetStorage().LoadStores(func(s *core.StoreInfo) { loaded[s.GetID()] = s }); err != nil {
		return "", &explore.Violation{Key: "load-stores-failed", Msg: err.Error()}
	}
	for _, s := range rc.GetStores() {
		l := loaded[s.GetID()]
		if l == nil {
			return "", &explore.Violation{Key: "served-store-not-stored", Msg: fmt.Sprintf("store %d is served but not stored; observations: %v", s.GetID(), w.obs)}
		}
		a, b := proto.Clone(s.GetMeta()).(*metapb.Store), proto.Clone(l.GetMeta()).(*metapb.Store)
		a.LastHeartbeat, b.LastHeartbeat = 0, 0
		if a.String() != b.String() {
			return "", &explore.Violation{Key: "stored-differs-from-served", Msg: fmt.Sprintf("store %d: storage holds {%s}, served {%s}; observations: %v", s.GetID(), b, a, w.obs)}
		}
		if s.GetLeaderWeight() != l.GetLeaderWeight() || s.GetRegionWeight() != l.GetRegionWeight() {
			return "", &explore.Violation{Key: "stored-weight-differs", Msg: fmt.Sprintf("store %d: storage weights %v/%v, served %v/%v; observations: %v", s.GetID(), l.GetLeaderWeight(), l.GetRegionWeight(), s.GetLeaderWeight(), s.GetRegionWeight(), w.obs)}
		}
	}
	return strings.Join(w.obs, " "), nil
}

func concScenarios() []*explore.Scenario {
	mk := func(name string, offline bool, pre int, tiers string, build func(w *cworld) ([]string, []func())) *explore.Scenario {
		return &explore.Scenario{Name: name, MaxPre: pre, Tiers: tiers,
			Opts: sched.Options{Kinds: uint32(1<<sched.KLock | 1<<sched.KRLock | 1<<sched.KEtcd | 1<<sched.KUser | 1<<sched.KWait | 1<<sched.KStart | 1<<sched.KYield)},
			Setup: func() *explore.Instance {
				w := newCWorld(offline)
				names, th := build(w)
				return &explore.Instance{Names: names, Threads: th, Check: w.check}
			}}
	}
	buryHB := func(w *cworld) ([]string, []func()) {
		return []string{"bury", "hb", "up"}, []func(){w.bury, func() { w.hb(); w.hb() }, w.up}
	}
	removeHB := func(w *cworld) ([]string, []func()) {
		return []string{"remove+bury", "hb", "weight"}, []func(){func() { w.remove(); w.bury() }, w.hb, w.weight}
	}
	return []*explore.Scenario{
		mk("conc/offline:bury|hb,hb|up", true, 2, "quick", buryHB),
		mk("conc/up:remove,bury|hb|weight", false, 2, "quick", removeHB),
		mk("conc/offline:bury|hb,hb|up@3", true, 3, "thorough", buryHB),
		mk("conc/up:remove,bury|hb|weight@3", false, 3, "thorough", removeHB),
	}
}
