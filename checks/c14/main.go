// Check C14: store lifecycle is a one-way state machine and stays durable.
// Engine B over the real RaftCluster store operations and the PutStore /
// StoreHeartbeat handlers of a real Server on the fake etcd, with a storage
// failure injected at any write.
package main

import (
	"context"
	"errors"
	"fmt"
	"sort"
	"strconv"
	"strings"

	"github.com/gogo/protobuf/proto"
	"github.com/pingcap/kvproto/pkg/metapb"
	"github.com/pingcap/kvproto/pkg/pdpb"
	"github.com/tikv/pd/pkg/verifshim/vclock"
	"github.com/tikv/pd/server/config"
	"github.com/tikv/pd/server/core"
	"github.com/tikv/pd/server/kv"
	"verif/checks/srvh"
	"verif/engine/fakeetcd"
	"verif/engine/explore"
	"verif/engine/hist"
)

// failKV fails the n-th write from now (n>0) once.
type failKV struct {
	kv.Base
	failAt int
	writes int
	failed bool
	failedKey string
}

var errInjected = errors.New("injected storage failure")

// only writes of store records and store weights are counted / failed: the statement is about
// the store lifecycle (a failing persist of the store-limit configuration is tolerated by design)
func storeKey(k string) bool {
	return strings.HasPrefix(k, "raft/s/") || strings.HasPrefix(k, "schedule/store_weight")
}

// storeOfKey: the store id a store-record / store-weight key is about (0 if unknown).
func storeOfKey(k string) uint64 {
	p := strings.Split(k, "/")
	for i := len(p) - 1; i >= 0; i-- {
		if n, err := strconv.ParseUint(p[i], 10, 64); err == nil {
			return n
		}
	}
	return 0
}

func (f *failKV) Save(k, v string) error {
	if !storeKey(k) {
		return f.Base.Save(k, v)
	}
	f.writes++
	if f.failAt > 0 && f.writes == f.failAt {
		f.failed, f.failedKey = true, k
		return errInjected
	}
	return f.Base.Save(k, v)
}
func (f *failKV) Remove(k string) error {
	if !storeKey(k) {
		return f.Base.Remove(k)
	}
	f.writes++
	if f.failAt > 0 && f.writes == f.failAt {
		f.failed, f.failedKey = true, k
		return errInjected
	}
	return f.Base.Remove(k)
}

type op struct {
	kind  string
	id    uint64
	addr  string
	flag  bool
	fail  int // fail the fail-th storage write of this op
}

func (o op) String() string {
	s := ""
	switch o.kind {
	case "put":
		s = fmt.Sprintf("PutStore(id=%d addr=%s)", o.id, o.addr)
	case "remove":
		s = fmt.Sprintf("RemoveStore(%d, physicallyDestroyed=%v)", o.id, o.flag)
	case "up":
		s = fmt.Sprintf("UpStore(%d)", o.id)
	case "check":
		s = "checkStores()"
	case "weight":
		s = fmt.Sprintf("SetStoreWeight(%d)", o.id)
	case "labels":
		s = fmt.Sprintf("UpdateStoreLabels(%d, zone=%s)", o.id, o.addr)
	case "cleanup":
		s = "RemoveTombStoneRecords()"
	case "peer":
		s = fmt.Sprintf("region peer on store %d: %v", o.id, o.flag)
	case "hb":
		s = fmt.Sprintf("StoreHeartbeat(%d)", o.id)
	case "restart":
		s = "raft cluster restarted (reloaded from storage, as after a leader change)"
	}
	if o.fail > 0 {
		s += fmt.Sprintf(" [storage write #%d fails]", o.fail)
	}
	return s
}

type view struct {
	state     metapb.StoreState
	destroyed bool
	addr      string
	meta      string
	lw, rw    float64
	peers     int
}

type model struct {
	ops    []op
	st     *fakeetcd.Store
	s      *srvh.Srv
	fk     *failKV
	confV  uint64
	peerOn map[uint64]bool
	everTomb map[uint64]bool
	weightN float64
	// restarted: the cluster was reloaded from storage and no region heartbeat arrived since
	// (derived per-store counters may differ from a long-running cluster: part of the state)
	restarted bool
}

func newModel(ids []uint64, faults bool) *model {
	m := &model{}
	add := func(o op) {
		m.ops = append(m.ops, o)
		if faults && o.kind != "peer" && o.kind != "hb" {
			f := o
			f.fail = 1
			m.ops = append(m.ops, f)
			if o.kind == "weight" {
				// SetStoreWeight: the weights are 2 writes, the store record is the 3rd
				f.fail = 2
				m.ops = append(m.ops, f)
				f.fail = 3
				m.ops = append(m.ops, f)
			}
		}
	}
	for _, id := range ids {
		for _, a := range []string{"a:1", "b:1"} {
			add(op{kind: "put", id: id, addr: a})
		}
		add(op{kind: "remove", id: id, flag: false})
		add(op{kind: "remove", id: id, flag: true})
		add(op{kind: "up", id: id})
		add(op{kind: "peer", id: id, flag: true})
		add(op{kind: "peer", id: id, flag: false})
		add(op{kind: "hb", id: id})
	}
	add(op{kind: "put", id: ids[len(ids)-1], addr: "s1:1"}) // the address of the live bootstrap store
	add(op{kind: "weight", id: ids[0]})
	add(op{kind: "labels", id: ids[0], addr: "z1"})
	add(op{kind: "labels", id: ids[0], addr: "z2"}) // an existing label gets another value
	add(op{kind: "check"})
	add(op{kind: "cleanup"})
	m.ops = append(m.ops, op{kind: "restart"})
	return m
}

func (m *model) NumOps() int         { return len(m.ops) }
func (m *model) OpName(i int) string { return m.ops[i].String() }
func (m *model) Enabled(i int) bool  { return true }

func (m *model) Reset() {
	if m.s != nil {
		m.s.Close()
	}
	vclock.Enable(vclock.Epoch)
	m.st = fakeetcd.New()
	srvh.SeedClusterID(m.st)
	s, err := srvh.New(m.st, 1, func(c *config.Config) { c.LeaderLease = 1000000 })
	if err != nil {
		panic(err)
	}
	st := s.GetStorage()
	m.fk = &failKV{Base: st.Base}
	st.Base = m.fk
	if err := s.VerifBecomeLeader(); err != nil {
		panic(err)
	}
	req := s.BootstrapReq(1, 2, 3, "s1:1")
	req.Store.Version = "4.0.0"
	if _, err := s.Bootstrap(context.Background(), req); err != nil {
		panic(err)
	}
	m.s = s
	m.confV = 1
	m.peerOn = map[uint64]bool{}
	m.everTomb = map[uint64]bool{}
	m.weightN = 1
	m.restarted = false
}

func (m *model) views() map[uint64]view {
	rc := m.s.GetRaftCluster()
	out := map[uint64]view{}
	for _, s := range rc.GetStores() {
		meta := proto.Clone(s.GetMeta()).(*metapb.Store)
		meta.LastHeartbeat = 0
		out[s.GetID()] = view{state: s.GetState(), destroyed: s.IsPhysicallyDestroyed(), addr: s.GetAddress(), meta: meta.String(), lw: s.GetLeaderWeight(), rw: s.GetRegionWeight(),
			peers: rc.GetStoreRegionCount(s.GetID())}
	}
	return out
}

func (m *model) Key() string {
	v := m.views()
	var ids []uint64
	for id := range v {
		ids = append(ids, id)
	}
	sort.Slice(ids, func(i, j int) bool { return ids[i] < ids[j] })
	var b strings.Builder
	for _, id := range ids {
		x := v[id]
		fmt.Fprintf(&b, "%d:%v/%v/%s/%d/%.0f/%v;", id, x.state, x.destroyed, x.addr, x.peers, x.lw, strings.Contains(x.meta, "zone"))
	}
	fmt.Fprintf(&b, "|%v|%v", m.peerOn, m.restarted)
	return b.String()
}

func (m *model) Apply(i int) *hist.Violation {
	o := m.ops[i]
	rc := m.s.GetRaftCluster()
	before := m.views()
	m.fk.writes, m.fk.failed = 0, false
	m.fk.failAt = o.fail
	var err error
	refused := false // answered with an error header instead of a Go error
	switch o.kind {
	case "put":
		resp, e := m.s.PutStore(context.Background(), &pdpb.PutStoreRequest{Header: m.s.Header(), Store: &metapb.Store{Id: o.id, Address: o.addr, Version: "4.0.0"}})
		err = e
		if e == nil && resp.GetHeader().GetError() != nil {
			refused = true
		}
	case "remove":
		err = rc.RemoveStore(o.id, o.flag)
	case "up":
		err = rc.UpStore(o.id)
	case "check":
		rc.VerifCheckStores()
	case "weight":
		m.weightN++
		err = rc.SetStoreWeight(o.id, m.weightN, m.weightN+0.5)
	case "labels":
		err = rc.UpdateStoreLabels(o.id, []*metapb.StoreLabel{{Key: "zone", Value: o.addr}}, false)
	case "cleanup":
		err = rc.RemoveTombStoneRecords()
	case "peer":
		// the bootstrap region gains / loses a peer on the store (conf change reported by heartbeat)
		if rc.GetStore(o.id) == nil || m.peerOn[o.id] == o.flag {
			m.fk.failAt = 0
			return nil
		}
		m.peerOn[o.id] = o.flag
		m.restarted = false
		m.confV++
		meta := &metapb.Region{Id: 2, RegionEpoch: &metapb.RegionEpoch{Version: 1, ConfVer: m.confV}, Peers: []*metapb.Peer{{Id: 3, StoreId: 1}}}
		var on []uint64
		for id, v := range m.peerOn {
			if v {
				on = append(on, id)
			}
		}
		sort.Slice(on, func(i, j int) bool { return on[i] < on[j] })
		for _, id := range on {
			p := &metapb.Peer{Id: 100 + id, StoreId: id}
			if id%2 == 1 {
				p.Role = metapb.PeerRole_Learner // store 3 only ever gets learner peers
			}
			meta.Peers = append(meta.Peers, p)
		}
		err = rc.VerifProcessRegionHeartbeat(core.NewRegionInfo(meta, meta.Peers[0]))
		if err != nil {
			panic("harness: region heartbeat refused: " + err.Error())
		}
		m.fk.failAt = 0
		return nil
	case "restart":
		m.restarted = true
		rc.Stop()
		if e := rc.Start(m.s.Server); e != nil {
			panic("harness: cluster restart failed: " + e.Error())
		}
	case "hb":
		resp, e := m.s.StoreHeartbeat(context.Background(), &pdpb.StoreHeartbeatRequest{Header: m.s.Header(), Stats: &pdpb.StoreStats{StoreId: o.id, Capacity: 100 << 30, Available: 50 << 30}})
		err = e
		if e == nil && resp.GetHeader().GetError() != nil {
			refused = true
		}
	}
	m.fk.failAt = 0
	after := m.views()
	what := o.String()
	bad := func(key, f string, a ...interface{}) *hist.Violation {
		return &hist.Violation{Key: key, Msg: "after " + what + ": " + fmt.Sprintf(f, a...) + fmt.Sprintf("\n  before: %v\n  after:  %v", before, after)}
	}
	// failed storage write: error reported, served state unchanged
	if m.fk.failed {
		if err == nil && o.kind != "check" {
			return bad("failed-write-no-error", "a storage write failed but the operation reported success")
		}
		// checkStores and the tombstone clean-up treat one store after the other (in map
		// order), each with its own write: there the failed write is about one store and
		// the stores handled before it were changed by their own, successful writes (the
		// stored = served oracle below still applies to them)
		only := uint64(0)
		if o.kind == "check" || o.kind == "cleanup" {
			only = storeOfKey(m.fk.failedKey)
		}
		for id, b := range before {
			if only != 0 && id != only {
				continue
			}
			if a, ok := after[id]; !ok || a.meta != b.meta || a.state != b.state || a.lw != b.lw || a.rw != b.rw {
				return bad("failed-write-changed-served-state", "a storage write (%s) failed but the served record of store %d changed", m.fk.failedKey, id)
			}
		}
		if only == 0 && len(after) != len(before) {
			return bad("failed-write-changed-served-state", "a storage write failed but the set of served stores changed")
		}
	}
	// transition legality
	for id, a := range after {
		b, existed := before[id]
		if a.state == metapb.StoreState_Tombstone {
			m.everTomb[id] = true
		}
		if !existed {
			if a.state != metapb.StoreState_Up {
				return bad("new-store-not-up", "store %d appears in state %v", id, a.state)
			}
			continue
		}
		if b.state == a.state && b.destroyed == a.destroyed {
			continue
		}
		switch {
		case b.state == metapb.StoreState_Tombstone:
			return bad("tombstone-revived", "store %d left the tombstone state (now %v)", id, a.state)
		case b.state == metapb.StoreState_Up && a.state == metapb.StoreState_Offline:
		case b.state == metapb.StoreState_Offline && a.state == metapb.StoreState_Offline && !b.destroyed && a.destroyed:
		case b.state == metapb.StoreState_Offline && a.state == metapb.StoreState_Up:
			if b.destroyed {
				return bad("destroyed-store-up", "physically destroyed store %d went back to Up", id)
			}
		case b.state == metapb.StoreState_Offline && a.state == metapb.StoreState_Tombstone:
			if b.peers > 0 || (m.peerOn[id] && !m.restarted && o.kind != "peer") {
				return bad("buried-with-peers", "store %d was buried while it still held a region peer (reported count %d, placed by the history: %v)", id, b.peers, m.peerOn[id])
			}
		default:
			return bad("illegal-transition", "store %d moved %v(destroyed=%v) -> %v(destroyed=%v)", id, b.state, b.destroyed, a.state, a.destroyed)
		}
		if b.destroyed && !a.destroyed && a.state != metapb.StoreState_Tombstone {
			return bad("destroyed-flag-cleared", "store %d is no longer marked physically destroyed", id)
		}
	}
	for id, b := range before {
		if _, ok := after[id]; !ok && b.state != metapb.StoreState_Tombstone {
			return bad("store-record-vanished", "store %d (state %v) is no longer served", id, b.state)
		}
	}
	// tombstone: heartbeats and re-registrations refused
	if b, ok := before[o.id]; ok && b.state == metapb.StoreState_Tombstone && (o.kind == "put" || o.kind == "hb") {
		if err == nil && !refused {
			return bad("tombstone-request-accepted", "%s on a tombstone store was answered without error", o.kind)
		}
	}
	// address uniqueness among stores that are neither tombstone nor physically destroyed
	addrs := map[string]uint64{}
	for id, a := range after {
		if a.state == metapb.StoreState_Tombstone || a.destroyed {
			continue
		}
		if other, dup := addrs[a.addr]; dup {
			return bad("address-shared", "live stores %d and %d share the address %s", other, id, a.addr)
		}
		addrs[a.addr] = id
	}
	// durability: stored record == served record, and a fresh load agrees
	if !m.fk.failed {
		loaded := map[uint64]*core.StoreInfo{}
		m.s.GetStorage().LoadStores(func(s *core.StoreInfo) { loaded[s.GetID()] = s })
		for id, a := range after {
			l, ok := loaded[id]
			if !ok {
				return bad("served-store-not-stored", "store %d is served but a fresh load does not return it", id)
			}
			lm := proto.Clone(l.GetMeta()).(*metapb.Store)
			lm.LastHeartbeat = 0
			if lm.String() != a.meta {
				return bad("stored-differs-from-served", "store %d: storage holds {%s}, served {%s}", id, lm.String(), a.meta)
			}
			if l.GetLeaderWeight() != a.lw || l.GetRegionWeight() != a.rw {
				return bad("stored-weight-differs", "store %d: storage weights %v/%v, served %v/%v", id, l.GetLeaderWeight(), l.GetRegionWeight(), a.lw, a.rw)
			}
		}
		for id := range loaded {
			if _, ok := after[id]; !ok {
				return bad("stored-store-not-served", "store %d is in storage but not served", id)
			}
		}
	}
	return nil
}

func main() {
	defer srvh.Cleanup()
	explore.Main(&explore.Config{
		Property:  "C14",
		Scenarios: concScenarios(),
		HistScopes: []*hist.Scope{
			{Name: "2stores", Tiers: "quick", Depth: 5, NewModel: func() hist.Model { return newModel([]uint64{2, 3}, false) }},
			{Name: "1store+faults", Tiers: "quick", Depth: 5, NewModel: func() hist.Model { return newModel([]uint64{2}, true) }},
			{Name: "2stores@6", Tiers: "thorough", Depth: 6, NewModel: func() hist.Model { return newModel([]uint64{2, 3}, false) }},
			{Name: "2stores+faults@5", Tiers: "thorough", Depth: 5, NewModel: func() hist.Model { return newModel([]uint64{2, 3}, true) }},
		},
		Rule: "breadth-first over all sequences of store administration operations (put with new/same id and same address as a live / tombstone / destroyed store, remove with and without physically-destroyed, up, checkStores, weight, labels, tombstone cleanup, region peer placed on / dropped from a store, store heartbeat), each also with the k-th storage write failing; states deduplicated by the served store records and peer placement",
		Assumptions: []string{
			"real Server composed by the verif hooks on the fake etcd; storage failures injected by wrapping Storage.Base",
			"oracle = the transition rules of the statement evaluated on (before, after) of every operation, stored == served after every successful operation (fresh LoadStores), served unchanged after a failed write",
		},
	})
}
