// Check C07: region lookups and per-store statistics match the cached region set.
// Engine B over the real core.RegionsInfo against a slice + linear scan.
package main

import (
	"bytes"
	"fmt"
	"sort"
	"strings"

	"github.com/pingcap/kvproto/pkg/metapb"
	"github.com/tikv/pd/server/core"
	"verif/engine/enum"
	"verif/engine/hist"
)

type peerCfg struct {
	name    string
	voters  []uint64 // store ids
	learner []uint64
	leader  uint64 // store id
	pending []uint64
}

type regSpec struct {
	id         uint64
	start, end string
	pc         int
	size       int64
}

type op struct {
	remove bool
	spec   regSpec
	// macro operation of the resize scope: make the chain hold exactly the regions lo..hi-1
	resize bool
	lo, hi int
}

type model struct {
	ops         []op
	pcs         []peerCfg
	ri          *core.RegionsInfo
	ref         map[uint64]regSpec
	base        []regSpec // pre-loaded chain (large scope)
	probes      []string
	stores      []uint64
	resizeScope bool
	path        []int
}

func (m *model) mk(s regSpec) *core.RegionInfo {
	pc := m.pcs[s.pc]
	meta := &metapb.Region{Id: s.id, StartKey: []byte(s.start), EndKey: []byte(s.end), RegionEpoch: &metapb.RegionEpoch{Version: 1, ConfVer: 1}}
	var leader *metapb.Peer
	var pend []*metapb.Peer
	add := func(st uint64, role metapb.PeerRole) {
		p := &metapb.Peer{Id: s.id*100 + st, StoreId: st, Role: role}
		meta.Peers = append(meta.Peers, p)
		if st == pc.leader && role == metapb.PeerRole_Voter {
			leader = p
		}
		for _, x := range pc.pending {
			if x == st {
				pend = append(pend, p)
			}
		}
	}
	for _, st := range pc.voters {
		add(st, metapb.PeerRole_Voter)
	}
	for _, st := range pc.learner {
		add(st, metapb.PeerRole_Learner)
	}
	return core.NewRegionInfo(meta, leader, core.SetApproximateSize(s.size), core.WithPendingPeers(pend))
}

func overlap(a, b regSpec) bool {
	// [a.start, a.end) x [b.start, b.end), "" end = +inf
	if a.end != "" && a.end <= b.start {
		return false
	}
	if b.end != "" && b.end <= a.start {
		return false
	}
	return true
}

func (m *model) Reset() {
	m.path = nil
	m.ri = core.NewRegionsInfo()
	m.ref = map[uint64]regSpec{}
	for _, s := range m.base {
		m.ri.SetRegion(m.mk(s))
		m.ref[s.id] = s
	}
}

func (m *model) NumOps() int { return len(m.ops) }
func (m *model) OpName(i int) string {
	o := m.ops[i]
	if o.resize {
		return fmt.Sprintf("resize(chain=%d..%d)", o.lo, o.hi)
	}
	if o.remove {
		return fmt.Sprintf("remove(%d)", o.spec.id)
	}
	return fmt.Sprintf("set(id=%d [%q,%q) %s size=%d)", o.spec.id, o.spec.start, o.spec.end, m.pcs[o.spec.pc].name, o.spec.size)
}
func (m *model) Enabled(i int) bool {
	if m.ops[i].remove {
		_, ok := m.ref[m.ops[i].spec.id]
		return ok
	}
	return true
}

func (m *model) sorted() []regSpec {
	l := make([]regSpec, 0, len(m.ref))
	for _, s := range m.ref {
		l = append(l, s)
	}
	sort.Slice(l, func(i, j int) bool { return l[i].start < l[j].start })
	return l
}

func (m *model) Key() string {
	if m.resizeScope {
		// the B-tree shape depends on the path, not only on the content: no merging
		return fmt.Sprint(m.path)
	}
	var b strings.Builder
	for _, s := range m.sorted() {
		if len(m.base) > 0 && s.id < 1000 {
			// large scope: only the regions that differ from the base chain matter
			continue
		}
		fmt.Fprintf(&b, "%d[%s,%s)%d/%d;", s.id, s.start, s.end, s.pc, s.size)
	}
	if len(m.base) > 0 {
		fmt.Fprintf(&b, "|n=%d", len(m.ref))
		for _, s := range m.base {
			if _, ok := m.ref[s.id]; !ok {
				fmt.Fprintf(&b, "-%d", s.id)
			}
		}
	}
	return b.String()
}

func ids(l []*core.RegionInfo) string {
	var s []string
	for _, r := range l {
		if r == nil {
			s = append(s, "nil")
		} else {
			s = append(s, fmt.Sprint(r.GetID()))
		}
	}
	return strings.Join(s, ",")
}

func idOf(r *core.RegionInfo) uint64 {
	if r == nil {
		return 0
	}
	return r.GetID()
}

func chainSpec(i int) regSpec {
	key := func(i int) string { return fmt.Sprintf("%04d", i) }
	return regSpec{id: uint64(i + 1), start: key(i), end: key(i + 1), pc: i % 2, size: int64(1 + i%5)}
}

func (m *model) Apply(i int) *hist.Violation {
	o := m.ops[i]
	m.path = append(m.path, i)
	if o.resize {
		// grow first (ascending), then shrink: every region is put / removed one by one
		for k := o.lo; k < o.hi; k++ {
			s := chainSpec(k)
			if _, ok := m.ref[s.id]; !ok {
				m.ri.SetRegion(m.mk(s))
				m.ref[s.id] = s
			}
		}
		for _, s := range m.sorted() {
			if k := int(s.id) - 1; k < o.lo || k >= o.hi {
				m.ri.RemoveRegion(m.ri.GetRegion(s.id))
				delete(m.ref, s.id)
			}
		}
		return m.compare(m.OpName(i))
	}
	if o.remove {
		if r := m.ri.GetRegion(o.spec.id); r != nil {
			m.ri.RemoveRegion(r)
		}
		delete(m.ref, o.spec.id)
	} else {
		got := m.ri.SetRegion(m.mk(o.spec))
		var want []uint64
		for _, s := range m.sorted() {
			if s.id != o.spec.id && overlap(s, o.spec) {
				want = append(want, s.id)
				delete(m.ref, s.id)
			}
		}
		m.ref[o.spec.id] = o.spec
		var gotIDs []uint64
		for _, g := range got {
			gotIDs = append(gotIDs, g.GetID())
		}
		if fmt.Sprint(gotIDs) != fmt.Sprint(want) {
			return &hist.Violation{Key: "overlaps-returned", Msg: fmt.Sprintf("%s returned overlaps %v, linear scan says %v", m.OpName(i), gotIDs, want)}
		}
	}
	return m.compare(m.OpName(i))
}

func (m *model) compare(after string) *hist.Violation {
	l := m.sorted()
	bad := func(key, f string, a ...interface{}) *hist.Violation {
		return &hist.Violation{Key: key, Msg: "after " + after + ": " + fmt.Sprintf(f, a...) + fmt.Sprintf("\n  regions: %v", l)}
	}
	if m.ri.Len() != len(l) || m.ri.TreeLen() != len(l) {
		return bad("len", "Len=%d TreeLen=%d, reference has %d regions", m.ri.Len(), m.ri.TreeLen(), len(l))
	}
	find := func(key string) int {
		for i, s := range l {
			if s.start <= key && (s.end == "" || key < s.end) {
				return i
			}
		}
		return -1
	}
	for _, k := range m.probes {
		w := uint64(0)
		ix := find(k)
		if ix >= 0 {
			w = l[ix].id
		}
		if g := idOf(m.ri.SearchRegion([]byte(k))); g != w {
			return bad("search", "SearchRegion(%q)=%d want %d", k, g, w)
		}
		w = 0
		if ix > 0 && l[ix-1].end == l[ix].start {
			w = l[ix-1].id
		}
		if g := idOf(m.ri.SearchPrevRegion([]byte(k))); g != w {
			return bad("search-prev", "SearchPrevRegion(%q)=%d want %d", k, g, w)
		}
		for _, e := range m.probes {
			if e != "" && e <= k {
				continue
			}
			for limit := 0; limit <= 3; limit++ {
				var want []string
				for _, s := range l {
					if !(s.end == "" || s.end > k) { // region entirely before the start key
						continue
					}
					if e != "" && s.start >= e {
						break
					}
					if limit > 0 && len(want) >= limit {
						break
					}
					want = append(want, fmt.Sprint(s.id))
				}
				if g := ids(m.ri.ScanRange([]byte(k), []byte(e), limit)); g != strings.Join(want, ",") {
					return bad("scan-range", "ScanRange(%q,%q,%d)=[%s] want [%s]", k, e, limit, g, strings.Join(want, ","))
				}
			}
			// overlap query for the probe range [k,e)
			q := regSpec{id: 999999, start: k, end: e}
			var want []string
			for _, s := range l {
				if overlap(s, q) {
					want = append(want, fmt.Sprint(s.id))
				}
			}
			qi := core.NewRegionInfo(&metapb.Region{Id: 999999, StartKey: []byte(k), EndKey: []byte(e)}, nil)
			if g := ids(m.ri.GetOverlaps(qi)); g != strings.Join(want, ",") {
				return bad("get-overlaps", "GetOverlaps[%q,%q)=[%s] want [%s]", k, e, g, strings.Join(want, ","))
			}
		}
	}
	for i, s := range l {
		var wp, wn uint64
		if i > 0 && l[i-1].end == s.start {
			wp = l[i-1].id
		}
		if i+1 < len(l) && s.end == l[i+1].start && s.end != "" {
			wn = l[i+1].id
		}
		p, n := m.ri.GetAdjacentRegions(m.ri.GetRegion(s.id))
		if idOf(p) != wp || idOf(n) != wn {
			return bad("adjacent", "GetAdjacentRegions(%d)=(%d,%d) want (%d,%d)", s.id, idOf(p), idOf(n), wp, wn)
		}
	}
	var total int64
	for _, s := range l {
		total += s.size
	}
	wantAvg := int64(0)
	if len(l) > 0 {
		wantAvg = total / int64(len(l))
	}
	if g := m.ri.GetAverageRegionSize(); g != wantAvg {
		return bad("average-size", "GetAverageRegionSize=%d want %d", g, wantAvg)
	}
	// per store statistics
	for _, st := range m.stores {
		var lc, fc, nc, pc int
		var ls, fs, ns int64
		var leaders, followers, learners, pendings []regSpec
		for _, s := range l {
			c := m.pcs[s.pc]
			for _, v := range c.voters {
				if v == st {
					if c.leader == st {
						lc++
						ls += s.size
						leaders = append(leaders, s)
					} else {
						fc++
						fs += s.size
						followers = append(followers, s)
					}
				}
			}
			for _, v := range c.learner {
				if v == st {
					nc++
					ns += s.size
					learners = append(learners, s)
				}
			}
			for _, v := range c.pending {
				if v == st {
					pc++
					pendings = append(pendings, s)
				}
			}
		}
		if g := m.ri.GetStoreLeaderCount(st); g != lc {
			return bad("leader-count", "store %d leader count %d want %d", st, g, lc)
		}
		if g := m.ri.GetStoreFollowerCount(st); g != fc {
			return bad("follower-count", "store %d follower count %d want %d", st, g, fc)
		}
		if g := m.ri.GetStoreLearnerCount(st); g != nc {
			return bad("learner-count", "store %d learner count %d want %d", st, g, nc)
		}
		if g := m.ri.GetStorePendingPeerCount(st); g != pc {
			return bad("pending-count", "store %d pending peer count %d want %d", st, g, pc)
		}
		if g := m.ri.GetStoreRegionCount(st); g != lc+fc+nc {
			return bad("region-count", "store %d region count %d want %d", st, g, lc+fc+nc)
		}
		if g := m.ri.GetStoreLeaderRegionSize(st); g != ls {
			return bad("leader-size", "store %d leader size %d want %d", st, g, ls)
		}
		if g := m.ri.GetStoreFollowerRegionSize(st); g != fs {
			return bad("follower-size", "store %d follower size %d want %d", st, g, fs)
		}
		if g := m.ri.GetStoreLearnerRegionSize(st); g != ns {
			return bad("learner-size", "store %d learner size %d want %d", st, g, ns)
		}
		if g := m.ri.GetStoreRegionSize(st); g != ls+fs+ns {
			return bad("region-size", "store %d region size %d want %d", st, g, ls+fs+ns)
		}
		// random picks: every outcome is a candidate, and every candidate is reachable
		type pick struct {
			name string
			f    func(uint64, []core.KeyRange) *core.RegionInfo
			cand []regSpec
		}
		for _, pk := range []pick{
			{"RandLeaderRegion", m.ri.RandLeaderRegion, leaders},
			{"RandFollowerRegion", m.ri.RandFollowerRegion, followers},
			{"RandLearnerRegion", m.ri.RandLearnerRegion, learners},
			{"RandPendingRegion", m.ri.RandPendingRegion, pendings},
		} {
			for _, rg := range m.randRanges() {
				want := map[uint64]bool{}
				for _, s := range pk.cand {
					if s.start >= rg[0] && (rg[1] == "" || (s.end != "" && s.end <= rg[1])) {
						want[s.id] = true
					}
				}
				got := map[uint64]bool{}
				enum.All(4000, func() {
					r := pk.f(st, []core.KeyRange{core.NewKeyRange(rg[0], rg[1])})
					if r != nil {
						got[r.GetID()] = true
					}
				})
				for g := range got {
					if !want[g] {
						return bad("rand-outside", "%s(store %d, [%q,%q)) can return %d which is not a candidate %v", pk.name, st, rg[0], rg[1], g, want)
					}
				}
				for w := range want {
					if !got[w] {
						return bad("rand-unreachable", "%s(store %d, [%q,%q)) can never return candidate %d (outcomes %v)", pk.name, st, rg[0], rg[1], w, got)
					}
				}
			}
		}
	}
	return nil
}

func (m *model) randRanges() [][2]string {
	if m.resizeScope {
		return [][2]string{{"", ""}, {"0100", "0150"}, {"0300", ""}}
	}
	if len(m.base) > 0 {
		return [][2]string{{"", ""}, {"0010", "0020"}, {"0063", "0066"}, {"0120", ""}}
	}
	return [][2]string{{"", ""}, {"a", "c"}, {"", "b"}, {"b", ""}}
}

var pcsSmall = []peerCfg{
	{name: "v12/L1", voters: []uint64{1, 2}, leader: 1},
	{name: "v12/L2", voters: []uint64{1, 2}, leader: 2},
	{name: "v12/L1/p2", voters: []uint64{1, 2}, leader: 1, pending: []uint64{2}},
	{name: "v1+l3/L1", voters: []uint64{1}, learner: []uint64{3}, leader: 1},
	{name: "v123/L3/p2", voters: []uint64{1, 2, 3}, leader: 3, pending: []uint64{2}},
	{name: "v12+l3/L1/p3", voters: []uint64{1, 2}, learner: []uint64{3}, leader: 1, pending: []uint64{3}},
	{name: "v123/L3/p1", voters: []uint64{1, 2, 3}, leader: 3, pending: []uint64{1}}, // same peers and leader as v123/L3/p2, the pending peer elsewhere
}

func newSmall(nIDs int, npc int, sizes []int64, points []string, pick ...int) *model {
	pcs := pcsSmall[:npc]
	if len(pick) > 0 {
		pcs = nil
		for _, i := range pick {
			pcs = append(pcs, pcsSmall[i])
		}
		npc = len(pcs)
	}
	m := &model{pcs: pcs, stores: []uint64{1, 2, 3}}
	m.probes = append([]string{""}, points...)
	m.probes = append(m.probes, "a5", "zz")
	sort.Strings(m.probes)
	var ranges [][2]string
	all := append([]string{""}, points...)
	for i, s := range all {
		for _, e := range append(append([]string{}, all[i+1:]...), "") {
			ranges = append(ranges, [2]string{s, e})
		}
	}
	for id := 1; id <= nIDs; id++ {
		for _, r := range ranges {
			for pc := 0; pc < npc; pc++ {
				for _, sz := range sizes {
					m.ops = append(m.ops, op{spec: regSpec{id: uint64(id), start: r[0], end: r[1], pc: pc, size: sz}})
				}
			}
		}
		m.ops = append(m.ops, op{remove: true, spec: regSpec{id: uint64(id)}})
	}
	return m
}

// newLarge: a chain of 140 regions (forces B-tree node splits at degree 64) and an
// alphabet of updates at the node boundaries and in the middle.
func newLarge() *model {
	m := &model{pcs: pcsSmall, stores: []uint64{1, 2, 3}}
	key := func(i int) string {
		if i <= 0 {
			return ""
		}
		return fmt.Sprintf("%04d", i)
	}
	const n = 140
	for i := 0; i < n; i++ {
		e := key(i + 1)
		if i == n-1 {
			e = ""
		}
		m.base = append(m.base, regSpec{id: uint64(i + 1), start: key(i), end: e, pc: i % len(pcsSmall), size: int64(1 + i%7)})
	}
	m.probes = []string{"", "0001", "0063", "0064", "00645", "0065", "0128", "0139", "0140", "9"}
	for _, at := range []int{0, 1, 62, 63, 64, 65, 127, 128, 138, 139} {
		// new region swallowing 1..3 neighbours, or splitting one
		for _, span := range []int{1, 2, 3} {
			e := key(at + span)
			if at+span >= n {
				e = ""
			}
			m.ops = append(m.ops, op{spec: regSpec{id: uint64(1000 + at), start: key(at), end: e, pc: (at + span) % len(pcsSmall), size: 5}})
		}
		m.ops = append(m.ops, op{spec: regSpec{id: uint64(at + 1), start: key(at), end: key(at) + "5", pc: 1, size: 9}}) // shrink in place
		m.ops = append(m.ops, op{remove: true, spec: regSpec{id: uint64(at + 1)}})
	}
	return m
}

// newResize: grow / shrink / regrow the key space so that B-tree nodes are split, merged,
// freed and reused (per-store trees included); rank queries behind the random picks are
// compared after every macro step.
func newResize() *model {
	m := &model{pcs: pcsSmall[:2], stores: []uint64{1, 2}, resizeScope: true}
	m.probes = []string{"", "0000", "0063", "0064", "0127", "0128", "0191", "0200", "0399", "9"}
	for _, r := range [][2]int{{0, 0}, {0, 100}, {0, 200}, {0, 400}, {100, 200}, {300, 400}, {0, 130}, {190, 400}} {
		m.ops = append(m.ops, op{resize: true, lo: r[0], hi: r[1]})
	}
	return m
}

var _ = bytes.Equal

func main() {
	hist.Main(&hist.Config{
		Property: "C07",
		Scopes: []*hist.Scope{
			{Name: "2ids-2points", Tiers: "quick", Depth: 2, NewModel: func() hist.Model { return newSmall(2, 6, []int64{1, 10}, []string{"a", "b"}) }},
			{Name: "2ids-2points/3", Tiers: "quick", Depth: 3, NewModel: func() hist.Model { return newSmall(2, 0, []int64{1, 10}, []string{"a", "b"}, 0, 1, 5) }},
			{Name: "2ids-2points/pending-moves", Tiers: "quick", Depth: 3, NewModel: func() hist.Model { return newSmall(2, 0, []int64{1, 10}, []string{"a", "b"}, 4, 6, 2) }},
			{Name: "2ids-2points/6cfg@3", Tiers: "thorough", Depth: 3, NewModel: func() hist.Model { return newSmall(2, 6, []int64{1, 10}, []string{"a", "b"}) }},
			{Name: "3ids-3points", Tiers: "quick", Depth: 2, NewModel: func() hist.Model { return newSmall(3, 6, []int64{1, 10}, []string{"a", "b", "c"}) }},
			{Name: "3ids-3points/3", Tiers: "quick", Depth: 3, NewModel: func() hist.Model { return newSmall(3, 2, []int64{1}, []string{"a", "b", "c"}) }},
			{Name: "chain140", Tiers: "quick", Depth: 2, NewModel: func() hist.Model { return newLarge() }},
			{Name: "resize", Tiers: "quick", Depth: 3, NewModel: func() hist.Model { return newResize() }},
			{Name: "resize@4", Tiers: "thorough", Depth: 4, NewModel: func() hist.Model { return newResize() }},
			{Name: "4ids-4points", Tiers: "thorough", Depth: 4, NewModel: func() hist.Model { return newSmall(4, 6, []int64{0, 1, 10}, []string{"a", "b", "c", "d"}) }},
			{Name: "chain140@3", Tiers: "thorough", Depth: 3, NewModel: func() hist.Model { return newLarge() }},
		},
		Rule:        "breadth-first over all put/remove sequences of the region alphabet (ids x ranges over the key points incl. unbounded ends and ranges swallowing neighbours x peer/leader/pending configurations x sizes); states deduplicated by the sorted region list; after every operation every query is compared with a linear scan and every outcome of the random picks is enumerated",
		Assumptions: []string{"reference = slice + linear scan written from the statement", "math/rand draws in server/core are enumerated exhaustively through the vrand shim"},
	})
}
