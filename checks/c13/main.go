// Check C13: placement rule updates are all-or-nothing and the key-range index is exact.
// Engine B over the real placement.RuleManager on core.Storage over a fault-injecting
// kv seam, against plain maps with per-key recomputation (ref.go).
package main

import (
	"fmt"

	"verif/engine/hist"
)

const (
	k10 = "\x10"
	k20 = "\x20"
	k30 = "\x30"
)

// every range over the key points "", 10, 20, 30 (nested, adjacent, unbounded)
var allRanges = [][2]string{{"", k10}, {"", k20}, {"", k30}, {"", ""}, {k10, k20}, {k10, k30}, {k10, ""}, {k20, k30}, {k20, ""}, {k30, ""}}

type alphabet struct {
	keys      [][2]string // (group, id) of the rules that are set / deleted
	ranges    [][2]string
	indexes   []int
	overrides []bool
	roles     []string
	counts    []int
	groupOps  []string // groups with SetRuleGroup x {0,1} x override and DeleteRuleGroup
	extra     []op
}

func (a alphabet) ops() []op {
	var l []op
	for _, k := range a.keys {
		for _, rg := range a.ranges {
			for _, ix := range a.indexes {
				for _, ov := range a.overrides {
					for _, role := range a.roles {
						for _, n := range a.counts {
							l = append(l, op{kind: kSetRule, rule: rspec{g: k[0], id: k[1], start: rg[0], end: rg[1], index: ix, override: ov, role: role, count: n}})
						}
					}
				}
			}
		}
		l = append(l, op{kind: kDelRule, rule: rspec{g: k[0], id: k[1]}})
	}
	l = append(l, op{kind: kDelRule, rule: rspec{g: "pd", id: "default"}})
	for _, g := range a.groupOps {
		for _, ix := range []int{0, 1} {
			for _, ov := range []bool{false, true} {
				if g == "pd" && ix == 0 && !ov {
					continue
				}
				l = append(l, op{kind: kSetGroup, gid: g, g: gspec{ix, ov}})
			}
		}
		// a negative index without override is an ordinary (non-default) group that sorts first
		l = append(l, op{kind: kSetGroup, gid: g, g: gspec{-1, false}})
		l = append(l, op{kind: kDelGroup, gid: g})
	}
	return append(l, a.extra...)
}

func newModel(ops []op) *model { return &model{ops: ops, faultReps: 2} }

// ---------------------------------------------------------------------------
// scope "ranges": the sweep over nested / adjacent / unbounded ranges

func rangesScope(keys [][2]string, roles []string) func() hist.Model {
	return func() hist.Model {
		return newModel(alphabet{keys: keys, ranges: allRanges, indexes: []int{0}, overrides: []bool{false}, roles: roles, counts: []int{1}}.ops())
	}
}

// scope "override": indexes, rule and group override, roles, counts
func overrideScope(keys [][2]string, ranges [][2]string, counts []int, track bool) func() hist.Model {
	return func() hist.Model {
		m := newModel(alphabet{keys: keys, ranges: ranges, indexes: []int{0, 1}, overrides: []bool{false, true}, roles: []string{"voter", "leader", "learner"},
			counts: counts, groupOps: []string{"g1", "g2", "pd"}}.ops())
		m.trackReject = track
		return m
	}
}

// ---------------------------------------------------------------------------
// scope "multi": SetRules, Batch, bundles over a pool of rules

var (
	rA   = rspec{g: "g1", id: "a", start: "", end: k20, role: "voter", count: 1}
	rA2  = rspec{g: "g1", id: "a", start: k20, end: "", role: "learner", count: 1}
	rAB  = rspec{g: "g1", id: "ab", start: k20, end: "", role: "voter", count: 2}
	rB   = rspec{g: "g1", id: "b", start: "", end: "", index: 1, override: true, role: "leader", count: 1}
	rC   = rspec{g: "g2", id: "a", start: k10, end: k30, role: "learner", count: 1}
	rD   = rspec{g: "g2", id: "a", start: "", end: "", index: 1, override: true, role: "voter", count: 1}
	rBad = rspec{g: "g1", id: "b", start: k10, end: "", role: "leader", count: 2}
	pool = []rspec{rA, rA2, rAB, rB, rC, rD}
)

func anon(r rspec) rspec { r.g = ""; return r }

func multiOps(pool []rspec, full bool) []op {
	var l []op
	for _, r := range pool {
		l = append(l, op{kind: kSetRule, rule: r})
	}
	for _, k := range [][2]string{{"g1", "a"}, {"g1", "ab"}, {"g1", "b"}, {"g2", "a"}, {"pd", "default"}} {
		l = append(l, op{kind: kDelRule, rule: rspec{g: k[0], id: k[1]}})
	}
	for _, g := range []op{
		{kind: kSetGroup, gid: "g1", g: gspec{1, false}}, {kind: kSetGroup, gid: "g2", g: gspec{1, true}}, {kind: kSetGroup, gid: "g1", g: gspec{0, true}},
		{kind: kDelGroup, gid: "g1"}, {kind: kDelGroup, gid: "g2"},
	} {
		l = append(l, g)
	}
	// SetRules: every pair (both orders when the two have the same key)
	for i, a := range pool {
		for j, b := range pool {
			if i < j || (i > j && a.key() == b.key()) {
				l = append(l, op{kind: kSetRules, rules: []rspec{a, b}})
			}
		}
	}
	l = append(l, op{kind: kSetRules, rules: []rspec{rA, rBad}}, op{kind: kSetRules, rules: []rspec{rA, rAB, rD}})
	// Batch: every ordered pair of items
	var items []batchItem
	for _, r := range pool {
		items = append(items, batchItem{r: r})
	}
	for _, k := range [][2]string{{"g1", "a"}, {"g1", "b"}, {"g2", "a"}, {"pd", "default"}} {
		items = append(items, batchItem{del: true, r: rspec{g: k[0], id: k[1]}})
	}
	for _, k := range [][2]string{{"g1", "a"}, {"g1", ""}, {"g2", ""}, {"pd", "def"}} {
		items = append(items, batchItem{del: true, prefix: true, r: rspec{g: k[0], id: k[1]}})
	}
	for i, a := range items {
		for j, b := range items {
			if i == j {
				continue
			}
			if !full && !a.del && !b.del && a.r.key() != b.r.key() {
				continue // two unrelated adds: same as SetRules
			}
			l = append(l, op{kind: kBatch, batch: []batchItem{a, b}})
		}
	}
	l = append(l, op{kind: kBatch, batch: []batchItem{{r: rA}, {r: rBad}}},
		op{kind: kBatch, batch: []batchItem{{del: true, prefix: true, r: rspec{g: "g1"}}, {r: rD}, {del: true, r: rspec{g: "pd", id: "default"}}}})
	// bundles
	pd2 := rspec{g: "pd", id: "d2", start: "", end: "", role: "voter", count: 1}
	bundles := []bundle{
		{"g1", 0, false, []rspec{rA, rAB}},
		{"g1", 1, true, []rspec{anon(rB)}},
		{"g1", 1, false, []rspec{rA2}},
		{"g1", 0, false, nil},
		{"g2", 1, true, []rspec{rD}},
		{"g2", 0, true, []rspec{anon(rC)}},
		{"g2", 1, false, []rspec{rC}},
		{"pd", 0, false, nil},
		{"pd", 1, false, []rspec{pd2}},
		{"g1", 0, false, []rspec{rA, rC}}, // rule of another group
		{"g1", 0, false, []rspec{rA, rBad}},
	}
	for _, b := range bundles {
		l = append(l, op{kind: kSetBundle, bundles: []bundle{b}})
	}
	sets := [][]bundle{
		{bundles[0]}, {bundles[4]}, {bundles[8]}, {bundles[3]},
		{bundles[0], bundles[4]}, {bundles[1], bundles[6]}, {bundles[2], bundles[8]}, {bundles[5], bundles[7]}, {bundles[4], bundles[10]},
		{bundles[0], bundles[1]}, // the same group twice
		{},
	}
	for _, s := range sets {
		for _, ov := range []bool{false, true} {
			l = append(l, op{kind: kSetAllBundles, bundles: s, overrideAll: ov})
		}
	}
	for _, d := range []op{
		{pattern: "g1"}, {pattern: "g2"}, {pattern: "pd"}, {pattern: "g"}, {pattern: "g", regex: true}, {pattern: "g1|pd", regex: true},
		{pattern: "^g2$", regex: true}, {pattern: ".", regex: true}, {pattern: "(", regex: true}, {pattern: "(", regex: false},
	} {
		d.kind = kDelBundle
		l = append(l, d)
	}
	return l
}

// ---------------------------------------------------------------------------
// scope "load": the first operation starts the manager on a storage image

type image struct {
	name    string
	content map[string]string
}

func ruleJSON(r rspec) string {
	return fmt.Sprintf(`{"group_id":%q,"id":%q,"index":%d,"override":%v,"start_key":%q,"end_key":%q,"role":%q,"count":%d}`, r.g, r.id, r.index, r.override, hx(r.start), hx(r.end), r.role, r.count)
}

func storeKey(r rspec) string { return "rules/" + hx(r.g) + "-" + hx(r.id) }

var images = func() []image {
	def := rspec{g: "pd", id: "default", role: "voter", count: 3}
	a1 := rA
	a2 := rspec{g: "g1", id: "a", start: k10, end: "", role: "learner", count: 1}
	all := rspec{g: "g1", id: "a", role: "voter", count: 1}
	kv := func(p ...string) map[string]string {
		m := map[string]string{}
		for i := 0; i < len(p); i += 2 {
			m[p[i]] = p[i+1]
		}
		return m
	}
	// many rules: the loader pages through the storage 100 keys at a time
	many := func(n int) map[string]string {
		m := kv(storeKey(def), ruleJSON(def))
		for i := 0; i < n-1; i++ {
			r := rspec{g: "m", id: fmt.Sprintf("r%03d", i), role: "learner", count: 1}
			m[storeKey(r)] = ruleJSON(r)
		}
		return m
	}
	return []image{
		{"empty", kv()},
		{"99 rules", many(99)},
		{"100 rules", many(100)},
		{"101 rules", many(101)},
		{"200 rules", many(200)},
		{"250 rules", many(250)},
		{"canonical", kv(storeKey(def), ruleJSON(def), storeKey(a1), ruleJSON(a1))},
		{"rule under a legacy key", kv(storeKey(def), ruleJSON(def), "rules/g1-a", ruleJSON(a1))},
		{"rule under a key sorting first", kv(storeKey(def), ruleJSON(def), "rules/00", ruleJSON(a1))},
		{"only rule under a wrong key", kv("rules/zz", ruleJSON(all))},
		{"duplicate under a later wrong key", kv(storeKey(def), ruleJSON(def), storeKey(a1), ruleJSON(a1), "rules/zz", ruleJSON(a2))},
		{"duplicate under an earlier wrong key", kv(storeKey(def), ruleJSON(def), storeKey(a1), ruleJSON(a1), "rules/00", ruleJSON(a2))},
		{"garbage value", kv(storeKey(def), ruleJSON(def), storeKey(a1), "{not json")},
		{"rule in bad format", kv(storeKey(def), ruleJSON(def), storeKey(a1), ruleJSON(rspec{g: "g1", id: "a", role: "voter", count: 0}))},
		{"group configuration", kv(storeKey(def), ruleJSON(def), storeKey(a1), ruleJSON(a1), "rule_group/g1", `{"id":"g1","index":1,"override":true}`, "rule_group/g2", `{"id":"g2","index":1}`)},
		{"garbage group", kv(storeKey(def), ruleJSON(def), storeKey(a1), ruleJSON(a1), "rule_group/g1", `{{`)},
		{"rules leave a gap", kv(storeKey(a1), ruleJSON(a1))},
	}
}()

func loadOps() []op {
	var l []op
	for i := range images {
		l = append(l, op{kind: kBoot, image: i})
	}
	l = append(l, alphabet{keys: [][2]string{{"g1", "a"}}, ranges: [][2]string{{"", ""}, {"", k20}, {k10, ""}, {k20, k20}, {k20, k10}}, indexes: []int{0}, overrides: []bool{false},
		roles: []string{"voter", "learner"}, counts: []int{1}, groupOps: []string{"g1"}}.ops()...)
	l = append(l, op{kind: kSetRule, rule: rspec{g: "pd", id: "default", role: "voter", count: 1}},
		op{kind: kSetBundle, bundles: []bundle{{"g1", 0, false, nil}}},
		op{kind: kDelBundle, pattern: "g1"})
	return l
}

func main() {
	ab := [][2]string{{"g1", "a"}, {"g1", "b"}}
	aba := [][2]string{{"g1", "a"}, {"g1", "b"}, {"g2", "a"}}
	abab := [][2]string{{"g1", "a"}, {"g1", "b"}, {"g2", "a"}, {"g2", "b"}}
	few := [][2]string{{"", ""}, {"", k20}, {k20, ""}, {k10, k30}}
	vl := []string{"voter", "learner"}
	vll := []string{"voter", "leader", "learner"}
	load := func() hist.Model { m := newModel(loadOps()); m.bootScope = true; return m }
	hist.Main(&hist.Config{
		Property: "C13",
		Scopes: []*hist.Scope{
			{Name: "ranges/2rules", Tiers: "quick", Depth: 4, NewModel: rangesScope(ab, vl)},
			{Name: "ranges/3rules", Tiers: "quick", Depth: 3, NewModel: rangesScope(aba, vll)},
			{Name: "override", Tiers: "quick", Depth: 2, NewModel: overrideScope(aba, few, []int{1, 2}, false)},
			{Name: "override/2keys", Tiers: "quick", Depth: 3, NewModel: overrideScope([][2]string{{"g1", "a"}, {"g2", "a"}}, few[:3], []int{1}, false)},
			{Name: "after-reject", Tiers: "quick", Depth: 3, NewModel: overrideScope([][2]string{{"g1", "a"}}, few[:2], []int{1}, true)},
			{Name: "multi", Tiers: "quick", Depth: 2, NewModel: func() hist.Model { return newModel(multiOps(pool, false)) }},
			{Name: "multi/3pool", Tiers: "quick", Depth: 3, NewModel: func() hist.Model { return newModel(multiOps([]rspec{rA, rAB, rD}, false)) }},
			{Name: "load", Tiers: "quick", Depth: 3, NewModel: load},

			{Name: "load@4", Tiers: "thorough", Depth: 4, NewModel: load},
			{Name: "override/counts@2", Tiers: "thorough", Depth: 2, NewModel: overrideScope(aba, few, []int{1, 2}, false)},
			{Name: "multi@3", Tiers: "thorough", Depth: 3, NewModel: func() hist.Model { return newModel(multiOps(pool, true)) }},
			{Name: "multi/3pool@4", Tiers: "thorough", Depth: 4, NewModel: func() hist.Model { return newModel(multiOps([]rspec{rA, rAB, rD}, false)) }},
			{Name: "ranges/3rules@3", Tiers: "thorough", Depth: 3, NewModel: rangesScope(aba, vll)},
			{Name: "ranges/2rules@5", Tiers: "thorough", Depth: 5, NewModel: rangesScope(ab, vll)},
			{Name: "after-reject@4", Tiers: "thorough", Depth: 4, NewModel: overrideScope([][2]string{{"g1", "a"}, {"g2", "a"}}, few[:2], []int{1}, true)},
			{Name: "override/4keys@3", Tiers: "thorough", Depth: 3, NewModel: overrideScope(abab, few[:3], []int{1}, false)},
			{Name: "ranges/3rules/vl@4", Tiers: "thorough", Depth: 4, NewModel: rangesScope(aba, vl)},
			{Name: "override@3", Tiers: "thorough", Depth: 3, NewModel: overrideScope(aba, few, []int{1}, false)},
			{Name: "override/allranges@3", Tiers: "thorough", Depth: 3, NewModel: func() hist.Model {
				return newModel(alphabet{keys: [][2]string{{"g1", "a"}, {"g2", "a"}}, ranges: allRanges, indexes: []int{0, 1}, overrides: []bool{false, true}, roles: vl,
					counts: []int{1}, groupOps: []string{"g1", "g2", "pd"}}.ops())
			}},
		},
		Rule: "breadth-first over all sequences of SetRule/DeleteRule/SetRules/Batch/SetRuleGroup/DeleteRuleGroup/SetGroupBundle/SetAllGroupBundles/DeleteGroupBundle of the scope's alphabet " +
			"(groups g1,g2,pd x ids x ranges over the key points \"\",10,20,30 x index x override x role x count), states deduplicated by the reference configuration; after every operation " +
			"GetAllRules, GetRuleGroups, GetRulesByKey (8 probe keys), GetRulesForApplyRegion and GetSplitKeys (36 probe ranges) are compared with a per-key recomputation, acceptance is compared with " +
			"the validity of the requested configuration, a second RuleManager is initialised from a copy of the storage, and for every write of every accepted update the history is replayed with that write failing " +
			"(served rules unchanged, persisted part = k-1 of the update's writes, retry converges, restart agrees)",
		Assumptions: []string{
			"reference = plain maps; rules of a key, override, segments and validity recomputed from the statement for every observation",
			"an update is expected to be accepted exactly when it is well formed and every key keeps a valid rule set (valid updates must not be refused either)",
			"Batch delete-by-prefix selects among the rules configured before the batch (as implemented; the statement does not fix it)",
			"after a boot from a storage image (scope load) the served configuration is read from the manager; index exactness, validity, restart agreement and all later updates are checked against it",
			"Go map iteration order in savePatch is not controlled: for the k-th failing write whichever k-1 writes the runtime put first are persisted; multi-write updates are repeated twice per k; this dimension is not exhaustive",
			"a rejected update leads back to the same state and is not extended, except in the after-reject scopes where the last rejected update is part of the state",
		},
	})
}
