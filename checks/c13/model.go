package main

import (
	"encoding/hex"
	"errors"
	"fmt"
	"runtime/debug"
	"sort"
	"strings"

	"github.com/pingcap/kvproto/pkg/metapb"
	"github.com/pingcap/log"
	"github.com/tikv/pd/server/core"
	"github.com/tikv/pd/server/kv"
	"github.com/tikv/pd/server/schedule/placement"
	"go.uber.org/zap"
	"verif/engine/hist"
)

func init() {
	log.ReplaceGlobals(zap.NewNop(), &log.ZapProperties{})
	debug.SetGCPercent(400)
}

// ---------------------------------------------------------------------------
// storage seam: counts the writes, fails the failAt-th one, mirrors the content

var errInjected = errors.New("seamkv: injected write failure")

type seamKV struct {
	kv.Base
	data    map[string]string
	writes  int
	failAt  int // absolute index (1-based) of the write that fails; 0 = none
	tripped bool
}

func newSeamKV(content map[string]string) *seamKV {
	s := &seamKV{Base: kv.NewMemoryKV(), data: map[string]string{}}
	for k, v := range content {
		s.Base.Save(k, v)
		s.data[k] = v
	}
	return s
}

func (s *seamKV) fail() bool {
	s.writes++
	if s.failAt > 0 && s.writes == s.failAt {
		s.tripped = true
		return true
	}
	return false
}

func (s *seamKV) Save(k, v string) error {
	if s.fail() {
		return errInjected
	}
	s.data[k] = v
	return s.Base.Save(k, v)
}

func (s *seamKV) Remove(k string) error {
	if s.fail() {
		return errInjected
	}
	delete(s.data, k)
	return s.Base.Remove(k)
}

func (s *seamKV) snapshot() map[string]string {
	m := make(map[string]string, len(s.data))
	for k, v := range s.data {
		m[k] = v
	}
	return m
}

var defaultLabels = []string{"zone", "host"}

// boot starts a RuleManager on the storage content (the way a PD starts).
func boot(content map[string]string) (*placement.RuleManager, *seamKV, error) {
	s := newSeamKV(content)
	st := core.NewStorage(s)
	m := placement.NewRuleManager(st, nil)
	err := m.Initialize(3, defaultLabels)
	return m, s, err
}

// ---------------------------------------------------------------------------
// real side: operations and observations

func hx(s string) string { return hex.EncodeToString([]byte(s)) }

func (r rspec) real() *placement.Rule {
	x := &placement.Rule{GroupID: r.g, ID: r.id, Index: r.index, Override: r.override, StartKeyHex: hx(r.start), EndKeyHex: hx(r.end),
		Role: placement.PeerRoleType(r.role), Count: r.count}
	if r.labels != "" {
		x.LocationLabels = strings.Split(r.labels, ",")
	}
	return x
}

func fromReal(r *placement.Rule) rspec {
	if r == nil {
		return rspec{g: "<nil>"}
	}
	return rspec{g: r.GroupID, id: r.ID, start: string(r.StartKey), end: string(r.EndKey), index: r.Index, override: r.Override,
		role: string(r.Role), count: r.Count, labels: strings.Join(r.LocationLabels, ",")}
}

func (b bundle) real() placement.GroupBundle {
	x := placement.GroupBundle{ID: b.id, Index: b.index, Override: b.override}
	for _, r := range b.rules {
		x.Rules = append(x.Rules, r.real())
	}
	return x
}

// applyReal runs the update on the real manager (fresh Rule objects every time).
func applyReal(m *placement.RuleManager, o op) error {
	switch o.kind {
	case kSetRule:
		return m.SetRule(o.rule.real())
	case kDelRule:
		return m.DeleteRule(o.rule.g, o.rule.id)
	case kSetRules:
		var l []*placement.Rule
		for _, r := range o.rules {
			l = append(l, r.real())
		}
		return m.SetRules(l)
	case kBatch:
		var l []placement.RuleOp
		for _, it := range o.batch {
			if it.del {
				l = append(l, placement.RuleOp{Rule: &placement.Rule{GroupID: it.r.g, ID: it.r.id}, Action: placement.RuleOpDel, DeleteByIDPrefix: it.prefix})
			} else {
				l = append(l, placement.RuleOp{Rule: it.r.real(), Action: placement.RuleOpAdd})
			}
		}
		return m.Batch(l)
	case kSetGroup:
		return m.SetRuleGroup(&placement.RuleGroup{ID: o.gid, Index: o.g.index, Override: o.g.override})
	case kDelGroup:
		return m.DeleteRuleGroup(o.gid)
	case kSetBundle:
		return m.SetGroupBundle(o.bundles[0].real())
	case kSetAllBundles:
		var l []placement.GroupBundle
		for _, b := range o.bundles {
			l = append(l, b.real())
		}
		return m.SetAllGroupBundles(l, o.overrideAll)
	case kDelBundle:
		return m.DeleteGroupBundle(o.pattern, o.regex)
	}
	panic("applyReal: " + o.String())
}

// probes: keys below, at, between and above the key points 10 20 30.
var probes = []string{"", "\x05", "\x10", "\x15", "\x20", "\x25", "\x30", "\x35"}

type prange struct {
	s, e   string
	region *core.RegionInfo
}

var pranges = func() []prange {
	var l []prange
	for i, s := range probes {
		for _, e := range append(append([]string{}, probes[i+1:]...), "") {
			l = append(l, prange{s, e, core.NewRegionInfo(&metapb.Region{Id: 1, StartKey: []byte(s), EndKey: []byte(e)}, nil)})
		}
	}
	return l
}()

// obs is everything that is observed, as (what, value) lines in a fixed order.
type obs struct {
	val []string
}

// whats names the lines of an obs.
var whats = func() []string {
	l := []string{"all-rules", "groups"}
	for _, k := range probes {
		l = append(l, "rules-by-key("+hx(k)+")")
	}
	for _, p := range pranges {
		l = append(l, "apply-region["+hx(p.s)+","+hx(p.e)+")")
	}
	for _, p := range pranges {
		l = append(l, "split-keys("+hx(p.s)+","+hx(p.e)+")")
	}
	return l
}()

func (o *obs) add(val string) {
	if o.val == nil {
		o.val = make([]string, 0, len(whats))
	}
	o.val = append(o.val, val)
}

func keysHex(l []string) string {
	s := make([]string, len(l))
	for i, k := range l {
		s[i] = hx(k)
	}
	return strings.Join(s, ",")
}

func observeReal(m *placement.RuleManager) *obs {
	o := &obs{}
	type sl struct {
		p *(*placement.Rule)
		n int
	}
	memo := map[sl]string{} // the index hands out the same slice for every key of a segment
	rs := func(l []*placement.Rule) string {
		if len(l) == 0 {
			return ""
		}
		id := sl{&l[0], len(l)}
		if v, ok := memo[id]; ok {
			return v
		}
		s := make([]rspec, len(l))
		for i, r := range l {
			s[i] = fromReal(r)
		}
		v := rlist(s)
		memo[id] = v
		return v
	}
	o.add(rs(m.GetAllRules()))
	var gs []string
	for _, g := range m.GetRuleGroups() {
		gs = append(gs, fmt.Sprintf("%s:%d/%v", g.ID, g.Index, g.Override))
	}
	o.add(strings.Join(gs, ", "))
	for _, k := range probes {
		o.add(rs(m.GetRulesByKey([]byte(k))))
	}
	for _, p := range pranges {
		o.add(rs(m.GetRulesForApplyRegion(p.region)))
	}
	for _, p := range pranges {
		var l []string
		for _, k := range m.GetSplitKeys([]byte(p.s), []byte(p.e)) {
			l = append(l, string(k))
		}
		o.add(keysHex(l))
	}
	return o
}

var obsCache = map[string]*obs{}

func observeRef(c *ref) *obs {
	key := c.canon()
	if o, ok := obsCache[key]; ok {
		return o
	}
	o := observeRef1(c)
	if len(obsCache) >= 2048 {
		obsCache = map[string]*obs{}
	}
	obsCache[key] = o
	return o
}

func observeRef1(c *ref) *obs {
	o := &obs{}
	bs := c.boundaries()
	o.add(rlist(c.allRules()))
	var gs []string
	for _, g := range c.ruleGroups() {
		gs = append(gs, fmt.Sprintf("%s:%d/%v", g.id, g.index, g.override))
	}
	o.add(strings.Join(gs, ", "))
	for _, k := range probes {
		o.add(rlist(c.rulesByKey(k)))
	}
	for _, p := range pranges {
		o.add(rlist(c.rulesForRegion(bs, p.s, p.e)))
	}
	for _, p := range pranges {
		o.add(keysHex(c.splitKeys(bs, p.s, p.e)))
	}
	return o
}

// diff returns the class of the first difference ("" = equal) and its description.
func diff(got, want *obs) (class, msg string) {
	for i := range want.val {
		if got.val[i] == want.val[i] {
			continue
		}
		class = whats[i]
		if j := strings.IndexAny(class, "(["); j >= 0 {
			class = class[:j]
		}
		a, b := strings.Split(got.val[i], ", "), strings.Split(want.val[i], ", ")
		sort.Strings(a)
		sort.Strings(b)
		if strings.Join(a, ", ") == strings.Join(b, ", ") {
			class = "order" // same members, other order
		}
		return class, fmt.Sprintf("%s = [%s], expected [%s]", whats[i], got.val[i], want.val[i])
	}
	return "", ""
}

// refFromReal reads the configuration a manager is serving (used after a boot from
// an arbitrary storage image, where the statement does not say what has to be loaded).
func refFromReal(m *placement.RuleManager) *ref {
	c := newRef()
	for _, r := range m.GetAllRules() {
		s := fromReal(r)
		c.rules[s.key()] = s
	}
	for _, g := range m.GetRuleGroups() {
		c.setGroup(g.ID, gspec{g.Index, g.Override})
	}
	return c
}

// ---------------------------------------------------------------------------
// the model

type model struct {
	ops         []op
	bootScope   bool // the first operation chooses the storage image
	trackReject bool // a rejected update is part of the state (its successors are explored too)
	faultReps   int  // how often every faulted write of a multi-write update is repeated (map order)

	mgr    *placement.RuleManager
	kv     *seamKV
	ref    *ref
	booted bool
	dead   bool // boot failed: nothing is served
	path   []int
	marker string

	n, fastUntil int
}

func (m *model) NumOps() int         { return len(m.ops) }
func (m *model) OpName(i int) string { return m.ops[i].String() }

// Possible is only used to learn the length of the history the engine is about to
// replay: the operations of the prefix were checked when they were explored, so the
// replay applies them without the checks.
func (m *model) Possible(h []int, op int) bool {
	m.fastUntil = len(h)
	return true
}

func (m *model) Enabled(i int) bool {
	if m.dead {
		return false
	}
	if m.ops[i].kind == kBoot {
		return !m.booted
	}
	return m.booted
}

func (m *model) Reset() {
	m.path, m.marker, m.n, m.dead = nil, "", 0, false
	m.booted = false
	m.mgr, m.kv, m.ref = nil, nil, newRef()
	if !m.bootScope {
		m.mgr, m.kv, m.ref = bootEmpty()
		m.booted = true
	}
}

var defaultRule = rspec{g: "pd", id: "default", role: "voter", count: 3, labels: strings.Join(defaultLabels, ",")}

func bootEmpty() (*placement.RuleManager, *seamKV, *ref) {
	mgr, s, err := boot(nil)
	if err != nil {
		panic(err)
	}
	c := newRef()
	c.rules[defaultRule.key()] = defaultRule
	return mgr, s, c
}

func (m *model) Key() string {
	if !m.booted {
		return "off"
	}
	if m.dead {
		return "dead:" + fmt.Sprint(m.path)
	}
	k := m.ref.canon()
	if m.bootScope {
		// storage may hold more than what is served: keep the images apart
		k = fmt.Sprintf("img%d|", m.path[0]) + k
	}
	return k + m.marker
}

// rebuild replays a history on a fresh manager and storage (no checks).
func (m *model) rebuild(path []int) (*placement.RuleManager, *seamKV) {
	var mgr *placement.RuleManager
	var s *seamKV
	if !m.bootScope {
		mgr, s, _ = bootEmpty()
	}
	for _, i := range path {
		o := m.ops[i]
		if o.kind == kBoot {
			mgr, s, _ = boot(images[o.image].content)
			continue
		}
		applyReal(mgr, o)
	}
	return mgr, s
}

func viol(key, f string, a ...interface{}) *hist.Violation {
	return &hist.Violation{Key: key, Msg: fmt.Sprintf(f, a...)}
}

// restartCheck: a second manager initialised from the same storage observes the same.
func restartCheck(content map[string]string, want *obs, prefix, after string) *hist.Violation {
	m2, _, err := boot(content)
	if err != nil {
		return viol(prefix+"restart-fails", "after %s: a restarted manager does not initialise from the storage: %v\n  storage: %v", after, err, content)
	}
	if class, msg := diff(observeReal(m2), want); class != "" {
		return viol(prefix+"restart-differs", "after %s: a restarted manager serves something else: %s\n  storage: %v", after, msg, content)
	}
	return nil
}

func (m *model) Apply(i int) *hist.Violation {
	o := m.ops[i]
	m.n++
	fast := m.n <= m.fastUntil
	prev := m.path
	m.path = append(append([]int(nil), m.path...), i)
	m.marker = ""
	name := o.String()

	if o.kind == kBoot {
		mgr, s, err := boot(images[o.image].content)
		m.booted = true
		if err != nil {
			m.dead = true
			return nil
		}
		m.mgr, m.kv, m.ref = mgr, s, refFromReal(mgr)
		if fast {
			return nil
		}
		want := observeRef(m.ref)
		if class, msg := diff(observeReal(mgr), want); class != "" {
			return viol("boot-"+class, "after %s: %s", name, msg)
		}
		if why, detail := m.ref.invalid(); why != "" {
			return viol("boot-serves-"+why, "after %s: %s\n  rules: %s", name, detail, rlist(m.ref.allRules()))
		}
		return restartCheck(s.snapshot(), want, "boot-", name)
	}

	pre := m.ref
	post, malformed := pre.apply(o)
	why, detail := "", ""
	if malformed != "" {
		why, detail = "malformed-request", malformed
	} else {
		why, detail = post.invalid()
	}
	w0 := m.kv.writes
	err := applyReal(m.mgr, o)
	w := m.kv.writes - w0
	if why == "" && err == nil {
		m.ref = post
	}
	if m.trackReject && why != "" {
		m.marker = "|rejected:" + name
	}
	if fast {
		return nil
	}

	if why != "" {
		// the update has to be rejected and nothing observable may change
		if err == nil {
			return viol("accepted-update-"+why, "%s was accepted although %s\n  rules before: %s\n  rules asked for: %s", name, detail, rlist(pre.allRules()), rlist(post.allRules()))
		}
		want := observeRef(pre)
		if class, msg := diff(observeReal(m.mgr), want); class != "" {
			return viol("rejected-update-changed-"+class, "%s was rejected (%v) but changed what is served: %s", name, err, msg)
		}
		if w != 0 {
			return viol("rejected-update-wrote-storage", "%s was rejected (%v) but wrote %d times to the storage", name, err, w)
		}
		return restartCheck(m.kv.snapshot(), want, "rejected-update-", name)
	}
	if err != nil {
		return viol("valid-update-rejected", "%s was rejected (%v) although every key keeps a valid rule set\n  rules before: %s\n  rules asked for: %s", name, err, rlist(pre.allRules()), rlist(post.allRules()))
	}
	want := observeRef(post)
	if class, msg := diff(observeReal(m.mgr), want); class != "" {
		return viol(class, "after %s: %s\n  rules: %s\n  groups: %v", name, msg, rlist(post.allRules()), post.groups)
	}
	final := m.kv.snapshot()
	if v := restartCheck(final, want, "", name); v != nil {
		return v
	}

	// storage failure at every single write of the update
	wantPre := observeRef(pre)
	reps := 1
	if w > 1 && m.faultReps > 1 {
		reps = m.faultReps
	}
	for k := 1; k <= w; k++ {
		for rep := 0; rep < reps; rep++ {
			mgr, s := m.rebuild(prev)
			before := s.snapshot()
			s.failAt = s.writes + k
			at := fmt.Sprintf("%s with write %d of %d failing", name, k, w)
			err := applyReal(mgr, o)
			if !s.tripped {
				return viol("write-count-differs", "%s wrote %d times in one run and fewer in another", name, w)
			}
			if err == nil {
				return viol("storage-failure-not-reported", "%s returned no error", at)
			}
			if class, msg := diff(observeReal(mgr), wantPre); class != "" {
				return viol("failed-update-changed-"+class, "%s changed what is served: %s", at, msg)
			}
			// what is persisted: k-1 of the writes of the update, nothing else
			changed := 0
			now := s.snapshot()
			for key := range union(before, now, final) {
				b, bok := before[key]
				n, nok := now[key]
				f, fok := final[key]
				if n == b && nok == bok {
					continue
				}
				changed++
				if n != f || nok != fok {
					return viol("failed-update-persisted-garbage", "%s: storage key %s = %q (present %v) is neither the old nor the new value", at, key, n, nok)
				}
			}
			if changed != k-1 {
				return viol("failed-update-persisted-count", "%s: %d storage keys changed", at, changed)
			}
			s.failAt = 0
			if err := applyReal(mgr, o); err != nil {
				return viol("retry-rejected", "retry after %s was rejected: %v", at, err)
			}
			if class, msg := diff(observeReal(mgr), want); class != "" {
				return viol("retry-not-converged-"+class, "retry after %s: %s", at, msg)
			}
			if v := restartCheck(s.snapshot(), want, "retry-", "the retry after "+at); v != nil {
				return v
			}
		}
	}
	return nil
}

func union(ms ...map[string]string) map[string]bool {
	u := map[string]bool{}
	for _, m := range ms {
		for k := range m {
			u[k] = true
		}
	}
	return u
}
