package main

// Reference model of the placement rule configuration, written from the property
// statement: plain maps, every answer recomputed from scratch by looking at every rule.

import (
	"encoding/hex"
	"fmt"
	"regexp"
	"sort"
	"strings"
)

// rspec is one placement rule. start / end are raw keys ("" end = unbounded).
type rspec struct {
	g, id      string
	start, end string
	index      int
	override   bool
	role       string
	count      int
	labels     string // location labels, comma separated (only the default rule has some)
}

func (r rspec) key() [2]string { return [2]string{r.g, r.id} }

var strCache = map[rspec]string{}

func (r rspec) String() string {
	if s, ok := strCache[r]; ok {
		return s
	}
	s := r.render()
	if len(strCache) < 1<<16 {
		strCache[r] = s
	}
	return s
}

func (r rspec) render() string {
	s := fmt.Sprintf("%s/%s[%s,%s)", r.g, r.id, hex.EncodeToString([]byte(r.start)), hex.EncodeToString([]byte(r.end)))
	if r.index != 0 {
		s += fmt.Sprintf("i%d", r.index)
	}
	if r.override {
		s += "!"
	}
	s += fmt.Sprintf(" %sx%d", r.role, r.count)
	if r.labels != "" {
		s += "{" + r.labels + "}"
	}
	return s
}

// malformed: the constraints a single rule has to satisfy by itself.
func (r rspec) malformed() string {
	switch {
	case r.g == "":
		return "empty group id"
	case r.id == "":
		return "empty id"
	case r.role != "voter" && r.role != "leader" && r.role != "follower" && r.role != "learner":
		return "invalid role"
	case r.count <= 0:
		return "count not positive"
	case r.role == "leader" && r.count > 1:
		return "several leaders in one rule"
	case r.end != "" && r.end <= r.start:
		return "empty key range"
	}
	return ""
}

func (r rspec) contains(k string) bool { return r.start <= k && (r.end == "" || k < r.end) }

type gspec struct {
	index    int
	override bool
}

func (g gspec) isDefault() bool { return g.index == 0 && !g.override }

// ref is the configuration: rules by (group, id) and the explicitly configured groups
// (a group that is not listed has index 0 and no override).
type ref struct {
	rules  map[[2]string]rspec
	groups map[string]gspec
}

func newRef() *ref { return &ref{rules: map[[2]string]rspec{}, groups: map[string]gspec{}} }

func (c *ref) clone() *ref {
	n := newRef()
	for k, v := range c.rules {
		n.rules[k] = v
	}
	for k, v := range c.groups {
		n.groups[k] = v
	}
	return n
}

func (c *ref) setGroup(id string, g gspec) {
	if g.isDefault() {
		delete(c.groups, id)
	} else {
		c.groups[id] = g
	}
}

// less is the documented order [GroupIndex, GroupID, Index, ID].
func (c *ref) less(a, b rspec) bool {
	ga, gb := c.groups[a.g].index, c.groups[b.g].index
	if ga != gb {
		return ga < gb
	}
	if a.g != b.g {
		return a.g < b.g
	}
	if a.index != b.index {
		return a.index < b.index
	}
	return a.id < b.id
}

func (c *ref) sorted(l []rspec) []rspec {
	sort.Slice(l, func(i, j int) bool { return c.less(l[i], l[j]) })
	return l
}

func (c *ref) allRules() []rspec {
	l := make([]rspec, 0, len(c.rules))
	for _, r := range c.rules {
		l = append(l, r)
	}
	return c.sorted(l)
}

// rulesByKey: exactly the rules whose range contains k, in the documented order.
func (c *ref) rulesByKey(k string) []rspec {
	var l []rspec
	for _, r := range c.rules {
		if r.contains(k) {
			l = append(l, r)
		}
	}
	return c.sorted(l)
}

// applied: what is left of an ordered rule list after rule and group override. A rule
// is disabled by a later rule of its group that has Override, and by a later rule of
// another group whose group has Override.
func (c *ref) applied(l []rspec) []rspec {
	var out []rspec
	for i, r := range l {
		keep := true
		for _, q := range l[i+1:] {
			if q.g == r.g && q.override {
				keep = false
			}
			if q.g != r.g && c.groups[q.g].override {
				keep = false
			}
		}
		if keep {
			out = append(out, r)
		}
	}
	return out
}

// boundaries: every start key and every bounded end key of a rule, ascending.
func (c *ref) boundaries() []string {
	set := map[string]bool{}
	for _, r := range c.rules {
		set[r.start] = true
		if r.end != "" {
			set[r.end] = true
		}
	}
	l := make([]string, 0, len(set))
	for k := range set {
		l = append(l, k)
	}
	sort.Strings(l)
	return l
}

// rulesForRegion: the applied rules of the segment when [s,e) lies inside one segment, none otherwise.
func (c *ref) rulesForRegion(bs []string, s, e string) []rspec {
	for _, b := range bs {
		if s < b && (e == "" || b < e) {
			return nil
		}
	}
	return c.applied(c.rulesByKey(s))
}

// splitKeys: the segment boundaries strictly inside (s,e).
func (c *ref) splitKeys(bs []string, s, e string) []string {
	var l []string
	for _, b := range bs {
		if s < b && (e == "" || b < e) {
			l = append(l, b)
		}
	}
	return l
}

type gview struct {
	id string
	gspec
}

// ruleGroups: every group that is configured explicitly or has a rule, by (index, id).
func (c *ref) ruleGroups() []gview {
	set := map[string]bool{}
	for id := range c.groups {
		set[id] = true
	}
	for _, r := range c.rules {
		set[r.g] = true
	}
	var l []gview
	for id := range set {
		l = append(l, gview{id, c.groups[id]})
	}
	sort.Slice(l, func(i, j int) bool {
		if l[i].index != l[j].index {
			return l[i].index < l[j].index
		}
		return l[i].id < l[j].id
	})
	return l
}

// invalid returns why the configuration leaves some key without a valid rule set
// ("" when every key has one). Rule sets are constant between two boundaries, so one
// key per segment (and the empty key) decides for every key.
func (c *ref) invalid() (reason, detail string) {
	keys := c.boundaries()
	if len(keys) == 0 || keys[0] != "" {
		keys = append([]string{""}, keys...)
	}
	for _, k := range keys {
		l := c.rulesByKey(k)
		if len(l) == 0 {
			return "key-without-rule", fmt.Sprintf("key %q has no rule", hex.EncodeToString([]byte(k)))
		}
		leaders, voters := 0, 0
		for _, r := range c.applied(l) {
			switch r.role {
			case "leader":
				leaders += r.count
			case "voter":
				voters += r.count
			}
		}
		if leaders > 1 {
			return "several-leaders", fmt.Sprintf("key %q gets %d leaders", hex.EncodeToString([]byte(k)), leaders)
		}
		if leaders+voters < 1 {
			return "no-voter-or-leader", fmt.Sprintf("key %q gets no voter and no leader", hex.EncodeToString([]byte(k)))
		}
	}
	return "", ""
}

func (c *ref) canon() string {
	var b strings.Builder
	for _, r := range c.allRules() {
		b.WriteString(r.String())
		b.WriteByte(';')
	}
	b.WriteByte('|')
	ids := make([]string, 0, len(c.groups))
	for id := range c.groups {
		ids = append(ids, id)
	}
	sort.Strings(ids)
	for _, id := range ids {
		fmt.Fprintf(&b, "%s:%d/%v;", id, c.groups[id].index, c.groups[id].override)
	}
	return b.String()
}

// ---------------------------------------------------------------------------
// operations

type opKind int

const (
	kSetRule opKind = iota
	kDelRule
	kSetRules
	kBatch
	kSetGroup
	kDelGroup
	kSetBundle
	kSetAllBundles
	kDelBundle
	kBoot
)

type batchItem struct {
	del, prefix bool
	r           rspec // del: only g and id (prefix) are used
}

type bundle struct {
	id       string
	index    int
	override bool
	rules    []rspec // a rule may leave its group empty: it is the bundle's group then
}

type op struct {
	kind        opKind
	rule        rspec
	rules       []rspec
	batch       []batchItem
	gid         string
	g           gspec
	bundles     []bundle
	overrideAll bool
	pattern     string
	regex       bool
	image       int
}

func rlist(l []rspec) string {
	s := make([]string, len(l))
	for i, r := range l {
		s[i] = r.String()
	}
	return strings.Join(s, ", ")
}

func (b bundle) String() string {
	return fmt.Sprintf("{%s index=%d override=%v rules=[%s]}", b.id, b.index, b.override, rlist(b.rules))
}

func (o op) String() string {
	switch o.kind {
	case kSetRule:
		return "SetRule(" + o.rule.String() + ")"
	case kDelRule:
		return fmt.Sprintf("DeleteRule(%s/%s)", o.rule.g, o.rule.id)
	case kSetRules:
		return "SetRules(" + rlist(o.rules) + ")"
	case kBatch:
		var s []string
		for _, it := range o.batch {
			switch {
			case !it.del:
				s = append(s, "add "+it.r.String())
			case it.prefix:
				s = append(s, fmt.Sprintf("del-prefix %s/%s*", it.r.g, it.r.id))
			default:
				s = append(s, fmt.Sprintf("del %s/%s", it.r.g, it.r.id))
			}
		}
		return "Batch(" + strings.Join(s, "; ") + ")"
	case kSetGroup:
		return fmt.Sprintf("SetRuleGroup(%s index=%d override=%v)", o.gid, o.g.index, o.g.override)
	case kDelGroup:
		return fmt.Sprintf("DeleteRuleGroup(%s)", o.gid)
	case kSetBundle:
		return "SetGroupBundle(" + o.bundles[0].String() + ")"
	case kSetAllBundles:
		var s []string
		for _, b := range o.bundles {
			s = append(s, b.String())
		}
		return fmt.Sprintf("SetAllGroupBundles([%s], override=%v)", strings.Join(s, " "), o.overrideAll)
	case kDelBundle:
		return fmt.Sprintf("DeleteGroupBundle(%q, regex=%v)", o.pattern, o.regex)
	case kBoot:
		return fmt.Sprintf("boot(image %d: %s)", o.image, images[o.image].name)
	}
	return "?"
}

// apply computes the configuration the update asks for. malformed != "" when the
// request itself is not well formed (it has to be rejected as a whole).
func (c *ref) apply(o op) (post *ref, malformed string) {
	post = c.clone()
	set := func(r rspec) bool {
		if w := r.malformed(); w != "" {
			malformed = w + ": " + r.String()
			return false
		}
		post.rules[r.key()] = r
		return true
	}
	dropGroup := func(match func(string) bool, cfg bool) {
		for k := range post.rules {
			if match(k[0]) {
				delete(post.rules, k)
			}
		}
		if cfg {
			for id := range post.groups {
				if match(id) {
					delete(post.groups, id)
				}
			}
		}
	}
	setBundle := func(b bundle) bool {
		post.setGroup(b.id, gspec{b.index, b.override})
		for _, r := range b.rules {
			if r.g == "" {
				r.g = b.id
			}
			if r.g != b.id {
				malformed = "rule of another group in bundle " + b.id + ": " + r.String()
				return false
			}
			if !set(r) {
				return false
			}
		}
		return true
	}
	switch o.kind {
	case kSetRule:
		set(o.rule)
	case kDelRule:
		delete(post.rules, o.rule.key())
	case kSetRules:
		for _, r := range o.rules {
			if !set(r) {
				break
			}
		}
	case kBatch:
		for _, it := range o.batch {
			if !it.del {
				if w := it.r.malformed(); w != "" {
					malformed = w + ": " + it.r.String()
				}
			}
		}
		for _, it := range o.batch {
			switch {
			case !it.del:
				post.rules[it.r.key()] = it.r
			case it.prefix:
				// the prefix selects among the rules configured before the batch
				for k := range c.rules {
					if k[0] == it.r.g && strings.HasPrefix(k[1], it.r.id) {
						delete(post.rules, k)
					}
				}
			default:
				delete(post.rules, it.r.key())
			}
		}
	case kSetGroup:
		post.setGroup(o.gid, o.g)
	case kDelGroup:
		delete(post.groups, o.gid)
	case kSetBundle:
		b := o.bundles[0]
		dropGroup(func(id string) bool { return id == b.id }, false)
		setBundle(b)
	case kSetAllBundles:
		dropGroup(func(id string) bool {
			if o.overrideAll {
				return true
			}
			for _, b := range o.bundles {
				if b.id == id {
					return true
				}
			}
			return false
		}, true)
		for _, b := range o.bundles {
			if !setBundle(b) {
				break
			}
		}
	case kDelBundle:
		match := func(id string) bool { return id == o.pattern }
		if o.regex {
			re, err := regexp.Compile(o.pattern)
			if err != nil {
				malformed = "pattern does not compile"
				break
			}
			match = re.MatchString
		}
		dropGroup(match, true)
	}
	return post, malformed
}
