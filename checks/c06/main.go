// Check C06: region cache never regresses and never holds overlapping regions.
//
// Messages are not hand-written: a tiny TiKV history generator enumerates all
// split / merge / conf-change / leader-change histories up to a depth; the
// alphabet of a history is every region snapshot that occurred in it. Engine B
// delivers every sequence (with duplicates) of those messages to the real
// RaftCluster.processRegionHeartbeat; engine A delivers them from concurrent
// streams.
package main

import (
	"context"
	"fmt"
	"io"
	"os"
	"regexp"
	"sort"
	"strings"
	"time"

	"github.com/pingcap/kvproto/pkg/metapb"
	"github.com/pingcap/kvproto/pkg/pdpb"
	"github.com/pingcap/log"
	"github.com/tikv/pd/pkg/mock/mockid"
	"github.com/tikv/pd/pkg/verifshim/sched"
	"github.com/tikv/pd/server/cluster"
	"github.com/tikv/pd/server/config"
	"github.com/tikv/pd/server/core"
	"github.com/tikv/pd/server/kv"
	"github.com/tikv/pd/server/schedule"
	"github.com/tikv/pd/server/schedule/hbstream"
	"github.com/tikv/pd/server/schedule/operator"
	"go.uber.org/zap"
	"go.uber.org/zap/zapcore"
	"verif/engine/explore"
	"verif/engine/hist"
)

func init() { log.ReplaceGlobals(zap.NewNop(), &log.ZapProperties{}) }

// ---- TiKV history generator ----

type snap struct {
	id         uint64
	start, end string
	ver, conf  uint64
	term       uint64
	leader     uint64 // store id
	npeers     int
}

func (s snap) String() string {
	return fmt.Sprintf("r%d[%q,%q)v%d.c%d.t%d.L%d.p%d", s.id, s.start, s.end, s.ver, s.conf, s.term, s.leader, s.npeers)
}

type thist struct {
	name  string
	live  []snap
	msgs  []snap
	next  uint64
	terms bool
}

func (h *thist) clone() *thist {
	c := *h
	c.live = append([]snap(nil), h.live...)
	c.msgs = append([]snap(nil), h.msgs...)
	return &c
}

func (h *thist) emit(s snap) {
	if !h.terms {
		s.term = 0
	}
	for _, m := range h.msgs {
		if m == s {
			return
		}
	}
	h.msgs = append(h.msgs, s)
}

var points = []string{"a", "b", "c"}

func inside(s snap, k string) bool { return k > s.start && (s.end == "" || k < s.end) }

// successors applies every possible next TiKV event.
func (h *thist) successors() []*thist {
	var out []*thist
	for i, r := range h.live {
		// split at every key point strictly inside; the original keeps the right part
		for _, k := range points {
			if !inside(r, k) {
				continue
			}
			c := h.clone()
			left := snap{id: c.next, start: r.start, end: k, ver: r.ver + 1, conf: r.conf, term: 6, leader: r.leader, npeers: r.npeers}
			c.next++
			right := r
			right.start, right.ver = k, r.ver+1
			c.live[i] = right
			c.live = append(c.live, left)
			c.emit(left)
			c.emit(right)
			c.name += fmt.Sprintf(";split(r%d@%s)", r.id, k)
			out = append(out, c)
		}
		// merge r (source) into an adjacent target
		for j, t := range h.live {
			if i == j {
				continue
			}
			srcLeft := r.end == t.start && r.end != ""  // source is the left neighbour of the target
			srcRight := t.end == r.start && t.end != "" // source is the right neighbour
			if !srcLeft && !srcRight {
				continue
			}
			c := h.clone()
			m := t
			if srcLeft {
				m.start = r.start
			} else {
				m.end = r.end
			}
			m.ver = maxu(r.ver, t.ver) + 1
			c.live[j] = m
			c.live = append(c.live[:i], c.live[i+1:]...)
			c.emit(m)
			c.name += fmt.Sprintf(";merge(r%d->r%d)", r.id, t.id)
			out = append(out, c)
		}
		// conf change
		{
			c := h.clone()
			n := r
			n.conf++
			n.npeers = 5 - r.npeers // 2 <-> 3
			c.live[i] = n
			c.emit(n)
			c.name += fmt.Sprintf(";conf(r%d)", r.id)
			out = append(out, c)
		}
		// leader change (new term)
		{
			c := h.clone()
			n := r
			n.term++
			n.leader = 3 - r.leader // 1 <-> 2
			c.live[i] = n
			c.emit(n)
			c.name += fmt.Sprintf(";leader(r%d)", r.id)
			out = append(out, c)
		}
	}
	return out
}

func maxu(a, b uint64) uint64 {
	if a > b {
		return a
	}
	return b
}

// histories enumerates all TiKV histories of exactly the given depth from both initial layouts,
// with and without reported terms.
func histories(depth int) []*thist { return historiesFrom(depth, false) }

// historiesFrom: three = start from three regions covering the key space (the right one
// unbounded), without reported terms: chains of merges into a neighbour need them.
func historiesFrom(depth int, three bool) []*thist {
	var all []*thist
	for _, terms := range []bool{true, false} {
		inits := []*thist{
			{name: "one", live: []snap{{id: 1, ver: 1, conf: 1, term: 5, leader: 1, npeers: 3}}, next: 10, terms: terms},
			{name: "two", live: []snap{{id: 1, end: "b", ver: 2, conf: 1, term: 5, leader: 1, npeers: 3}, {id: 2, start: "b", ver: 2, conf: 1, term: 5, leader: 2, npeers: 3}}, next: 10, terms: terms},
		}
		if three {
			if terms {
				continue
			}
			inits = []*thist{{name: "three", live: []snap{
				{id: 1, end: "a", ver: 3, conf: 1, term: 5, leader: 1, npeers: 3},
				{id: 2, start: "a", end: "b", ver: 3, conf: 1, term: 5, leader: 2, npeers: 3},
				{id: 3, start: "b", ver: 2, conf: 1, term: 5, leader: 1, npeers: 3}}, next: 10, terms: terms}}
		}
		for _, in := range inits {
			for _, s := range in.live {
				in.emit(s)
			}
			if !terms {
				in.name += "/noterm"
			}
			level := []*thist{in}
			for d := 0; d < depth; d++ {
				var nxt []*thist
				for _, h := range level {
					nxt = append(nxt, h.successors()...)
				}
				level = nxt
			}
			all = append(all, level...)
		}
	}
	// distinct alphabets only
	seen := map[string]bool{}
	var out []*thist
	for _, h := range all {
		l := make([]string, len(h.msgs))
		for i, m := range h.msgs {
			l[i] = m.String()
		}
		sort.Strings(l)
		k := strings.Join(l, "|")
		if !seen[k] {
			seen[k] = true
			out = append(out, h)
		}
	}
	return out
}

func mkRegion(s snap) *core.RegionInfo {
	meta := &metapb.Region{Id: s.id, StartKey: []byte(s.start), EndKey: []byte(s.end), RegionEpoch: &metapb.RegionEpoch{Version: s.ver, ConfVer: s.conf}}
	var leader *metapb.Peer
	for st := 1; st <= s.npeers; st++ {
		p := &metapb.Peer{Id: s.id*100 + uint64(st), StoreId: uint64(st)}
		meta.Peers = append(meta.Peers, p)
		if uint64(st) == s.leader {
			leader = p
		}
	}
	return core.RegionFromHeartbeat(&pdpb.RegionHeartbeatRequest{Region: meta, Leader: leader, Term: s.term, ApproximateSize: 10 << 20})
}

// ---- the real cluster + observation ----

// faultKV fails the saves of region records while failSave is set.
type faultKV struct {
	kv.Base
	failSave bool
	failed   bool
}

func (f *faultKV) Save(k, v string) error {
	if f.failSave && strings.Contains(k, "/r/") {
		f.failed = true
		return fmt.Errorf("injected save failure")
	}
	return f.Base.Save(k, v)
}

// withOperators: the cluster has a (not running) coordinator, heartbeats go through
// HandleRegionHeartbeat and every served region that can have one carries a transfer-leader operator.
var withOperators bool

type sys struct {
	oc      *schedule.OperatorController
	hbs     *hbstream.HeartbeatStreams
	flushed bool // active region storage: nothing is pending in the batch
	fk      *faultKV
	bc      *core.BasicCluster
	rc      *cluster.RaftCluster
	st      *core.Storage
	cancel  context.CancelFunc
	maxEp   map[uint64][3]uint64 // per id: highest served (ver, conf, term) seen so far
	keyVer  map[string]uint64    // per probe key: highest served version seen so far
}

// withIdleRegionStorage: the storage is built with a region storage (LevelDB) that is not
// switched on (use-region-storage=false): saves, loads and deletes all go to the default kv.

var rsSeq int

// activeRegionStorage: the region storage is switched on (what a PD leader does by default):
// region records are collected in a batch and written by a flush; the storage comparison then
// looks at the records right after a flush only (sys.flushed).
var activeRegionStorage bool

func newSys(withIdleRegionStorage bool) *sys {
	ctx, cancel := context.WithCancel(context.Background())
	fk := &faultKV{Base: kv.NewMemoryKV()}
	st := core.NewStorage(fk)
	if withIdleRegionStorage {
		rsSeq++
		dir := fmt.Sprintf("%s/verif-c06-%d-%d", tmpDir(), os.Getpid(), rsSeq)
		rs, err := core.NewRegionStorage(ctx, dir, nil)
		if err != nil {
			panic(err)
		}
		st = core.NewStorage(kv.NewMemoryKV(), core.WithRegionStorage(rs))
		if activeRegionStorage {
			st.SwitchToRegionStorage()
		}
		cancel0 := cancel
		cancel = func() { cancel0(); rs.Close(); os.RemoveAll(dir) }
	}
	rc := cluster.NewRaftCluster(ctx, "/pd/7/raft", 7, nil, nil, nil)
	bc := core.NewBasicCluster()
	opts := config.NewTestOptions()
	if withOperators {
		// the cluster has no rule manager (InitCluster only): operators are built without the rule fit
		r := opts.GetReplicationConfig().Clone()
		r.EnablePlacementRules = false
		opts.SetReplicationConfig(r)
	}
	rc.InitCluster(mockid.NewIDAllocator(), opts, st, bc)
	var oc *schedule.OperatorController
	var hbs *hbstream.HeartbeatStreams
	if withOperators {
		for id := uint64(1); id <= 5; id++ {
			bc.PutStore(core.NewStoreInfo(&metapb.Store{Id: id}, core.SetLastHeartbeatTS(time.Now())))
		}
		hbs = hbstream.NewTestHeartbeatStreams(ctx, 7, rc, false)
		oc = rc.VerifSetCoordinator(hbs)
	}
	return &sys{oc: oc, hbs: hbs, fk: fk, rc: rc, st: st, bc: bc, cancel: cancel, maxEp: map[uint64][3]uint64{}, keyVer: map[string]uint64{}}
}

func (s *sys) close() { s.cancel() }

// pending: the region ids waiting in the region storage's batch (hidden state of the active region storage).
func (s *sys) pending() string {
	if !activeRegionStorage {
		return ""
	}
	return fmt.Sprint(core.VerifPendingRegions(s.st))
}

func tmpDir() string {
	if fi, err := os.Stat("/dev/shm"); err == nil && fi.IsDir() {
		return "/dev/shm"
	}
	return os.TempDir()
}

func (s *sys) served() []*core.RegionInfo {
	l := s.rc.GetRegions()
	sort.Slice(l, func(i, j int) bool { return string(l[i].GetStartKey()) < string(l[j].GetStartKey()) })
	return l
}

func rstr(r *core.RegionInfo) string {
	return fmt.Sprintf("r%d[%q,%q)v%d.c%d.t%d.L%d.p%d", r.GetID(), r.GetStartKey(), r.GetEndKey(), r.GetRegionEpoch().GetVersion(), r.GetRegionEpoch().GetConfVer(), r.GetTerm(), r.GetLeader().GetStoreId(), len(r.GetPeers()))
}

func (s *sys) stored() []string {
	var l []string
	s.st.LoadRegions(func(r *core.RegionInfo) []*core.RegionInfo {
		l = append(l, fmt.Sprintf("r%d[%q,%q)v%d.c%d.p%d", r.GetID(), r.GetStartKey(), r.GetEndKey(), r.GetRegionEpoch().GetVersion(), r.GetRegionEpoch().GetConfVer(), len(r.GetPeers())))
		return nil
	})
	sort.Strings(l)
	return l
}

func (s *sys) digest() string {
	var l []string
	for _, r := range s.served() {
		l = append(l, rstr(r))
	}
	return strings.Join(l, " ") + " || " + strings.Join(s.stored(), " ")
}

func overlapR(a, b *core.RegionInfo) bool {
	as, ae, bs, be := string(a.GetStartKey()), string(a.GetEndKey()), string(b.GetStartKey()), string(b.GetEndKey())
	if ae != "" && ae <= bs {
		return false
	}
	if be != "" && be <= as {
		return false
	}
	return true
}

var probeKeys = []string{"", "0", "a", "a5", "b", "b5", "c", "c5"}

// observe evaluates the state invariants and updates the monotonicity trackers.
func (s *sys) observe(when string, sequential bool) *hist.Violation {
	return s.observeList(s.served(), when, sequential)
}

// sampleUnlocked is the observer of the concurrent scenarios (sched.OnPoint): it reads the
// region cache without its lock - only one harness thread runs at a time and a thread is
// never suspended in the middle of a cache update - at every scheduling point, so that no
// state of the cache goes unobserved (a key that is not served for a while starts afresh).
func (s *sys) sampleUnlocked(when string) *hist.Violation {
	if sched.FreeRunning {
		return nil // the unlocked read is only sound under the cooperative scheduler
	}
	l := s.bc.Regions.GetRegions()
	sort.Slice(l, func(i, j int) bool { return string(l[i].GetStartKey()) < string(l[j].GetStartKey()) })
	return s.observeList(l, when, false)
}

func (s *sys) observeList(l []*core.RegionInfo, when string, sequential bool) *hist.Violation {
	for i := 0; i+1 < len(l); i++ {
		if overlapR(l[i], l[i+1]) {
			return &hist.Violation{Key: "served-overlap", Msg: fmt.Sprintf("%s: served regions overlap: %s and %s", when, rstr(l[i]), rstr(l[i+1]))}
		}
	}
	// "never goes back" is evaluated while an id (a key) is continuously served: the cache
	// keeps no memory of displaced regions, and the statement's refusal rule is relative to
	// what is cached (see DESIGN.md, C06 oracle scoping).
	present := map[uint64]bool{}
	for _, r := range l {
		present[r.GetID()] = true
	}
	for id := range s.maxEp {
		if !present[id] {
			delete(s.maxEp, id)
		}
	}
	for _, r := range l {
		ep := [3]uint64{r.GetRegionEpoch().GetVersion(), r.GetRegionEpoch().GetConfVer(), r.GetTerm()}
		old := s.maxEp[r.GetID()]
		if ep[0] < old[0] || ep[1] < old[1] || (ep[2] != 0 && ep[2] < old[2]) {
			return &hist.Violation{Key: "epoch-regressed", Msg: fmt.Sprintf("%s: region %d is served as %s after (ver,conf,term)=%v had been served", when, r.GetID(), rstr(r), old)}
		}
		for i := range ep {
			if ep[i] > old[i] {
				old[i] = ep[i]
			}
		}
		s.maxEp[r.GetID()] = old
		if !sequential {
			continue // concurrent mode: one consistent snapshot only
		}
		if g := s.rc.GetRegion(r.GetID()); g == nil || rstr(g) != rstr(r) {
			return &hist.Violation{Key: "lookup-by-id", Msg: fmt.Sprintf("%s: GetRegion(%d) disagrees with GetRegions", when, r.GetID())}
		}
	}
	for _, k := range probeKeys {
		var want *core.RegionInfo
		for _, r := range l {
			if string(r.GetStartKey()) <= k && (len(r.GetEndKey()) == 0 || k < string(r.GetEndKey())) {
				want = r
			}
		}
		got := want
		if sequential {
			got = s.rc.GetRegionByKey([]byte(k))
		}
		if (got == nil) != (want == nil) || (got != nil && got.GetID() != want.GetID()) {
			return &hist.Violation{Key: "lookup-by-key", Msg: fmt.Sprintf("%s: GetRegionByKey(%q) disagrees with a linear scan", when, k)}
		}
		if got != nil {
			v := got.GetRegionEpoch().GetVersion()
			if v < s.keyVer[k] {
				return &hist.Violation{Key: "key-version-regressed", Msg: fmt.Sprintf("%s: key %q is served by %s after it had been served at version %d (a region older than one it overlapped was accepted)", when, k, rstr(got), s.keyVer[k])}
			}
			s.keyVer[k] = v
		} else {
			delete(s.keyVer, k)
		}
	}
	if !sequential {
		return nil
	}
	sc := s.rc.ScanRegions(nil, nil, 0)
	if len(sc) != len(l) {
		return &hist.Violation{Key: "scan", Msg: fmt.Sprintf("%s: ScanRegions returns %d regions, cache has %d", when, len(sc), len(l))}
	}
	if sequential && !s.fk.failed && (!activeRegionStorage || s.flushed) {
		// storage describes the same set (meta only); not after a failed save, which the heartbeat
		// path tolerates (the record is written again by a later heartbeat)
		var c []string
		for _, r := range l {
			c = append(c, fmt.Sprintf("r%d[%q,%q)v%d.c%d.p%d", r.GetID(), r.GetStartKey(), r.GetEndKey(), r.GetRegionEpoch().GetVersion(), r.GetRegionEpoch().GetConfVer(), len(r.GetPeers())))
		}
		sort.Strings(c)
		if st := s.stored(); strings.Join(st, " ") != strings.Join(c, " ") {
			return &hist.Violation{Key: "storage-differs", Msg: fmt.Sprintf("%s: storage holds %v but the cache serves %v", when, st, c)}
		}
	}
	return nil
}

// staleByStatement decides from the statement whether msg must be refused in the current cache.
func (s *sys) staleByStatement(m *core.RegionInfo) (bool, string) {
	for _, r := range s.served() {
		if r.GetID() == m.GetID() {
			re, me := r.GetRegionEpoch(), m.GetRegionEpoch()
			if me.GetVersion() < re.GetVersion() || me.GetConfVer() < re.GetConfVer() || (m.GetTerm() > 0 && m.GetTerm() < r.GetTerm()) {
				return true, "staler than the cached region of the same id " + rstr(r)
			}
		}
	}
	for _, r := range s.served() {
		if r.GetID() != m.GetID() && overlapR(r, m) && m.GetRegionEpoch().GetVersion() < r.GetRegionEpoch().GetVersion() {
			return true, "older in version than the overlapping cached region " + rstr(r)
		}
	}
	return false, ""
}

func (s *sys) deliver(sn snap, sequential bool) *hist.Violation {
	m := mkRegion(sn)
	stale, why := s.staleByStatement(m)
	before := s.digest()
	var displaced []*core.RegionInfo
	for _, r := range s.served() {
		if r.GetID() != m.GetID() && overlapR(r, m) {
			displaced = append(displaced, r)
		}
	}
	err := s.rc.VerifProcessRegionHeartbeat(m)
	if sequential && stale {
		if err == nil {
			return &hist.Violation{Key: "stale-accepted", Msg: fmt.Sprintf("heartbeat %s is %s but was answered without error", sn, why)}
		}
		if after := s.digest(); after != before {
			return &hist.Violation{Key: "stale-changed-state", Msg: fmt.Sprintf("refused heartbeat %s changed the state:\n  before %s\n  after  %s", sn, before, after)}
		}
	}
	if sequential && err == nil {
		for _, d := range displaced {
			if s.rc.GetRegion(d.GetID()) != nil {
				return &hist.Violation{Key: "displaced-still-cached", Msg: fmt.Sprintf("after accepting %s the displaced region %s is still served", sn, rstr(d))}
			}
			var x metapb.Region
			if ok, _ := s.st.LoadRegion(d.GetID(), &x); ok {
				return &hist.Violation{Key: "displaced-still-stored", Msg: fmt.Sprintf("after accepting %s the displaced region %s is still in storage", sn, rstr(d))}
			}
		}
	}
	return s.observe("after "+sn.String(), sequential)
}

var curStepRe = regexp.MustCompile(`currentStep:(\d+)`)

// opDigest: the operators of the controller (region, status, current step, steps).
func (s *sys) opDigest() string {
	var l []string
	for _, op := range s.oc.GetOperators() {
		var steps []string
		for i := 0; i < op.Len(); i++ {
			steps = append(steps, op.Step(i).String())
		}
		l = append(l, fmt.Sprintf("r%d:%s:step%s:%s", op.RegionID(), operator.OpStatusToString(op.Status()), curStepRe.FindStringSubmatch(op.String())[1], strings.Join(steps, ";")))
	}
	sort.Strings(l)
	return strings.Join(l, " ")
}

// deliverWithOperator: the heartbeat goes through HandleRegionHeartbeat (cache, then the region's
// operator). A refused heartbeat changes nothing: neither cache nor storage, nor the operators, and
// no command is sent for it.
func (s *sys) deliverWithOperator(sn snap) *hist.Violation {
	m := mkRegion(sn)
	stale, why := s.staleByStatement(m)
	before, opsBefore := s.digest(), s.opDigest()
	s.hbs.VerifDrain()
	err := s.rc.HandleRegionHeartbeat(m)
	sent := s.hbs.VerifDrain()
	if stale {
		if err == nil {
			return &hist.Violation{Key: "stale-accepted", Msg: fmt.Sprintf("heartbeat %s is %s but was answered without error", sn, why)}
		}
		if after, opsAfter := s.digest(), s.opDigest(); after != before || opsAfter != opsBefore || len(sent) > 0 {
			return &hist.Violation{Key: "stale-changed-state", Msg: fmt.Sprintf("refused heartbeat %s (%s) changed the state or drove an operator (%d commands sent):\n  before %s || %s\n  after  %s || %s", sn, why, len(sent), before, opsBefore, after, opsAfter)}
		}
	}
	if err == nil {
		if c := s.rc.GetRegion(m.GetID()); c != nil && s.oc.GetOperator(c.GetID()) == nil && c.GetLeader() != nil && len(c.GetVoters()) >= 2 {
			for _, p := range c.GetVoters() {
				if p.GetStoreId() != c.GetLeader().GetStoreId() {
					if op, e := operator.CreateTransferLeaderOperator("verif", s.rc, c, c.GetLeader().GetStoreId(), p.GetStoreId(), operator.OpLeader); e == nil {
						s.oc.AddOperator(op)
						s.hbs.VerifDrain()
					}
					break
				}
			}
		}
	}
	return s.observe("after "+sn.String(), true)
}

// cacheDigest is what the comparison with the one-at-a-time orders looks at: id, range, version,
// conf version and peer count of every served region. Leader and raft term are left out, and so
// are the accept / refuse answers: processRegionHeartbeat decides what has changed against a
// snapshot taken under the read lock and re-validates only staleness under the write lock, so a
// heartbeat that differs from the cached region in its term only may or may not refresh the
// cache depending on what it saw, and later same-epoch heartbeats are then refused or accepted
// accordingly. Ranges and versions do not depend on that (staleness between different regions
// is decided by the version alone), so the (range, version) content of the final cache is the
// one of some one-at-a-time order; terms and epochs going *back* are caught by the monotonicity
// trackers, which observe one consistent snapshot after every heartbeat.
func (s *sys) cacheDigest() string {
	var l []string
	for _, r := range s.served() {
		l = append(l, fmt.Sprintf("r%d[%q,%q)v%d.c%d.p%d", r.GetID(), r.GetStartKey(), r.GetEndKey(), r.GetRegionEpoch().GetVersion(), r.GetRegionEpoch().GetConfVer(), len(r.GetPeers())))
	}
	return strings.Join(l, " ")
}

// observeSnapshot: invariants that one consistent snapshot of the cache can decide.
func (s *sys) observeSnapshot(when string) *hist.Violation {
	l := s.served()
	for i := 0; i+1 < len(l); i++ {
		if overlapR(l[i], l[i+1]) {
			return &hist.Violation{Key: "served-overlap", Msg: fmt.Sprintf("%s: served regions overlap: %s and %s", when, rstr(l[i]), rstr(l[i+1]))}
		}
	}
	return nil
}

// sequentialOutcomes runs every one-at-a-time order of the streams' heartbeats (keeping each
// stream's own order) on fresh instances of the real code and returns the set of outcomes.
func sequentialOutcomes(streams [][]snap) map[string]bool {
	out := map[string]bool{}
	idx := make([]int, len(streams))
	var order []int
	total := 0
	for _, st := range streams {
		total += len(st)
	}
	var rec func()
	rec = func() {
		if len(order) == total {
			s := newSys(false)
			res := make([][]bool, len(streams))
			for _, st := range order {
				sn := streams[st][len(res[st])]
				err := s.rc.VerifProcessRegionHeartbeat(mkRegion(sn))
				res[st] = append(res[st], err == nil)
			}
			_ = res
			out[s.cacheDigest()] = true
			s.close()
			return
		}
		for st := range streams {
			if idx[st] < len(streams[st]) {
				idx[st]++
				order = append(order, st)
				rec()
				order = order[:len(order)-1]
				idx[st]--
			}
		}
	}
	rec()
	return out
}

// ---- engine B model ----

type model struct {
	idle   bool // storage with a region storage that is not switched on
	ops    bool // heartbeats through HandleRegionHeartbeat, operators on the served regions
	rs     bool // region storage switched on, plus a flush operation
	faults bool // every heartbeat also in a variant whose region save fails; pd logs to a discarding debug-level logger
	hs     []*thist
	maxA   int
	cur    int
	s      *sys
	trail  []string
}

func newModel(depth int) *model { return newModelFrom(depth, false) }

func newModelFrom(depth int, three bool) *model {
	m := &model{hs: historiesFrom(depth, three), cur: -1}
	for _, h := range m.hs {
		if len(h.msgs) > m.maxA {
			m.maxA = len(h.msgs)
		}
	}
	return m
}

func (m *model) NumOps() int {
	a := m.maxA
	if m.faults {
		a *= 2
	}
	if m.rs {
		a++ // the flush
	}
	if len(m.hs) > a {
		return len(m.hs)
	}
	return a
}

// msgOf: the heartbeat of operation op and whether its save fails.
func (m *model) msgOf(msgs []snap, op int) (int, bool, bool) {
	if op < len(msgs) {
		return op, false, true
	}
	if m.faults && op >= m.maxA && op-m.maxA < len(msgs) {
		return op - m.maxA, true, true
	}
	return 0, false, false
}

var discardLogger = func() *zap.Logger {
	enc := zapcore.NewJSONEncoder(zap.NewProductionEncoderConfig())
	return zap.New(zapcore.NewCore(enc, zapcore.AddSync(io.Discard), zapcore.DebugLevel))
}()

func (m *model) Reset() {
	if m.s != nil {
		m.s.close()
	}
	activeRegionStorage = m.rs
	withOperators = m.ops
	if m.faults {
		// every log line is formatted (and thrown away), as with a debug-level log file
		log.ReplaceGlobals(discardLogger, &log.ZapProperties{})
	}
	m.s = newSys(m.idle || m.rs)
	m.cur = -1
}
func (m *model) Enabled(op int) bool {
	if m.cur < 0 {
		return op < len(m.hs)
	}
	_, _, ok := m.msgOf(m.hs[m.cur].msgs, op)
	return ok || (m.rs && op == m.maxA)
}

// Possible implements hist.Prefilter.
func (m *model) Possible(h []int, op int) bool {
	if len(h) == 0 {
		return op < len(m.hs)
	}
	_, _, ok := m.msgOf(m.hs[h[0]].msgs, op)
	return ok || (m.rs && op == m.maxA)
}

func (m *model) OpName(op int) string {
	if m.cur < 0 {
		if op < len(m.hs) {
			return "history{" + m.hs[op].name + "}"
		}
		return fmt.Sprintf("history#%d", op)
	}
	if m.rs && op == m.maxA {
		return "the region storage flushes its batch"
	}
	if i, f, ok := m.msgOf(m.hs[m.cur].msgs, op); ok {
		if f {
			return "hb " + m.hs[m.cur].msgs[i].String() + " [region save fails]"
		}
		return "hb " + m.hs[m.cur].msgs[i].String()
	}
	return fmt.Sprintf("hb#%d", op)
}
func (m *model) Apply(op int) *hist.Violation {
	if m.cur < 0 {
		m.cur = op
		return nil
	}
	if m.rs && op == m.maxA {
		if err := m.s.st.Flush(); err != nil {
			panic(err)
		}
		m.s.flushed = true
		return m.s.observe("after a flush", true)
	}
	m.s.flushed = false
	i, f, _ := m.msgOf(m.hs[m.cur].msgs, op)
	m.s.fk.failSave = f
	defer func() { m.s.fk.failSave = false }()
	if m.ops {
		return m.s.deliverWithOperator(m.hs[m.cur].msgs[i])
	}
	return m.s.deliver(m.hs[m.cur].msgs[i], true)
}
func (m *model) Key() string {
	// the monotonicity trackers are part of the state: two histories that served different
	// maxima must not be merged
	return fmt.Sprintf("%d|%s|%v|%v|%v", m.cur, m.s.digest(), m.s.maxEp, m.s.keyVer, m.s.fk.failed) + m.s.pending() + m.opKey()
}

func (m *model) opKey() string {
	if !m.ops {
		return ""
	}
	return "|" + m.s.opDigest()
}

// ---- engine A: concurrent streams ----

func concurrent(name string, hdepth, nstreams, per, pre int, tiers string, pick func(i int, n int) bool) []*explore.Scenario {
	var out []*explore.Scenario
	hs := histories(hdepth)
	for hi, h := range hs {
		if !pick(hi, len(hs)) {
			continue
		}
		h := h
		// every assignment of `per` messages to each of the streams would be huge; streams get
		// consecutive windows of the alphabet in every rotation
		for rot := 0; rot < len(h.msgs); rot++ {
			rot := rot
			if len(h.msgs) < nstreams*per {
				continue
			}
			var allowed map[string]bool
			streams := make([][]snap, nstreams)
			for st := 0; st < nstreams; st++ {
				for k := 0; k < per; k++ {
					streams[st] = append(streams[st], h.msgs[(rot+st*per+k)%len(h.msgs)])
				}
			}
			out = append(out, &explore.Scenario{Name: fmt.Sprintf("%s/h%d/rot%d", name, hi, rot), MaxPre: pre, Tiers: tiers, Setup: func() *explore.Instance {
				if allowed == nil {
					allowed = sequentialOutcomes(streams)
				}
				s := newSys(false)
				var bad *hist.Violation
				sched.OnPoint = func(t *sched.Thread) {
					if bad == nil {
						bad = s.sampleUnlocked("while thread " + t.Name + " was running")
					}
				}
				results := make([][]bool, nstreams)
				var names []string
				var th []func()
				for st := 0; st < nstreams; st++ {
					st := st
					names = append(names, fmt.Sprintf("stream%d", st))
					th = append(th, func() {
						for _, sn := range streams[st] {
							err := s.rc.VerifProcessRegionHeartbeat(mkRegion(sn))
							results[st] = append(results[st], err == nil)
							if v := s.sampleUnlocked("after " + sn.String()); v != nil && bad == nil {
								bad = v
							}
						}
					})
				}
				return &explore.Instance{Names: names, Threads: th, Check: func(r *sched.Run) (string, *explore.Violation) {
					defer s.close()
					sched.OnPoint = nil
					if bad == nil {
						bad = s.sampleUnlocked("at the end")
					}
					if bad != nil {
						return "", &explore.Violation{Key: bad.Key, Msg: "history {" + h.name + "}: " + bad.Msg}
					}
					got := s.cacheDigest()
					if !allowed[got] {
						var l []string
						for k := range allowed {
							l = append(l, k)
						}
						sort.Strings(l)
						return "", &explore.Violation{Key: "final-cache-not-sequential", Msg: fmt.Sprintf("history {%s}, streams %v, answers %v: the regions served at the end\n    %s\n  are not what any one-at-a-time order of the same heartbeats leaves behind:\n    %s", h.name, streams, results, got, strings.Join(l, "\n    "))}
					}
					return fmt.Sprintf("%s | accepted=%v", got, results), nil
				}}
			}})
		}
	}
	return out
}

// flushRace: one stream of heartbeats (a window of three snapshots of a history) against a real,
// switched-on region storage while a second thread flushes the storage's batch twice (the background
// flusher and a full batch do the same at arbitrary moments). At the end, after a last flush, the
// stored records must describe exactly the served regions.
func flushRace(name string, hdepth, pre int, tiers string, pick func(i int) bool) []*explore.Scenario {
	var out []*explore.Scenario
	for hi, h := range histories(hdepth) {
		if !pick(hi) || len(h.msgs) < 3 {
			continue
		}
		h := h
		for rot := 0; rot < len(h.msgs); rot++ {
			rot := rot
			out = append(out, &explore.Scenario{Name: fmt.Sprintf("%s/h%d/rot%d", name, hi, rot), MaxPre: pre, Tiers: tiers, Setup: func() *explore.Instance {
				activeRegionStorage = true
				s := newSys(true)
				activeRegionStorage = false
				return &explore.Instance{Names: []string{"stream", "flusher"}, Threads: []func(){
					func() {
						for k := 0; k < 3; k++ {
							_ = s.rc.VerifProcessRegionHeartbeat(mkRegion(h.msgs[(rot+k)%len(h.msgs)]))
						}
					},
					func() {
						for k := 0; k < 2; k++ {
							if err := s.st.Flush(); err != nil {
								panic(err)
							}
						}
					},
				}, Check: func(r *sched.Run) (string, *explore.Violation) {
					defer s.close()
					if err := s.st.Flush(); err != nil {
						panic(err)
					}
					cl := strings.Split(s.cacheDigest(), " ")
					sort.Strings(cl)
					st, c := strings.Join(s.stored(), " "), strings.Join(cl, " ")
					if st != c {
						return "", &explore.Violation{Key: "storage-differs", Msg: fmt.Sprintf("history {%s}, heartbeats from #%d one at a time while the region storage flushes: storage holds\n    %s\n  but the cache serves\n    %s", h.name, rot, st, c)}
					}
					return c, nil
				}}
			}})
		}
	}
	return out
}

func main() {
	var scen []*explore.Scenario
	scen = append(scen, concurrent("2x1", 2, 2, 1, 2, "quick", func(i, n int) bool { return i%12 == 0 })...)
	scen = append(scen, concurrent("2x2", 2, 2, 2, 2, "quick", func(i, n int) bool { return i%24 == 3 })...)
	scen = append(scen, flushRace("flush-race", 2, 2, "quick", func(i int) bool { return i%6 == 1 })...)
	scen = append(scen, flushRace("flush-race/all", 2, 2, "thorough", func(i int) bool { return i%6 != 1 })...)
	scen = append(scen, concurrent("2x1/all", 2, 2, 1, 2, "thorough", func(i, n int) bool { return true })...)
	scen = append(scen, concurrent("2x2@3", 2, 2, 2, 3, "thorough", func(i, n int) bool { return i%2 == 0 })...)
	scen = append(scen, concurrent("3x1@3", 3, 3, 1, 3, "thorough", func(i, n int) bool { return i%9 == 0 })...)
	explore.Main(&explore.Config{
		Property:  "C06",
		Scenarios: scen,
		HistScopes: []*hist.Scope{
			{Name: "deliver/h2/len3", Tiers: "quick", Depth: 4, NewModel: func() hist.Model { return newModel(2) }},
			{Name: "deliver/three/h2/len4", Tiers: "quick", Depth: 5, NewModel: func() hist.Model { return newModelFrom(2, true) }},
			{Name: "deliver/h1/len4/idle-region-storage", Tiers: "quick", Depth: 5, NewModel: func() hist.Model { m := newModel(1); m.idle = true; return m }},
			{Name: "deliver/h1/len3/save-faults+logging", Tiers: "quick", Depth: 4, NewModel: func() hist.Model { m := newModel(1); m.faults = true; return m }},
			{Name: "deliver/h1/len4/region-storage+flushes", Tiers: "quick", Depth: 5, NewModel: func() hist.Model { m := newModel(1); m.rs = true; return m }},
			{Name: "deliver/three/h2/len4/region-storage+flushes", Tiers: "quick", Depth: 6, NewModel: func() hist.Model { m := newModelFrom(2, true); m.rs = true; return m }},
			{Name: "deliver/h2/len3/operators", Tiers: "quick", Depth: 4, NewModel: func() hist.Model { m := newModel(2); m.ops = true; return m }},
			{Name: "deliver/h1/len5", Tiers: "quick", Depth: 6, NewModel: func() hist.Model { return newModel(1) }},
			{Name: "deliver/h3/len4", Tiers: "thorough", Depth: 5, NewModel: func() hist.Model { return newModel(3) }},
			{Name: "deliver/h2/len4/save-faults+logging", Tiers: "thorough", Depth: 5, NewModel: func() hist.Model { m := newModel(2); m.faults = true; return m }},
			{Name: "deliver/h2/len5/region-storage+flushes", Tiers: "thorough", Depth: 6, NewModel: func() hist.Model { m := newModel(2); m.rs = true; return m }},
			{Name: "deliver/h3/len4/operators", Tiers: "thorough", Depth: 5, NewModel: func() hist.Model { m := newModel(3); m.ops = true; return m }},
			{Name: "deliver/h2/len6", Tiers: "thorough", Depth: 7, NewModel: func() hist.Model { return newModel(2) }},
		},
		Rule: "TiKV histories (split/merge/conf-change/leader-change from 1-2 initial regions over 3 key points, with and without reported terms) are enumerated; engine B delivers every sequence with duplicates of a history's region snapshots to the real processRegionHeartbeat (first op = choice of history), engine A delivers windows of the alphabet from concurrent streams under every schedule",
		Assumptions: []string{
			"RaftCluster built with NewRaftCluster + InitCluster over core.Storage(mem kv); verif hook exports processRegionHeartbeat",
			"hot-statistics workers are not scheduled by the explorer (they do not touch what the oracle reads)",
			"concurrent oracle: invariants observed after every heartbeat return and at the end (per-id epoch and per-key version never decrease, no overlap, lookups agree)",
		},
	})
}
