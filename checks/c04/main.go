// Check C04: allocated ids are unique forever.
//
// Real code driven: server/id.allocatorImpl (Alloc, Rebase) of 2-3 instances on
// one fake etcd, with leader-record switches, storage faults and crash/restart.
package main

import (
	"github.com/pingcap/kvproto/pkg/metapb"
	"github.com/gogo/protobuf/proto"
	"context"
	"fmt"
	"sort"
	"strings"

	"github.com/pingcap/kvproto/pkg/pdpb"
	"github.com/tikv/pd/pkg/verifshim/vclock"
	"github.com/tikv/pd/server/config"
	"verif/checks/srvh"

	"github.com/tikv/pd/pkg/typeutil"
	"github.com/tikv/pd/pkg/verifshim/sched"
	"github.com/tikv/pd/server/id"
	"verif/engine/explore"
	"verif/engine/fakeetcd"
)

const root = "/pd/7"
const leaderKey = root + "/leader"
const allocKey = root + "/alloc_id"

type rec struct {
	thread  int
	inst    string
	id      uint64
	stored  uint64
	seq     int
	errText string
}

type world struct {
	st      *fakeetcd.Store
	recs    []rec
	seq     int
	curInst map[int]string // thread -> member of the allocator it is calling
	bad     []string
	ranges  [][2]uint64 // ids handed out inside a drain (checked for collisions too)
}

func stored(st *fakeetcd.Store) uint64 {
	v, ok := st.Get(allocKey)
	if !ok {
		return 0
	}
	u, _ := typeutil.BytesToUint64([]byte(v))
	return u
}

func newWorld(faults bool) *world {
	w := &world{st: fakeetcd.New(), curInst: map[int]string{}}
	w.st.PutDirect(leaderKey, "a")
	w.st.FaultWrites = faults
	w.st.OnCommit = func(evs []fakeetcd.Event) {
		for _, e := range evs {
			if e.Key != allocKey {
				continue
			}
			t := sched.Cur()
			if t == nil {
				continue
			}
			m := w.curInst[t.ID]
			// the leader record at the commit instant must be the writer's member
			// (store is locked here; read through the event log: last value of leaderKey)
			ld := ""
			for i := len(w.st.Log) - 1; i >= 0; i-- {
				if w.st.Log[i].Key == leaderKey {
					if !w.st.Log[i].Delete {
						ld = w.st.Log[i].Value
					}
					break
				}
			}
			if ld == "" && !w.leaderEverChanged() {
				ld = "a"
			}
			if ld != m {
				w.bad = append(w.bad, fmt.Sprintf("window written by member %q while the leader record is %q", m, ld))
			}
		}
	}
	return w
}

func (w *world) leaderEverChanged() bool {
	for _, e := range w.st.Log {
		if e.Key == leaderKey {
			return true
		}
	}
	return false
}

// curThread: the harness thread (a placeholder in the free-running race pass, which evaluates no oracle).
func curThread() *sched.Thread {
	if t := sched.Cur(); t != nil {
		return t
	}
	return &sched.Thread{}
}

func (w *world) alloc(member string, a id.Allocator) {
	if sched.FreeRunning { // race pass: the operation alone, no bookkeeping
		_, _ = a.Alloc()
		return
	}
	t := curThread()
	w.curInst[t.ID] = member
	before := stored(w.st)
	v, err := a.Alloc()
	r := rec{thread: t.ID, inst: member, id: v, stored: stored(w.st), seq: w.seq}
	w.seq++
	if err != nil {
		r.errText = err.Error()
		_ = before
	}
	w.recs = append(w.recs, r)
}

func (w *world) rebase(member string, a id.Allocator) {
	if sched.FreeRunning {
		_ = a.Rebase()
		return
	}
	t := curThread()
	w.curInst[t.ID] = member
	before := stored(w.st)
	n := len(w.st.Log)
	err := a.Rebase()
	after := stored(w.st)
	if err != nil && after != before {
		// a failed rebase may have been applied with the reply lost (fault) – then a
		// commit by this thread is in the log; otherwise somebody else moved it.
		mine := false
		for _, e := range w.st.Log[n:] {
			if e.Key == allocKey && e.Who == t.Name {
				mine = true
			}
		}
		if mine && !w.st.FaultWrites {
			w.bad = append(w.bad, "failed Rebase changed the stored window")
		}
	}
}

// drain uses up the rest of the in-memory window as one macro step: n raw Alloc
// calls without scheduling points, checked inline (strictly +1, never above the
// stored bound) and recorded as first/last only. It stops at the first error.
func (w *world) drain(member string, a id.Allocator, n int) {
	if sched.FreeRunning {
		for i := 0; i < n; i++ {
			if _, err := a.Alloc(); err != nil {
				return
			}
		}
		return
	}
	t := curThread()
	w.curInst[t.ID] = member
	sched.Atomic(func() {
		var prev uint64
		for i := 0; i < n; i++ {
			v, err := a.Alloc()
			if err != nil {
				return
			}
			st := stored(w.st)
			if i == 0 || i == n-1 || v != prev+1 || v > st {
				w.recs = append(w.recs, rec{thread: t.ID, inst: member, id: v, stored: st, seq: w.seq})
				w.seq++
			} else {
				w.ranges = append(w.ranges, [2]uint64{v, v})
			}
			prev = v
		}
	})
}

func (w *world) setLeader(m string) {
	sched.PointAt(sched.KUser, "leader:="+m)
	if m == "" {
		w.st.DeleteDirect(leaderKey)
	} else {
		w.st.PutDirect(leaderKey, m)
		w.st.Log = append(w.st.Log, fakeetcd.Event{Key: leaderKey, Value: m})
	}
}

func (w *world) check(r *sched.Run) (string, *explore.Violation) {
	if len(w.bad) > 0 {
		return "", &explore.Violation{Key: "guard", Msg: strings.Join(w.bad, "; ")}
	}
	seen := map[uint64]rec{}
	last := map[string]uint64{} // per (instance object, thread) monotone
	var ok []string
	for _, x := range w.recs {
		if x.errText != "" {
			continue
		}
		if o, dup := seen[x.id]; dup {
			return "", &explore.Violation{Key: "duplicate-id", Msg: fmt.Sprintf("id %d returned twice: by %s(thread %d) and %s(thread %d)", x.id, o.inst, o.thread, x.inst, x.thread)}
		}
		seen[x.id] = x
		if x.id > x.stored {
			return "", &explore.Violation{Key: "id-above-stored-window", Msg: fmt.Sprintf("id %d returned by %s while stored window bound is %d", x.id, x.inst, x.stored)}
		}
		k := fmt.Sprintf("%s/%d", x.inst, x.thread)
		if x.id <= last[k] {
			return "", &explore.Violation{Key: "not-increasing", Msg: fmt.Sprintf("instance %s thread %d got %d after %d", x.inst, x.thread, x.id, last[k])}
		}
		last[k] = x.id
		ok = append(ok, fmt.Sprintf("%s:%d", x.inst, x.id))
	}
	for _, rg := range w.ranges {
		if o, dup := seen[rg[0]]; dup {
			return "", &explore.Violation{Key: "duplicate-id", Msg: fmt.Sprintf("id %d returned twice (once inside a drain, once by %s thread %d)", rg[0], o.inst, o.thread)}
		}
		seen[rg[0]] = rec{inst: "drain"}
	}
	sort.Strings(ok)
	if len(ok) > 6 {
		ok = append(ok[:3], fmt.Sprintf("..%d..", len(ok)-4), ok[len(ok)-1])
	}
	return fmt.Sprintf("%s|stored=%d", strings.Join(ok, ","), stored(w.st)), nil
}

func scenarios() []*explore.Scenario {
	var l []*explore.Scenario
	// S1: one instance shared by two threads + a second member that campaigns in between.
	noFunc := uint32(1<<(sched.KFunc+1)-1) &^ uint32(1<<sched.KFunc)
	mk := func(name string, faults bool, pre, dev int, tiers string, build func(w *world) ([]string, []func())) {
		kinds := noFunc
		if strings.HasPrefix(name, "fn/") {
			kinds = 0 // function entries of server/id, server/kv, pkg/typeutil, pkg/etcdutil are scheduling points too
		}
		l = append(l, &explore.Scenario{Name: name, MaxPre: pre, MaxDev: dev, Tiers: tiers, Opts: sched.Options{Kinds: kinds}, Setup: func() *explore.Instance {
			w := newWorld(faults)
			names, th := build(w)
			return &explore.Instance{Names: names, Threads: th, Check: w.check}
		}})
	}
	shared := func(w *world) ([]string, []func()) {
		cl := w.st.Client()
		a := id.NewAllocator(cl, root, "a")
		b := id.NewAllocator(cl, root, "b")
		return []string{"a1", "a2", "b", "env"}, []func(){
			func() { w.alloc("a", a); w.alloc("a", a) },
			func() { w.alloc("a", a) },
			func() { w.rebase("b", b); w.alloc("b", b); w.alloc("b", b) },
			func() { w.setLeader("b") },
		}
	}
	mk("shared+switch", false, 2, 0, "quick", shared)
	mk("shared+switch/faults", true, 2, 1, "quick", shared)
	mk("shared+switch@3", false, 3, 0, "thorough", shared)
	mk("shared+switch/faults@3", true, 3, 2, "thorough", shared)
	// S2: crash/restart: a serves, is dropped, a' (same member) rebases and serves while
	// the old object may still answer (zombie), leader moves to b and back.
	restart := func(w *world) ([]string, []func()) {
		cl := w.st.Client()
		a := id.NewAllocator(cl, root, "a")
		return []string{"a", "a'", "b", "env"}, []func(){
			func() { w.alloc("a", a); w.drain("a", a, 999); w.alloc("a", a) },
			func() {
				a2 := id.NewAllocator(cl, root, "a")
				w.rebase("a", a2)
				w.alloc("a", a2)
				w.alloc("a", a2)
			},
			func() {
				b := id.NewAllocator(cl, root, "b")
				w.rebase("b", b)
				w.alloc("b", b)
				w.drain("b", b, 999)
				w.alloc("b", b)
			},
			func() { w.setLeader("b"); w.setLeader("a") },
		}
	}
	mk("restart+zombie", false, 2, 0, "quick", restart)
	mk("restart+zombie/faults", true, 1, 1, "quick", restart)
	mk("restart+zombie@3", false, 3, 0, "thorough", restart)
	mk("restart+zombie/faults@2", true, 2, 2, "thorough", restart)
	// S2b: leadership goes a -> b -> a while a's allocator object stays alive with a
	// partly used window; every newly elected leader rebases before serving.
	flipflop := func(w *world) ([]string, []func()) {
		cl := w.st.Client()
		a := id.NewAllocator(cl, root, "a")
		b := id.NewAllocator(cl, root, "b")
		return []string{"a", "b", "env"}, []func(){
			func() { w.alloc("a", a); w.rebase("a", a); w.drain("a", a, 1001); w.alloc("a", a) },
			func() { w.rebase("b", b); w.alloc("b", b); w.alloc("b", b) },
			func() { w.setLeader("b"); w.setLeader("a") },
		}
	}
	mk("flip-flop", false, 2, 0, "quick", flipflop)
	mk("flip-flop/faults", true, 2, 1, "quick", flipflop)
	mk("flip-flop@3", true, 3, 2, "thorough", flipflop)
	// S2c: exactly one id of the window is left and several requests race for it on one
	// allocator object; afterwards the process restarts (new object, same member)
	lastID := func(w *world) ([]string, []func()) {
		cl := w.st.Client()
		a := id.NewAllocator(cl, root, "a")
		return []string{"a1", "a2", "a3", "a'"}, []func(){
			func() { w.alloc("a", a); w.drain("a", a, 998); w.alloc("a", a); w.alloc("a", a) },
			func() { w.alloc("a", a) },
			func() { w.alloc("a", a); w.alloc("a", a) },
			func() {
				a2 := id.NewAllocator(cl, root, "a")
				w.alloc("a", a2)
				w.alloc("a", a2)
			},
		}
	}
	mk("last-id-race+restart", false, 2, 0, "quick", lastID)
	mk("last-id-race+restart@3", true, 3, 1, "thorough", lastID)
	// S2d: two allocators of one process that share nothing but code (another cluster root in
	// the same store): interleaved at function-call granularity, for state that is shared
	// without any lock (a package-level scratch buffer in a helper, say)
	twoRoots := func(w *world) ([]string, []func()) {
		cl := w.st.Client()
		a := id.NewAllocator(cl, root, "a")
		w.st.PutDirect("/pd/8/leader", "a")
		other := id.NewAllocator(cl, "/pd/8", "a")
		return []string{"a", "other-root"}, []func(){
			func() { w.alloc("a", a); w.drain("a", a, 999); w.alloc("a", a); w.alloc("a", a) },
			func() {
				sched.SetMember(0)
				for i := 0; i < 2; i++ {
					_, _ = other.Alloc()
					_ = other.Rebase()
				}
			},
		}
	}
	// S2e: the same cluster root spelled with and without a trailing slash (the leader path is
	// normalised by path.Join; the window key must be as well, or the two spellings count separately)
	spelling := func(w *world) ([]string, []func()) {
		cl := w.st.Client()
		a := id.NewAllocator(cl, root, "a")
		a2 := id.NewAllocator(cl, root+"/", "a")
		return []string{"a", "a/"}, []func(){
			func() { w.alloc("a", a); w.alloc("a", a) },
			func() { w.alloc("a", a2); w.alloc("a", a2) },
		}
	}
	mk("root-spelling", false, 1, 0, "", spelling)
	mk("fn/two-roots", false, 2, 0, "quick", twoRoots)
	mk("fn/two-roots@3", false, 3, 0, "thorough", twoRoots)
	// S3: three members, leader record absent for a while.
	three := func(w *world) ([]string, []func()) {
		cl := w.st.Client()
		return []string{"a", "b", "c", "env"}, []func(){
			func() { a := id.NewAllocator(cl, root, "a"); w.alloc("a", a); w.rebase("a", a); w.alloc("a", a) },
			func() { b := id.NewAllocator(cl, root, "b"); w.alloc("b", b); w.alloc("b", b) },
			func() { c := id.NewAllocator(cl, root, "c"); w.rebase("c", c); w.alloc("c", c) },
			func() { w.setLeader(""); w.setLeader("b"); w.setLeader("c") },
		}
	}
	mk("three-members", false, 2, 0, "quick", three)
	mk("three-members@3", true, 3, 1, "thorough", three)
	return l
}

// handlers: the id-consuming gRPC handlers of a real bootstrapped Server (AllocID, AskSplit,
// AskBatchSplit) run concurrently; every id handed out by any of them must be distinct and
// not above the stored window.
func handlers(name string, pre int, tiers string) *explore.Scenario {
	return handlersF(name, pre, 0, tiers)
}

// handlersF: dev > 0 = storage writes may fail (at most dev of them) while the handlers run; the
// split request then names three peers, so that a failing window extension can fall between
// two of the ids one request hands out.
func handlersF(name string, pre, dev int, tiers string) *explore.Scenario {
	return &explore.Scenario{Name: name, MaxPre: pre, MaxDev: dev, Tiers: tiers,
		Opts: sched.Options{Kinds: uint32(1<<sched.KLock | 1<<sched.KEtcd | 1<<sched.KUser | 1<<sched.KWait | 1<<sched.KStart | 1<<sched.KYield)},
		Setup: func() *explore.Instance {
			vclock.Enable(vclock.Epoch)
			st := fakeetcd.New()
			srvh.SeedClusterID(st)
			s, err := srvh.New(st, 1, func(c *config.Config) { c.LeaderLease = 1000000 })
			if err != nil {
				panic(err)
			}
			if err := s.VerifBecomeLeader(); err != nil {
				panic(err)
			}
			boot := s.BootstrapReq(1, 2, 3, "127.0.0.1:1")
			boot.Store.Version = "4.0.0"
			if _, err := s.Bootstrap(context.Background(), boot); err != nil {
				panic(err)
			}
			if _, err := s.PutStore(context.Background(), &pdpb.PutStoreRequest{Header: s.Header(), Store: boot.Store}); err != nil {
				panic(err)
			}
			type got struct {
				who    string
				id     uint64
				stored uint64
			}
			var ids []got
			key := srvh.Root + "/alloc_id"
			storedNow := func() uint64 {
				v, ok := st.Get(key)
				if !ok {
					return 0
				}
				u, _ := typeutil.BytesToUint64([]byte(v))
				return u
			}
			rec := func(who string, l ...uint64) {
				sn := storedNow()
				for _, id := range l {
					ids = append(ids, got{who, id, sn})
				}
			}
			region := boot.Region
			splitReq := region
			if dev > 0 {
				splitReq = proto.Clone(region).(*metapb.Region)
				splitReq.Peers = append(splitReq.Peers, &metapb.Peer{Id: 4, StoreId: 2}, &metapb.Peer{Id: 5, StoreId: 3})
				// two ids of the window are left: the split's four ids straddle the window end
				for {
					r, err := s.AllocID(context.Background(), &pdpb.AllocIDRequest{Header: s.Header()})
					if err != nil {
						panic(err)
					}
					rec("set-up", r.GetId())
					if r.GetId()%1000 == 998 {
						break
					}
				}
				st.FaultWrites = true
			}
			return &explore.Instance{Names: []string{"alloc", "batch-split", "split", "drain"}, Threads: []func(){
				func() {
					for i := 0; i < 2; i++ {
						if r, err := s.AllocID(context.Background(), &pdpb.AllocIDRequest{Header: s.Header()}); err == nil {
							rec("AllocID", r.GetId())
						}
					}
				},
				func() {
					r, err := s.AskBatchSplit(context.Background(), &pdpb.AskBatchSplitRequest{Header: s.Header(), Region: region, SplitCount: 2})
					if err == nil && r.GetHeader().GetError() == nil {
						for _, x := range r.GetIds() {
							rec("AskBatchSplit", x.NewRegionId)
							rec("AskBatchSplit", x.NewPeerIds...)
						}
					}
				},
				func() {
					r, err := s.AskSplit(context.Background(), &pdpb.AskSplitRequest{Header: s.Header(), Region: splitReq})
					if err == nil && r.GetHeader().GetError() == nil {
						rec("AskSplit", r.NewRegionId)
						rec("AskSplit", r.NewPeerIds...)
					}
				},
				func() {
					if dev > 0 {
						return
					}
					// use up the rest of the window so that a rebase happens while the others run
					sched.Atomic(func() {
						for i := 0; i < 990; i++ {
							if r, err := s.AllocID(context.Background(), &pdpb.AllocIDRequest{Header: s.Header()}); err == nil {
								rec("drain", r.GetId())
							}
						}
					})
				},
			}, Check: func(r *sched.Run) (string, *explore.Violation) {
				defer s.Close()
				st.FaultWrites = false
				seen := map[uint64]string{}
				for _, g := range ids {
					if g.id == 0 {
						return "", &explore.Violation{Key: "zero-id", Msg: fmt.Sprintf("%s handed out id 0, which no allocation ever returns", g.who)}
					}
					if o, dup := seen[g.id]; dup {
						return "", &explore.Violation{Key: "duplicate-id", Msg: fmt.Sprintf("id %d handed out twice: by %s and by %s", g.id, o, g.who)}
					}
					seen[g.id] = g.who
					if g.id > g.stored {
						return "", &explore.Violation{Key: "id-above-stored-window", Msg: fmt.Sprintf("%s returned id %d while the stored window bound is %d", g.who, g.id, g.stored)}
					}
				}
				return fmt.Sprintf("ids=%d stored=%d", len(ids), storedNow()), nil
			}}
		}}
}

func main() {
	defer srvh.Cleanup()
	explore.Main(&explore.Config{
		Property:  "C04",
		Scenarios: append(scenarios(), handlers("handlers", 2, "quick"), handlersF("handlers/storage-faults", 1, 1, "quick"), handlers("handlers@3", 3, "thorough"), handlersF("handlers/storage-faults@2", 2, 2, "thorough")),
		Rule:      "every schedule (preemption-bounded) and fault answer (deviation-bounded) of the thread scripts; an outcome is the multiset of (member,id) returned plus the final stored window",
		Assumptions: []string{
			"fake etcd is conformance-checked against embedded etcd (engine/fakeetcd/conformance)",
			"code between two scheduling points (lock, etcd request) executes atomically; unsynchronised accesses are covered by a separate free-running -race pass",
			"allocStep windows are crossed by a macro step (999 Alloc calls without scheduling points)",
		},
	})
}
