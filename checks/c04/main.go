// Check C04: allocated ids are unique forever.
//
// Real code driven: server/id.allocatorImpl (Alloc, Rebase) of 2-3 instances on
// one fake etcd, with leader-record switches, storage faults and crash/restart.
package main

import (
	"fmt"
	"sort"
	"strings"

	"github.com/tikv/pd/pkg/typeutil"
	"github.com/tikv/pd/pkg/verifshim/sched"
	"github.com/tikv/pd/server/id"
	"verif/engine/explore"
	"verif/engine/fakeetcd"
)

const root = "/pd/7"
const leaderKey = root + "/leader"
const allocKey = root + "/alloc_id"

type rec struct {
	thread  int
	inst    string
	id      uint64
	stored  uint64
	seq     int
	errText string
}

type world struct {
	st      *fakeetcd.Store
	recs    []rec
	seq     int
	curInst map[int]string // thread -> member of the allocator it is calling
	bad     []string
	ranges  [][2]uint64 // ids handed out inside a drain (checked for collisions too)
}

func stored(st *fakeetcd.Store) uint64 {
	v, ok := st.Get(allocKey)
	if !ok {
		return 0
	}
	u, _ := typeutil.BytesToUint64([]byte(v))
	return u
}

func newWorld(faults bool) *world {
	w := &world{st: fakeetcd.New(), curInst: map[int]string{}}
	w.st.PutDirect(leaderKey, "a")
	w.st.FaultWrites = faults
	w.st.OnCommit = func(evs []fakeetcd.Event) {
		for _, e := range evs {
			if e.Key != allocKey {
				continue
			}
			t := sched.Cur()
			if t == nil {
				continue
			}
			m := w.curInst[t.ID]
			// the leader record at the commit instant must be the writer's member
			// (store is locked here; read through the event log: last value of leaderKey)
			ld := ""
			for i := len(w.st.Log) - 1; i >= 0; i-- {
				if w.st.Log[i].Key == leaderKey {
					if !w.st.Log[i].Delete {
						ld = w.st.Log[i].Value
					}
					break
				}
			}
			if ld == "" && !w.leaderEverChanged() {
				ld = "a"
			}
			if ld != m {
				w.bad = append(w.bad, fmt.Sprintf("window written by member %q while the leader record is %q", m, ld))
			}
		}
	}
	return w
}

func (w *world) leaderEverChanged() bool {
	for _, e := range w.st.Log {
		if e.Key == leaderKey {
			return true
		}
	}
	return false
}

func (w *world) alloc(member string, a id.Allocator) {
	t := sched.Cur()
	w.curInst[t.ID] = member
	before := stored(w.st)
	v, err := a.Alloc()
	r := rec{thread: t.ID, inst: member, id: v, stored: stored(w.st), seq: w.seq}
	w.seq++
	if err != nil {
		r.errText = err.Error()
		_ = before
	}
	w.recs = append(w.recs, r)
}

func (w *world) rebase(member string, a id.Allocator) {
	t := sched.Cur()
	w.curInst[t.ID] = member
	before := stored(w.st)
	n := len(w.st.Log)
	err := a.Rebase()
	after := stored(w.st)
	if err != nil && after != before {
		// a failed rebase may have been applied with the reply lost (fault) – then a
		// commit by this thread is in the log; otherwise somebody else moved it.
		mine := false
		for _, e := range w.st.Log[n:] {
			if e.Key == allocKey && e.Who == t.Name {
				mine = true
			}
		}
		if mine && !w.st.FaultWrites {
			w.bad = append(w.bad, "failed Rebase changed the stored window")
		}
	}
}

// drain uses up the rest of the in-memory window as one macro step: n raw Alloc
// calls without scheduling points, checked inline (strictly +1, never above the
// stored bound) and recorded as first/last only. It stops at the first error.
func (w *world) drain(member string, a id.Allocator, n int) {
	t := sched.Cur()
	w.curInst[t.ID] = member
	sched.Atomic(func() {
		var prev uint64
		for i := 0; i < n; i++ {
			v, err := a.Alloc()
			if err != nil {
				return
			}
			st := stored(w.st)
			if i == 0 || i == n-1 || v != prev+1 || v > st {
				w.recs = append(w.recs, rec{thread: t.ID, inst: member, id: v, stored: st, seq: w.seq})
				w.seq++
			} else {
				w.ranges = append(w.ranges, [2]uint64{v, v})
			}
			prev = v
		}
	})
}

func (w *world) setLeader(m string) {
	sched.PointAt(sched.KUser, "leader:="+m)
	if m == "" {
		w.st.DeleteDirect(leaderKey)
	} else {
		w.st.PutDirect(leaderKey, m)
		w.st.Log = append(w.st.Log, fakeetcd.Event{Key: leaderKey, Value: m})
	}
}

func (w *world) check(r *sched.Run) (string, *explore.Violation) {
	if len(w.bad) > 0 {
		return "", &explore.Violation{Key: "guard", Msg: strings.Join(w.bad, "; ")}
	}
	seen := map[uint64]rec{}
	last := map[string]uint64{} // per (instance object, thread) monotone
	var ok []string
	for _, x := range w.recs {
		if x.errText != "" {
			continue
		}
		if o, dup := seen[x.id]; dup {
			return "", &explore.Violation{Key: "duplicate-id", Msg: fmt.Sprintf("id %d returned twice: by %s(thread %d) and %s(thread %d)", x.id, o.inst, o.thread, x.inst, x.thread)}
		}
		seen[x.id] = x
		if x.id > x.stored {
			return "", &explore.Violation{Key: "id-above-stored-window", Msg: fmt.Sprintf("id %d returned by %s while stored window bound is %d", x.id, x.inst, x.stored)}
		}
		k := fmt.Sprintf("%s/%d", x.inst, x.thread)
		if x.id <= last[k] {
			return "", &explore.Violation{Key: "not-increasing", Msg: fmt.Sprintf("instance %s thread %d got %d after %d", x.inst, x.thread, x.id, last[k])}
		}
		last[k] = x.id
		ok = append(ok, fmt.Sprintf("%s:%d", x.inst, x.id))
	}
	for _, rg := range w.ranges {
		if o, dup := seen[rg[0]]; dup {
			return "", &explore.Violation{Key: "duplicate-id", Msg: fmt.Sprintf("id %d returned twice (once inside a drain, once by %s thread %d)", rg[0], o.inst, o.thread)}
		}
		seen[rg[0]] = rec{inst: "drain"}
	}
	sort.Strings(ok)
	if len(ok) > 6 {
		ok = append(ok[:3], fmt.Sprintf("..%d..", len(ok)-4), ok[len(ok)-1])
	}
	return fmt.Sprintf("%s|stored=%d", strings.Join(ok, ","), stored(w.st)), nil
}

func scenarios() []*explore.Scenario {
	var l []*explore.Scenario
	// S1: one instance shared by two threads + a second member that campaigns in between.
	mk := func(name string, faults bool, pre, dev int, tiers string, build func(w *world) ([]string, []func())) {
		l = append(l, &explore.Scenario{Name: name, MaxPre: pre, MaxDev: dev, Tiers: tiers, Setup: func() *explore.Instance {
			w := newWorld(faults)
			names, th := build(w)
			return &explore.Instance{Names: names, Threads: th, Check: w.check}
		}})
	}
	shared := func(w *world) ([]string, []func()) {
		cl := w.st.Client()
		a := id.NewAllocator(cl, root, "a")
		b := id.NewAllocator(cl, root, "b")
		return []string{"a1", "a2", "b", "env"}, []func(){
			func() { w.alloc("a", a); w.alloc("a", a) },
			func() { w.alloc("a", a) },
			func() { w.rebase("b", b); w.alloc("b", b); w.alloc("b", b) },
			func() { w.setLeader("b") },
		}
	}
	mk("shared+switch", false, 2, 0, "quick", shared)
	mk("shared+switch/faults", true, 2, 1, "quick", shared)
	mk("shared+switch@3", false, 3, 0, "thorough", shared)
	mk("shared+switch/faults@3", true, 3, 2, "thorough", shared)
	// S2: crash/restart: a serves, is dropped, a' (same member) rebases and serves while
	// the old object may still answer (zombie), leader moves to b and back.
	restart := func(w *world) ([]string, []func()) {
		cl := w.st.Client()
		a := id.NewAllocator(cl, root, "a")
		return []string{"a", "a'", "b", "env"}, []func(){
			func() { w.alloc("a", a); w.drain("a", a, 999); w.alloc("a", a) },
			func() {
				a2 := id.NewAllocator(cl, root, "a")
				w.rebase("a", a2)
				w.alloc("a", a2)
				w.alloc("a", a2)
			},
			func() {
				b := id.NewAllocator(cl, root, "b")
				w.rebase("b", b)
				w.alloc("b", b)
				w.drain("b", b, 999)
				w.alloc("b", b)
			},
			func() { w.setLeader("b"); w.setLeader("a") },
		}
	}
	mk("restart+zombie", false, 2, 0, "quick", restart)
	mk("restart+zombie/faults", true, 1, 1, "quick", restart)
	mk("restart+zombie@3", false, 3, 0, "thorough", restart)
	mk("restart+zombie/faults@2", true, 2, 2, "thorough", restart)
	// S2b: leadership goes a -> b -> a while a's allocator object stays alive with a
	// partly used window; every newly elected leader rebases before serving.
	flipflop := func(w *world) ([]string, []func()) {
		cl := w.st.Client()
		a := id.NewAllocator(cl, root, "a")
		b := id.NewAllocator(cl, root, "b")
		return []string{"a", "b", "env"}, []func(){
			func() { w.alloc("a", a); w.rebase("a", a); w.drain("a", a, 1001); w.alloc("a", a) },
			func() { w.rebase("b", b); w.alloc("b", b); w.alloc("b", b) },
			func() { w.setLeader("b"); w.setLeader("a") },
		}
	}
	mk("flip-flop", false, 2, 0, "quick", flipflop)
	mk("flip-flop/faults", true, 2, 1, "quick", flipflop)
	mk("flip-flop@3", true, 3, 2, "thorough", flipflop)
	// S3: three members, leader record absent for a while.
	three := func(w *world) ([]string, []func()) {
		cl := w.st.Client()
		return []string{"a", "b", "c", "env"}, []func(){
			func() { a := id.NewAllocator(cl, root, "a"); w.alloc("a", a); w.rebase("a", a); w.alloc("a", a) },
			func() { b := id.NewAllocator(cl, root, "b"); w.alloc("b", b); w.alloc("b", b) },
			func() { c := id.NewAllocator(cl, root, "c"); w.rebase("c", c); w.alloc("c", c) },
			func() { w.setLeader(""); w.setLeader("b"); w.setLeader("c") },
		}
	}
	mk("three-members", false, 2, 0, "quick", three)
	mk("three-members@3", true, 3, 1, "thorough", three)
	return l
}

func main() {
	explore.Main(&explore.Config{
		Property:  "C04",
		Scenarios: scenarios(),
		Rule:      "every schedule (preemption-bounded) and fault answer (deviation-bounded) of the thread scripts; an outcome is the multiset of (member,id) returned plus the final stored window",
		Assumptions: []string{
			"fake etcd is conformance-checked against embedded etcd (engine/fakeetcd/conformance)",
			"code between two scheduling points (lock, etcd request) executes atomically; unsynchronised accesses are covered by a separate free-running -race pass",
			"allocStep windows are crossed by a macro step (999 Alloc calls without scheduling points)",
		},
	})
}
