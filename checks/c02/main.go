// Check C02: granted timestamps stay below the durably stored time window.
package main

import (
	"strings"
	"time"

	"github.com/tikv/pd/pkg/typeutil"
	"github.com/tikv/pd/pkg/verifshim/sched"
	"github.com/tikv/pd/pkg/verifshim/vclock"
	"verif/checks/tsoh"
	"verif/engine/explore"
)

type opt struct {
	name       string
	ad         tsoh.Admin
	pre, dev   int
	tiers      string
	faults     bool
	kinds      uint32
	fixedClock time.Duration
	clocks     []time.Duration // per-round fixed clock steps (overrides fixedClock)
	preload    time.Duration // persisted window far in the future before the first campaign
	rounds     int
	counts     []uint32      // request sizes of the requester (default 1, 2)
	saveIvl    time.Duration // tso-save-interval (default 3s)
	burst      bool          // with serial: the requests follow each other at once, no clock step and no update in between
	serial     bool          // one driver alternates request / clock step / update round; the second thread only requests
}

func scenario(o opt) *explore.Scenario {
	if o.kinds == 0 && !strings.HasPrefix(o.name, "fn/") {
		o.kinds = uint32(1<<(sched.KFunc+1)-1) &^ uint32(1<<sched.KFunc) // everything but function entries
	}
	return &explore.Scenario{Name: o.name, MaxPre: o.pre, MaxDev: o.dev, Tiers: o.tiers, Opts: sched.Options{Kinds: o.kinds}, Setup: func() *explore.Instance {
		w := tsoh.NewWorld(false)
		w.Takeover = true
		w.SaveInterval = o.saveIvl
		counts := o.counts
		if counts == nil {
			counts = []uint32{1, 2}
		}
		if o.preload != 0 {
			w.St.PutDirect(tsoh.TSKey, string(typeutil.Uint64ToBytes(uint64(vclock.Epoch.Add(o.preload).UnixNano()))))
		}
		n1 := w.AddNode(1, nil)
		w.AddNode(2, nil)
		if err := n1.Campaign(); err != nil {
			panic(err)
		}
		w.St.FaultWrites = o.faults
		return &explore.Instance{
			Names: []string{"req", "upd", "admin"},
			Threads: []func(){
				func() {
					for i, c := range counts {
						w.Request(n1, c)
						if o.serial && !o.burst && i < len(o.clocks) {
							old := sched.SetMember(1)
							vclock.Advance(o.clocks[i])
							n1.AM.VerifAllocatorUpdaterSync()
							sched.SetMember(old)
						}
					}
				},
				func() {
					if o.serial {
						w.Request(n1, 1)
						return
					}
					sched.SetMember(1)
					for i := 0; i < o.rounds; i++ {
						if i < len(o.clocks) {
							vclock.Advance(o.clocks[i])
						} else if o.fixedClock != 0 {
							vclock.Advance(o.fixedClock)
						} else {
							tsoh.ClockChoice(50*time.Millisecond, 3*time.Second, -time.Hour, time.Hour)
						}
						n1.AM.VerifAllocatorUpdaterSync()
					}
				},
				func() { o.ad.Run(w, n1) },
			},
			Check: func(r *sched.Run) (string, *explore.Violation) {
				defer w.Close()
				// epilogue: one more grant (with take-over check) after everything settled
				if n1.M.IsLeader() {
					w.Request(n1, 1)
				} else if n2 := w.Nodes[2]; n2.M.IsLeader() {
					w.Request(n2, 1)
				}
				return w.Outcome(), w.CheckC02()
			},
		}
	}}
}

func main() {
	var l []*explore.Scenario
	noAtomics := uint32(1<<sched.KLock | 1<<sched.KRLock | 1<<sched.KEtcd | 1<<sched.KUser | 1<<sched.KWait | 1<<sched.KStart)
	for _, ad := range append(tsoh.Admins(), tsoh.Handover(0), tsoh.Handover(-time.Hour), tsoh.Handover(time.Hour), tsoh.HandoverBack(0)) {
		lead := strings.HasPrefix(ad.Name, "reset") || strings.HasPrefix(ad.Name, "handover")
		if lead {
			l = append(l, scenario(opt{name: ad.Name + "/clk+3s", ad: ad, pre: 2, dev: 0, tiers: "quick", fixedClock: 3 * time.Second, rounds: 1}))
			l = append(l, scenario(opt{name: ad.Name + "/clk+3s/faults", ad: ad, pre: 1, dev: 1, tiers: "quick", faults: true, kinds: noAtomics, fixedClock: 3 * time.Second, rounds: 1}))
		} else {
			l = append(l, scenario(opt{name: ad.Name, ad: ad, pre: 2, dev: 1, tiers: "quick", kinds: noAtomics, rounds: 2}))
			l = append(l, scenario(opt{name: ad.Name + "/clk+3s/faults", ad: ad, pre: 2, dev: 1, tiers: "quick", faults: true, kinds: noAtomics, fixedClock: 3 * time.Second, rounds: 1}))
		}
		l = append(l, scenario(opt{name: ad.Name + "@3", ad: ad, pre: 3, dev: 2, tiers: "thorough", faults: true, rounds: 2}))
	}
	// lost leadership that the member has not noticed yet: the leader record disappears
	// (lease revoked by etcd / key deleted by a third party) while the local lease looks valid.
	lost := tsoh.Admin{Name: "lost-leader-record", Run: func(w *tsoh.World, n1 *tsoh.Node) {
		sched.PointAt(sched.KUser, "delete leader record")
		w.St.DeleteDirect(tsoh.Root + "/leader")
	}}
	l = append(l, scenario(opt{name: "lost-leader-record/clk+3s,+50ms", ad: lost, pre: 2, dev: 0, tiers: "quick", kinds: noAtomics, clocks: []time.Duration{3 * time.Second, 50 * time.Millisecond}, rounds: 2}))
	l = append(l, scenario(opt{name: "lost-leader-record", ad: lost, pre: 2, dev: 2, tiers: "quick", kinds: noAtomics, rounds: 2}))
	l = append(l, scenario(opt{name: "lost-leader-record@3", ad: lost, pre: 3, dev: 3, tiers: "thorough", faults: true, rounds: 3}))
	lostRetry := tsoh.LostRetry()
	l = append(l, scenario(opt{name: lostRetry.Name, ad: lostRetry, pre: 2, dev: 1, tiers: "quick", kinds: noAtomics, rounds: 1}))
	l = append(l, scenario(opt{name: lostRetry.Name + "@3", ad: lostRetry, pre: 3, dev: 2, tiers: "thorough", faults: true, rounds: 2}))
	none := tsoh.Admins()[0]
	l = append(l, scenario(opt{name: "preloaded+1h", ad: none, pre: 2, dev: 1, tiers: "quick", kinds: noAtomics, preload: time.Hour, rounds: 2}))
	l = append(l, scenario(opt{name: "preloaded+1h/handover", ad: tsoh.Handover(-time.Hour), pre: 2, dev: 0, tiers: "quick", kinds: noAtomics, preload: time.Hour, fixedClock: 3 * time.Second, rounds: 1}))
	l = append(l, scenario(opt{name: "preloaded+1h@3", ad: tsoh.Handover(0), pre: 3, dev: 2, tiers: "thorough", faults: true, preload: time.Hour, rounds: 2}))
	// the window is far ahead of the clock (slow-clock member on a persisted window in the
	// future) and the logical part is more than half used at every update: the physical time
	// creeps forward 1 ms per update towards the stored bound (tso-save-interval 3 ms, so
	// that the bound is reached within the scenario instead of after 3000 updates)
	big := []uint32{140000, 140000, 140000, 140000, 1}
	ms := time.Millisecond
	l = append(l, scenario(opt{name: "preloaded+1h/logical-creep", ad: none, pre: 1, dev: 0, tiers: "quick", kinds: noAtomics, preload: time.Hour, saveIvl: 3 * ms, counts: big, serial: true, clocks: []time.Duration{ms, ms, ms, ms, ms}, rounds: 5}))
	l = append(l, scenario(opt{name: "preloaded+1h/logical-creep@2", ad: none, pre: 2, dev: 0, tiers: "thorough", preload: time.Hour, saveIvl: 3 * ms, counts: big, serial: true, clocks: []time.Duration{ms, ms, ms, ms, ms}, rounds: 5}))
	// a burst of large requests within one tick, the physical time 3 ms below the window: the
	// logical part overflows and no update comes to extend the window
	l = append(l, scenario(opt{name: "preloaded+1h/logical-burst", ad: none, pre: 1, dev: 0, tiers: "quick", kinds: noAtomics, preload: time.Hour, saveIvl: 3 * ms, counts: []uint32{140000, 140000, 140000, 140000, 140000, 140000, 1}, serial: true, burst: true, rounds: 1}))
	// function-call granularity: a manual reset and the periodic update both save a window
	setAd := tsoh.Admins()[6]
	l = append(l, scenario(opt{name: "fn/" + setAd.Name, ad: setAd, pre: 2, dev: 0, tiers: "quick", fixedClock: 3 * time.Second, rounds: 1}))
	l = append(l, scenario(opt{name: "fn/" + setAd.Name + "@3", ad: setAd, pre: 3, dev: 1, tiers: "thorough", rounds: 2}))
	explore.Main(&explore.Config{
		Property:  "C02",
		Extra:     clockArithmetic,
		Scenarios: l,
		Rule:      "all schedules x clock/fault answers of requester + periodic updater + one admin action (manual reset, allocator reset, hand-over); after every grant the process is 'crashed' and a fresh member (clock offset -1h/0/+1h) takes over on a copy of the storage",
		Assumptions: []string{
			"fake etcd conformance-checked against embedded etcd",
			"atomicity between scheduling points; single etcd transactions are the interleaving granularity",
			"crash points are taken after every grant and at the end of every execution (the only instants at which the set of granted timestamps changes)",
		},
	})
}
