package main

// Wall-clock arithmetic of the time-window logic. The window comparisons of UpdateTimestamp /
// SyncTimestamp / resetUserTimestamp are documented to be wall-clock differences
// (typeutil.SubRealTimeByWallClock, SubTSOPhysicalByWallClock): the physical time that is
// granted and the window that is stored are wall-clock values, so a difference taken on Go's
// monotonic clock disagrees with them as soon as the wall clock is stepped. The virtual clock
// of the schedule scenarios hands out time.Time values without a monotonic reading (wall and
// monotonic arithmetic coincide there), so this part enumerates pairs of readings that do
// carry one: every combination of wall-clock offsets and monotonic offsets from a small grid,
// i.e. clocks that were stepped forwards or backwards between the two readings.

import (
	"fmt"
	"time"
	"unsafe"

	"github.com/tikv/pd/pkg/typeutil"
	"verif/engine/evidence"
)

// mkTime builds a reading with wall clock wall and monotonic clock mono (as time.Now() returns
// them). Layout of time.Time: wall uint64 (bit 63: has monotonic, 33 bits seconds since 1885,
// 30 bits nanoseconds), ext int64 (monotonic nanoseconds), loc.
func mkTime(wall time.Time, mono int64) (time.Time, bool) {
	type raw struct {
		wall uint64
		ext  int64
		loc  *time.Location
	}
	// seconds since Jan 1 year 1885 = unix seconds + (unix epoch - 1885 epoch)
	const unixToInternal = int64((1969*365 + 1969/4 - 1969/100 + 1969/400) * 86400)
	const wallToInternal = int64((1884*365 + 1884/4 - 1884/100 + 1884/400) * 86400)
	s1885 := wall.Unix() + unixToInternal - wallToInternal
	if s1885 < 0 || s1885 >= 1<<33 {
		return time.Time{}, false
	}
	var t time.Time
	r := (*raw)(unsafe.Pointer(&t))
	r.wall = 1<<63 | uint64(s1885)<<30 | uint64(wall.Nanosecond())
	r.ext = mono
	r.loc = time.Local
	// self-check: the fabricated value must read back as the wall clock it was built from
	if t.UnixNano() != wall.UnixNano() {
		return time.Time{}, false
	}
	return t, true
}

func clockArithmetic(tier string, rep *evidence.Reporter, cov *evidence.Coverage) {
	// the layout assumption is validated against real readings first
	n1 := time.Now()
	n2 := n1.Add(1500 * time.Millisecond)
	f1, ok1 := mkTime(n1, 1_000_000_000)
	f2, ok2 := mkTime(n2, 2_500_000_000)
	if !ok1 || !ok2 || f2.Sub(f1) != 1500*time.Millisecond || n2.Sub(n1) != 1500*time.Millisecond {
		cov.CapsHit = append(cov.CapsHit, "clock-arithmetic: time.Time layout not as assumed, part skipped")
		cov.Exhaustive = false
		return
	}
	base := time.Date(2021, 7, 1, 0, 0, 0, 0, time.UTC)
	wallOffs := []time.Duration{-time.Hour, -3 * time.Second, -time.Millisecond, 0, time.Millisecond, 50 * time.Millisecond, 3 * time.Second, time.Hour}
	monoOffs := []time.Duration{0, time.Millisecond, 50 * time.Millisecond, 3 * time.Second}
	var cases int64
	for _, wa := range wallOffs {
		for _, wb := range wallOffs {
			for _, ma := range monoOffs {
				for _, mb := range monoOffs {
					for _, withMono := range []int{0, 1, 2, 3} { // which of the two readings carries a monotonic part
						a, b := base.Add(wa), base.Add(wb)
						if withMono&1 != 0 {
							a, _ = mkTime(a, int64(10*time.Second+ma))
						}
						if withMono&2 != 0 {
							b, _ = mkTime(b, int64(10*time.Second+mb))
						}
						cases++
						want := time.Duration(a.UnixNano() - b.UnixNano())
						if got := typeutil.SubRealTimeByWallClock(a, b); got != want {
							rep.Report(&evidence.Violation{Scenario: "clock-arithmetic", Key: "wall-clock-difference", Message: fmt.Sprintf("SubRealTimeByWallClock of readings with wall clocks %v / %v and monotonic clocks +%v / +%v (carried: %02b) is %v, the wall clocks differ by %v: the time-window checks would not see a stepped wall clock", wa, wb, ma, mb, withMono, got, want), Replay: []int64{int64(wa), int64(wb), int64(ma), int64(mb), int64(withMono)}})
							return
						}
						wantMs := a.UnixNano()/int64(time.Millisecond) - b.UnixNano()/int64(time.Millisecond)
						if got := typeutil.SubTSOPhysicalByWallClock(a, b); got != wantMs {
							rep.Report(&evidence.Violation{Scenario: "clock-arithmetic", Key: "wall-clock-difference", Message: fmt.Sprintf("SubTSOPhysicalByWallClock of readings with wall clocks %v / %v and monotonic clocks +%v / +%v (carried: %02b) is %d ms, the wall clocks differ by %d ms", wa, wb, ma, mb, withMono, got, wantMs), Replay: []int64{int64(wa), int64(wb), int64(ma), int64(mb), int64(withMono)}})
							return
						}
					}
				}
			}
		}
	}
	cov.States += cases
	cov.Transitions += cases
	cov.Evaluations += cases
	cov.Scenarios = append(cov.Scenarios, map[string]interface{}{"scope": "clock-arithmetic", "pairs_of_readings": cases, "wall_offsets": len(wallOffs), "monotonic_offsets": len(monoOffs)})
	fmt.Printf("C02 clock-arithmetic pairs=%d\n", cases)
}
