// Check C15: GC safe points never move backwards.
//
// Part 1 (engine A): 2-3 concurrent UpdateGCSafePoint calls through the real
// handler, interleaved at every storage read/write. Part 2 (engine B): all
// sequences of service safe point registrations / renewals / removals / expiry.
package main

import (
	"context"
	"encoding/json"
	"fmt"
	"math"
	"path"
	"sort"
	"strconv"
	"strings"
	"time"

	"github.com/pingcap/kvproto/pkg/pdpb"
	"github.com/tikv/pd/pkg/verifshim/sched"
	"github.com/tikv/pd/pkg/verifshim/vclock"
	"github.com/tikv/pd/server/config"
	"github.com/tikv/pd/server/core"
	"verif/checks/srvh"
	"verif/engine/evidence"
	"verif/engine/explore"
	"verif/engine/fakeetcd"
	"verif/engine/hist"
)

const gcKey = srvh.Root + "/gc/safe_point"
const svcPrefix = srvh.Root + "/gc/safe_point/service/"

func bootServer(st *fakeetcd.Store) *srvh.Srv {
	srvh.SeedClusterID(st)
	s, err := srvh.New(st, 1, func(c *config.Config) { c.LeaderLease = 1000000 })
	if err != nil {
		panic(err)
	}
	if err := s.VerifBecomeLeader(); err != nil {
		panic(err)
	}
	if _, err := s.Bootstrap(context.Background(), s.BootstrapReq(1, 2, 3, "127.0.0.1:1")); err != nil {
		panic(err)
	}
	return s
}

type ack struct {
	who      string
	inv, ret int
	req, got uint64
	err      string
}

func gcScenario(name string, vals [][]uint64, pre int, tiers string) *explore.Scenario {
	return gcScenarioF(name, vals, pre, 0, tiers)
}

// gcScenarioF: dev > 0 = storage reads and writes may fail (refused / reply lost), at most dev of them.
func gcScenarioF(name string, vals [][]uint64, pre, dev int, tiers string) *explore.Scenario {
	return &explore.Scenario{Name: name, MaxPre: pre, MaxDev: dev, Tiers: tiers, Setup: func() *explore.Instance {
		vclock.Enable(vclock.Epoch)
		st := fakeetcd.New()
		s := bootServer(st)
		st.FaultReads, st.FaultWrites = dev > 0, dev > 0
		var acks []ack
		seq := 0
		var writes []uint64
		var bad string
		st.OnCommit = func(evs []fakeetcd.Event) {
			for _, e := range evs {
				if e.Key == gcKey && !e.Delete {
					v, _ := strconv.ParseUint(e.Value, 16, 64)
					if n := len(writes); n > 0 && v < writes[n-1] && bad == "" {
						bad = fmt.Sprintf("stored GC safe point went from %d back to %d (writer %s)", writes[n-1], v, e.Who)
					}
					writes = append(writes, v)
				}
			}
		}
		update := func(who string, v uint64) {
			a := ack{who: who, inv: seq, req: v}
			seq++
			resp, err := s.UpdateGCSafePoint(context.Background(), &pdpb.UpdateGCSafePointRequest{Header: s.Header(), SafePoint: v})
			a.ret = seq
			seq++
			if err != nil {
				a.err = err.Error()
			} else if resp.GetHeader().GetError() != nil {
				a.err = resp.GetHeader().GetError().String()
			} else {
				a.got = resp.NewSafePoint
			}
			acks = append(acks, a)
		}
		var names []string
		var th []func()
		for i, vs := range vals {
			i, vs := i, vs
			names = append(names, fmt.Sprintf("upd%d", i))
			th = append(th, func() {
				for _, v := range vs {
					update(fmt.Sprintf("upd%d", i), v)
				}
			})
		}
		return &explore.Instance{Names: names, Threads: th, Check: func(r *sched.Run) (string, *explore.Violation) {
			defer s.Close()
			st.FaultReads, st.FaultWrites = false, false
			// epilogue: a sequential read and a low-valued update make a regression visible
			// to the acknowledgement clause as well
			a := ack{who: "get", inv: seq}
			seq++
			g, err := s.GetGCSafePoint(context.Background(), &pdpb.GetGCSafePointRequest{Header: s.Header()})
			a.ret = seq
			seq++
			if err == nil {
				a.got = g.SafePoint
				acks = append(acks, a)
			}
			update("low", 1)
			if bad != "" {
				return "", &explore.Violation{Key: "stored-safepoint-decreased", Msg: bad}
			}
			for _, x := range acks {
				if x.err != "" {
					continue
				}
				for _, y := range acks {
					if y.err == "" && y.ret < x.inv && x.got < y.got {
						return "", &explore.Violation{Key: "ack-regression", Msg: fmt.Sprintf("%s got %d although %d had been acknowledged to %s before the request began", x.who, x.got, y.got, y.who)}
					}
				}
				if x.who != "get" && x.got < x.req {
					return "", &explore.Violation{Key: "ack-below-request", Msg: fmt.Sprintf("%s asked for %d and was answered %d", x.who, x.req, x.got)}
				}
			}
			var l []string
			for _, x := range acks {
				l = append(l, fmt.Sprintf("%s:%d", x.who, x.got))
			}
			sort.Strings(l)
			return strings.Join(l, ",") + fmt.Sprint(writes), nil
		}}
	}}
}

type rec struct {
	who      string
	inv, ret int
	svc      string
	ttl      int64
	sp, min  uint64
	err      bool
}

func recs2ops(r []rec) []rec { return r }

// linearizable searches a total order of the calls that respects real-time order and
// reproduces every response and the final stored set on the sequential reference.
func linearizable(ops []rec, stored map[string]uint64, now int64) string {
	n := len(ops)
	used := make([]bool, n)
	var order []int
	var try func(st *refState) bool
	try = func(st *refState) bool {
		if len(order) == n {
			if len(st.ref) != len(stored) {
				return false
			}
			for k, v := range stored {
				if e, ok := st.ref[k]; !ok || e.sp != v {
					return false
				}
			}
			return true
		}
		for i := 0; i < n; i++ {
			if used[i] {
				continue
			}
			// i may go next only if no unused op completed before i began
			ok := true
			for j := 0; j < n; j++ {
				if !used[j] && j != i && ops[j].ret < ops[i].inv {
					ok = false
				}
			}
			if !ok {
				continue
			}
			c := st.clone()
			_, min, refErr := c.apply(ops[i].svc, ops[i].ttl, ops[i].sp, now)
			if refErr != ops[i].err || (!refErr && min.sp != ops[i].min) {
				continue
			}
			used[i] = true
			order = append(order, i)
			if try(c) {
				return true
			}
			order = order[:len(order)-1]
			used[i] = false
		}
		return false
	}
	if try(&refState{ref: map[string]ent{}}) {
		return ""
	}
	var l []string
	for _, o := range ops {
		l = append(l, fmt.Sprintf("%s[%d,%d] %s(ttl=%d,sp=%d)->min=%d err=%v", o.who, o.inv, o.ret, o.svc, o.ttl, o.sp, o.min, o.err))
	}
	return fmt.Sprintf("no sequential order of the calls explains the responses and the stored set %v: %s", stored, strings.Join(l, " | "))
}

// svcScenario: concurrent service safe point requests (the handler serializes them with a lock).
func svcScenario(name string, pre int, tiers string) *explore.Scenario {
	return &explore.Scenario{Name: name, MaxPre: pre, Tiers: tiers, Setup: func() *explore.Instance {
		vclock.Enable(vclock.Epoch)
		st := fakeetcd.New()
		s := bootServer(st)
		var recs []rec
		seq := 0
		call := func(who, svc string, ttl int64, sp uint64) {
			r := rec{who: who, inv: seq, svc: svc, sp: sp, ttl: ttl}
			seq++
			resp, err := s.UpdateServiceGCSafePoint(context.Background(), &pdpb.UpdateServiceGCSafePointRequest{Header: s.Header(), ServiceId: []byte(svc), TTL: ttl, SafePoint: sp})
			r.ret = seq
			seq++
			if err != nil || resp.GetHeader().GetError() != nil {
				r.err = true
			} else {
				r.min = resp.MinSafePoint
			}
			recs = append(recs, r)
		}
		call("init", "gc_worker", math.MaxInt64, 3)
		return &explore.Instance{Names: []string{"svc-x", "gc", "svc-y"}, Threads: []func(){
			func() { call("svc-x", "x", 100, 5) },
			func() { call("gc", "gc_worker", math.MaxInt64, 10) },
			func() { call("svc-y", "y", 100, 7); call("svc-y", "y", 0, 0) },
		}, Check: func(r *sched.Run) (string, *explore.Violation) {
			defer s.Close()
			call("final", "z", 0, 0)
			// the reported minimum never goes back once acknowledged, unless a registration that
			// was accepted at or above the then-minimum explains it; and nothing is recorded
			// below a minimum acknowledged before the request began.
			stored := map[string]uint64{}
			for _, kv := range st.Dump() {
				if strings.HasPrefix(kv[0], svcPrefix) {
					var ssp core.ServiceSafePoint
					json.Unmarshal([]byte(kv[1]), &ssp)
					stored[ssp.ServiceID] = ssp.SafePoint
				}
			}
			if msg := linearizable(recs2ops(recs), stored, vclock.Base().Unix()); msg != "" {
				return "", &explore.Violation{Key: "service-not-linearizable", Msg: msg}
			}
			for _, a := range recs {
				if a.err {
					continue
				}
				for _, b := range recs {
					if b.err || b.ret >= a.inv {
						continue
					}
					// b completed before a began
					if sp, ok := stored[a.svc]; ok && a.svc != "gc_worker" && sp == a.sp && a.sp < b.min {
						return "", &explore.Violation{Key: "below-acked-min-recorded", Msg: fmt.Sprintf("service %s is recorded at %d although minimum %d had been acknowledged to %s before its request began", a.svc, a.sp, b.min, b.who)}
					}
				}
			}
			last := recs[len(recs)-1]
			for name, sp := range stored {
				if !last.err && last.min > sp {
					return "", &explore.Violation{Key: "min-above-live-service", Msg: fmt.Sprintf("final reported minimum %d is above the safe point %d of %s", last.min, sp, name)}
				}
			}
			var l []string
			for _, x := range recs {
				l = append(l, fmt.Sprintf("%s:%d", x.who, x.min))
			}
			sort.Strings(l)
			return strings.Join(l, ","), nil
		}}
	}}
}

// ---- service safe points (engine B) ----

type svcOp struct {
	failAt  int    // > 0: the failAt-th storage request of the call is refused
	kind    string // "upd" or "tick"
	service string
	ttl     int64
	sp      uint64
	adv     time.Duration
}

func (o svcOp) String() string {
	if o.kind == "tick" {
		return fmt.Sprintf("time+%v", o.adv)
	}
	t := strconv.FormatInt(o.ttl, 10)
	if o.ttl == math.MaxInt64 {
		t = "inf"
	}
	if o.failAt > 0 {
		return fmt.Sprintf("%s(ttl=%s,sp=%d)[storage request #%d refused]", o.service, t, o.sp, o.failAt)
	}
	return fmt.Sprintf("%s(ttl=%s,sp=%d)", o.service, t, o.sp)
}

// newSvcModelFaults: a smaller alphabet, every call also with its 1st .. 4th storage request refused.
func newSvcModelFaults() *svcModel {
	m := newSvcModel(false)
	var ops []svcOp
	for _, o := range m.ops {
		if o.kind == "tick" || o.service == "b/gc_worker" || o.sp == 30 || o.ttl == -1 || o.ttl == math.MaxInt64-1 {
			if o.kind != "tick" {
				continue
			}
		}
		ops = append(ops, o)
		if o.kind == "upd" {
			for k := 1; k <= 4; k++ {
				f := o
				f.failAt = k
				ops = append(ops, f)
			}
		}
	}
	m.ops = ops
	return m
}

type ent struct {
	sp  uint64
	exp int64 // absolute unix seconds, MaxInt64 = never
}

type svcModel struct {
	st  *fakeetcd.Store
	s   *srvh.Srv
	ops []svcOp
	refState
	last string
}

func newSvcModel(full bool) *svcModel {
	vclock.Enable(vclock.Epoch)
	m := &svcModel{st: fakeetcd.New()}
	m.s = bootServer(m.st)
	// "b/gc_worker": an ordinary service whose id merely ends like the collector's; "..", "x/../gc_worker":
	// ids that a path clean-up would turn into another key (the cluster safe point, the collector's entry)
	services := []string{"a", "b/gc_worker", "gc_worker", "..", "x/../gc_worker"}
	ttls := []int64{-1, 0, 5, math.MaxInt64 - 1, math.MaxInt64}
	sps := []uint64{10, 20, 30}
	if full {
		sps = []uint64{10, 20, 30, 40}
		ttls = []int64{-1, 0, 5, 50, math.MaxInt64 - 1, math.MaxInt64}
	}
	for _, sv := range services {
		for _, t := range ttls {
			for _, sp := range sps {
				if t <= 0 && sp != sps[0] {
					continue // the safe point of a removal is irrelevant
				}
				m.ops = append(m.ops, svcOp{kind: "upd", service: sv, ttl: t, sp: sp})
			}
		}
	}
	m.ops = append(m.ops, svcOp{kind: "tick", adv: 6 * time.Second})
	return m
}

func (m *svcModel) NumOps() int         { return len(m.ops) }
func (m *svcModel) OpName(i int) string { return m.ops[i].String() }
func (m *svcModel) Enabled(op int) bool { return true }
func (m *svcModel) nowUnix() int64      { return vclock.Base().Unix() }

func (m *svcModel) Reset() {
	for _, kv := range m.st.Dump() {
		if strings.HasPrefix(kv[0], svcPrefix) {
			m.st.DeleteDirect(kv[0])
		}
	}
	m.ref = map[string]ent{}
	m.last = ""
	m.st.PutDirect(gcKey, strconv.FormatUint(50, 16)) // the cluster GC safe point: service calls never touch it
	// virtual time only moves forward over all the histories a worker replays: renew the
	// leadership long before the (very long) lease runs out
	if ls := m.s.VerifMember().GetLeadership(); ls.VerifLeaseExpireTime().Sub(vclock.Base()) < 100000*time.Second {
		m.s.VerifStepDown()
		if err := m.s.VerifBecomeLeader(); err != nil {
			panic("harness: cannot renew the leadership: " + err.Error())
		}
	}
	// start every history on a fresh second so that relative expiry is reproducible
	vclock.Advance(time.Duration(1e9-int64(vclock.Base().Nanosecond())) + 100*time.Second)
	m.s.GetTSOAllocatorManager().VerifAllocatorUpdaterSync()
}

func (m *svcModel) stored() (map[string]ent, error) {
	out := map[string]ent{}
	for _, kv := range m.st.Dump() {
		if strings.HasPrefix(kv[0], svcPrefix) {
			var ssp core.ServiceSafePoint
			if err := json.Unmarshal([]byte(kv[1]), &ssp); err != nil {
				return nil, err
			}
			if svcPrefix+ssp.ServiceID != kv[0] {
				return nil, fmt.Errorf("record under %s names service %q", kv[0], ssp.ServiceID)
			}
			out[ssp.ServiceID] = ent{sp: ssp.SafePoint, exp: ssp.ExpiredAt}
		}
	}
	return out, nil
}

// refState is the sequential reference model of the service safe points.
type refState struct{ ref map[string]ent }

// apply is the reference of one UpdateServiceGCSafePoint call.
func (m *refState) apply(service string, ttl int64, sp uint64, now int64) (minName string, min ent, refErr bool) {
	if ttl <= 0 {
		if service == "gc_worker" {
			return "", ent{}, true
		}
		delete(m.ref, service)
	}
	minName, min = m.refMin(now)
	if ttl > 0 && sp >= min.sp {
		exp := now + ttl
		if math.MaxInt64-now <= ttl {
			exp = math.MaxInt64
		}
		if service == "gc_worker" && exp != math.MaxInt64 {
			return "", ent{}, true
		}
		m.ref[service] = ent{sp, exp}
		if service == minName {
			minName, min = m.refMin(now)
		}
	}
	return minName, min, false
}

func (m *refState) clone() *refState {
	c := &refState{ref: map[string]ent{}}
	for k, v := range m.ref {
		c.ref[k] = v
	}
	return c
}

// refMin is the statement-level reference of "load the minimum": drop expired
// entries, make sure gc_worker exists (never expiring), return the smallest.
func (m *refState) refMin(now int64) (string, ent) {
	if len(m.ref) == 0 {
		m.ref["gc_worker"] = ent{0, math.MaxInt64}
		return "gc_worker", m.ref["gc_worker"]
	}
	if g, ok := m.ref["gc_worker"]; ok && g.exp != math.MaxInt64 {
		g.exp = math.MaxInt64
		m.ref["gc_worker"] = g
	}
	var names []string
	for k := range m.ref {
		names = append(names, k)
	}
	sort.Strings(names)
	minName, min := "", ent{sp: math.MaxUint64}
	for _, k := range names {
		e := m.ref[k]
		if e.exp < now {
			delete(m.ref, k)
			continue
		}
		if e.sp < min.sp {
			minName, min = k, e
		}
	}
	if min.sp == math.MaxUint64 {
		m.ref["gc_worker"] = ent{0, math.MaxInt64}
		return "gc_worker", m.ref["gc_worker"]
	}
	if _, ok := m.ref["gc_worker"]; !ok {
		m.ref["gc_worker"] = ent{min.sp, math.MaxInt64}
		return "gc_worker", m.ref["gc_worker"]
	}
	return minName, min
}

func (m *svcModel) Apply(i int) *hist.Violation {
	o := m.ops[i]
	if o.kind == "tick" {
		vclock.Advance(o.adv)
		m.s.GetTSOAllocatorManager().VerifAllocatorUpdaterSync()
		m.last = "tick"
		return nil
	}
	before, _ := m.stored()
	m.st.FailNth = o.failAt
	resp, err := m.s.UpdateServiceGCSafePoint(context.Background(), &pdpb.UpdateServiceGCSafePointRequest{
		Header: m.s.Header(), ServiceId: []byte(o.service), TTL: o.ttl, SafePoint: o.sp})
	faulted := o.failAt > 0 && m.st.FailNth == 0
	m.st.FailNth = 0
	after, serr := m.stored()
	if serr != nil {
		return &hist.Violation{Key: "stored-garbage", Msg: serr.Error()}
	}
	if g, _ := m.st.Get(gcKey); g != strconv.FormatUint(50, 16) {
		return &hist.Violation{Key: "service-call-changed-gc-safepoint", Msg: fmt.Sprintf("after %s the stored cluster GC safe point is %q (it was 50 = %q)", o, g, strconv.FormatUint(50, 16))}
	}
	now := m.nowUnix()
	if path.Clean("/"+o.service) != "/"+o.service && err != nil {
		// an id that is not a clean path may be refused (nothing changes) or be treated as an
		// ordinary service under exactly that id; it must never reach another record
		// side effects every call may have: the collector's entry is created, expired entries go
		for k, v := range after {
			if b, had := before[k]; (had && b != v) || (!had && k != "gc_worker") {
				return &hist.Violation{Key: "refused-id-changed-state", Msg: fmt.Sprintf("%s was refused (%v) but the stored entries changed: %v -> %v", o, err, before, after)}
			}
		}
		for k, b := range before {
			if _, still := after[k]; !still && b.exp >= now {
				return &hist.Violation{Key: "refused-id-changed-state", Msg: fmt.Sprintf("%s was refused (%v) but the live entry of %s disappeared: %v -> %v", o, err, k, before, after)}
			}
		}
		m.ref = after
		m.last = "err=id"
		return nil
	}
	if faulted && err != nil {
		// a storage request of this call was refused and the call reported an error: nothing was
		// acknowledged; the reference continues from what is stored
		m.ref = after
		m.last = "err=fault"
		return nil
	}
	minName, min, refErr := m.refState.apply(o.service, o.ttl, o.sp, now)
	m.last = fmt.Sprintf("err=%v", err != nil)
	// ---- invariants from the statement ----
	if g, ok := after["gc_worker"]; len(after) > 0 && (!ok || g.exp != math.MaxInt64) {
		return &hist.Violation{Key: "gc-worker-entry", Msg: fmt.Sprintf("after %s the garbage collector's entry is missing or has a finite lifetime: %v", o, after)}
	}
	if err == nil && resp.GetHeader().GetError() == nil {
		for name, e := range after {
			if e.exp >= now && resp.MinSafePoint > e.sp {
				return &hist.Violation{Key: "min-above-live-service", Msg: fmt.Sprintf("after %s the reported minimum %d is above the safe point %d of live service %s", o, resp.MinSafePoint, e.sp, name)}
			}
			if e.exp < now && !faulted {
				return &hist.Violation{Key: "expired-entry-kept", Msg: fmt.Sprintf("after %s the expired entry of %s (expired_at %d, now %d) is still stored", o, name, e.exp, now)}
			}
		}
		if o.ttl <= 0 {
			if _, ok := after[o.service]; ok && o.service != "gc_worker" {
				return &hist.Violation{Key: "nonpositive-ttl-kept", Msg: fmt.Sprintf("after %s the entry of %s is still stored", o, o.service)}
			}
		}
		// a registration below the current minimum is not recorded
		if o.ttl > 0 {
			curMin := uint64(math.MaxUint64)
			for _, e := range before {
				if e.exp >= now && e.sp < curMin {
					curMin = e.sp
				}
			}
			if len(before) > 0 && curMin != math.MaxUint64 && o.sp < curMin {
				if a, ok := after[o.service]; ok && a.sp == o.sp && (before[o.service] != a) {
					return &hist.Violation{Key: "below-min-recorded", Msg: fmt.Sprintf("%s is below the current minimum %d but was recorded", o, curMin)}
				}
			}
		}
	}
	// ---- agreement with the reference ----
	if (err != nil) != refErr {
		return &hist.Violation{Key: "ref-error-mismatch", Msg: fmt.Sprintf("%s: handler error=%v, reference expects error=%v", o, err, refErr)}
	}
	if err == nil {
		if resp.MinSafePoint != min.sp || string(resp.ServiceId) != minName {
			return &hist.Violation{Key: "ref-min-mismatch", Msg: fmt.Sprintf("%s: handler reports min %s=%d, reference %s=%d (stored %v)", o, resp.ServiceId, resp.MinSafePoint, minName, min.sp, after)}
		}
		if fmt.Sprint(after) != fmt.Sprint(m.ref) {
			return &hist.Violation{Key: "ref-stored-mismatch", Msg: fmt.Sprintf("%s: stored %v, reference %v", o, after, m.ref)}
		}
	}
	return nil
}

func (m *svcModel) Key() string {
	st, _ := m.stored()
	now := m.nowUnix()
	var l []string
	for k, e := range st {
		rel := "inf"
		if e.exp != math.MaxInt64 {
			rel = strconv.FormatInt(e.exp-now, 10)
		}
		l = append(l, fmt.Sprintf("%s:%d:%s", k, e.sp, rel))
	}
	sort.Strings(l)
	return strings.Join(l, ",")
}

// manyServices: more registered services than one storage page (the loader reads the service
// safe points through a range scan): n services "br-NNN" at 100, the collector's own entry at
// 50, one service that sorts last ("ticdc") at 60, then renewals / removals; every step is
// judged by the same per-operation oracle and reference as the service-safepoints scope.
func manyServices(tier string, rep *evidence.Reporter, cov *evidence.Coverage) {
	sizes := []int{98, 99, 100, 101, 150}
	if tier == "thorough" {
		sizes = []int{1, 50, 97, 98, 99, 100, 101, 102, 150, 199, 200, 201, 250, 400}
	}
	var steps int64
	m := newSvcModel(false)
	for _, n := range sizes {
		for _, first := range []string{"gc_worker", "br"} {
			var ops []svcOp
			gc := svcOp{kind: "upd", service: "gc_worker", ttl: math.MaxInt64, sp: 50}
			if first == "gc_worker" {
				ops = append(ops, gc)
			}
			for i := 0; i < n; i++ {
				ops = append(ops, svcOp{kind: "upd", service: fmt.Sprintf("br-%03d", i), ttl: 50, sp: 100})
			}
			if first != "gc_worker" {
				ops = append(ops, gc)
			}
			ops = append(ops,
				svcOp{kind: "upd", service: "ticdc", ttl: 50, sp: 60},
				svcOp{kind: "upd", service: "ticdc", ttl: 50, sp: 70},
				svcOp{kind: "upd", service: "br-000", ttl: 50, sp: 110},
				svcOp{kind: "upd", service: "gc_worker", ttl: math.MaxInt64, sp: 55},
				svcOp{kind: "upd", service: "ticdc", ttl: 0, sp: 10},
				svcOp{kind: "tick", adv: 6 * time.Second},
				svcOp{kind: "upd", service: "zz", ttl: 5, sp: 56},
				svcOp{kind: "tick", adv: 6 * time.Second},
				svcOp{kind: "upd", service: "br-001", ttl: 50, sp: 120},
			)
			m.ops = ops
			m.Reset()
			for i := range ops {
				steps++
				if v := m.Apply(i); v != nil {
					rep.Report(&evidence.Violation{Scenario: "many-services", Key: v.Key, Message: fmt.Sprintf("n=%d first=%s step %d (%s): %s", n, first, i, ops[i], v.Msg), Replay: []int{n, i}})
					break
				}
			}
		}
	}
	// far more registrations than any range scan returns in one answer: the storage is filled
	// directly (10 000 services at 1000, the collector at 1000, one service that sorts last at
	// 500), then one request goes through the handler
	{
		m.ops = []svcOp{{kind: "upd", service: "zz-late", ttl: 50, sp: 2000}}
		m.Reset()
		exp := m.nowUnix() + 100000
		put := func(id string, sp uint64, e int64) {
			m.st.PutDirect(svcPrefix+id, fmt.Sprintf(`{"service_id":%q,"expired_at":%d,"safe_point":%d}`, id, e, sp))
			m.ref[id] = ent{sp, e}
		}
		for i := 0; i < 10000; i++ {
			put(fmt.Sprintf("svc-%05d", i), 1000, exp)
		}
		put("gc_worker", 1000, math.MaxInt64)
		put("zz-backup", 500, exp)
		steps++
		if v := m.Apply(0); v != nil {
			msg := v.Msg
			if len(msg) > 400 {
				msg = msg[:400] + "..."
			}
			rep.Report(&evidence.Violation{Scenario: "many-services", Key: v.Key, Message: "10002 registered services, then " + m.ops[0].String() + ": " + msg, Replay: []int{10002, 0}})
		}
	}
	cov.States += steps
	cov.Transitions += steps
	cov.Evaluations += steps
	cov.TracesValidatedAgainstImpl += int64(2*len(sizes) + 1)
	cov.Scenarios = append(cov.Scenarios, map[string]interface{}{"scope": "many-services", "registered_services": sizes, "handler_calls_judged": steps})
	fmt.Printf("C15 many-services sizes=%v handler-calls=%d\n", sizes, steps)
}

func main() {
	defer srvh.Cleanup()
	explore.Main(&explore.Config{
		Property: "C15",
		Extra:    manyServices,
		Scenarios: []*explore.Scenario{
			gcScenario("2x1", [][]uint64{{20}, {10}}, 2, "quick"),
			gcScenario("2x2", [][]uint64{{10, 30}, {20}}, 2, "quick"),
			gcScenario("3x1", [][]uint64{{30}, {20}, {10}}, 2, "quick"),
			gcScenarioF("2x2/storage-faults", [][]uint64{{30, 10}, {20}}, 1, 1, "quick"),
			svcScenario("service-concurrent", 2, "quick"),
			svcScenario("service-concurrent@3", 3, "thorough"),
			gcScenario("3x2@3", [][]uint64{{10, 30}, {20, 20}, {30, 10}}, 3, "thorough"),
			gcScenarioF("2x2/storage-faults@2", [][]uint64{{30, 10}, {20}}, 2, 2, "thorough"),
		},
		HistScopes: []*hist.Scope{
			{Name: "service-safepoints", Tiers: "quick", Depth: 3, NewModel: func() hist.Model { return newSvcModel(false) }},
			{Name: "service-safepoints/storage-faults", Tiers: "quick", Depth: 3, NewModel: func() hist.Model { return newSvcModelFaults() }},
			{Name: "service-safepoints/full", Tiers: "thorough", Depth: 4, NewModel: func() hist.Model { return newSvcModel(true) }},
		},
		Rule: "part 1: all schedules of concurrent UpdateGCSafePoint calls at the granularity of storage reads/writes; part 2: all sequences of service safe point operations (register/renew/remove x TTL x safe point, time passing) up to the depth, deduplicated by stored set with relative expiry",
		Assumptions: []string{
			"fake etcd conformance-checked against embedded etcd",
			"real Server composed by the verif hooks; leader lease made long so that virtual time can pass",
			"service part: reference model written from the statement (minimum over live entries in key order)",
		},
	})
}
