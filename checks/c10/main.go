// Check C10: replica repair never targets bad stores nor shrinks healthy replication.
//
// Engine C (bounded exhaustive input enumeration) on the real
// checker.ReplicaChecker, checker.RuleChecker and
// schedule.CheckerController.CheckRegion with pkg/mock/mockcluster as the
// opt.Cluster. Every enumerated input is a whole cluster (stores with state,
// heartbeat age, space, temporary conditions, labels) plus one region (peers,
// roles, leader, down / pending peers) plus the replication settings
// (max-replicas, location labels, isolation level, placement rules). Every
// proposed operator is executed step by step on the TiKV region simulator
// (verif/engine/regionsim) and the oracle below, written from the property
// statement only, is evaluated on the proposal and on every intermediate
// region state.
//
// Violation keys (stable). <src> = replica-checker | rule-checker | check-region
//
//	target-not-up:<offline|tombstone>/<src>  a peer is added on a store that is not Up
//	target-down/<src>, target-disconnected/<src>, target-low-space/<src>
//	target-special-use/<src>                 store reserved by the specialUse label
//	target-holds-peer/<src>                  the store already holds a peer of the region
//	target-unknown-store/<src>
//	target-breaks-isolation/<src>            another peer (of the same rule) in the same isolation-level location
//	target-violates-label-constraints/<src>  the store matches no rule the new peer could belong to
//	peers-lowered/<src>                      a peer is removed without replacement while voters <= configured / rules unsatisfiable without it
//	healthy-peers-lowered/<src>              same for the number of healthy peers
//	remove-before-add:old=<role>,new=<role>,joint=<on|off>/<src>
//	                                         a replacement removes the old peer before the new one is added and caught up
//	no-repair/<src>                          fewer peers than required, a fresh empty allowed up store exists, nothing proposed
//	no-repair:shadowed-by-temporarily-unusable-store/<src>
//	                                         same, and an operator is proposed as soon as the temporarily unusable stores
//	                                         (disconnected, busy, limits) are taken away: a better isolated store that is
//	                                         only temporarily unusable keeps pd from repairing
//	exec:<what>:<Step>/<src>                 the simulated store refuses a step / a step never finishes
//	panic
//
// Found on the unchanged tree (both literal breaches of the statement, see the report):
//
//	no-repair:shadowed-by-temporarily-unusable-store/*   ReplicaStrategy.SelectStoreToAdd: Top(isolation) before the strict state filter
//	remove-before-add:old=learner,new=voter,joint=off/*  operator.Builder without joint consensus: a learner replaced by a voter is removed first
//
// Usage: ./run.sh C10 quick|thorough [-scope name] [-budget s] [-count]; ./run.sh C10 --replay replays/C10-n.json
// The replay input is the JSON of `input` (stores by position; ids ascending, or descending with desc_ids).
package main

import (
	"context"
	"encoding/json"
	"flag"
	"fmt"
	"os"
	"os/exec"
	"runtime"
	"sort"
	"strings"
	"sync"
	"syscall"
	"time"

	"github.com/pingcap/kvproto/pkg/metapb"
	"github.com/pingcap/kvproto/pkg/pdpb"
	"github.com/pingcap/log"
	"github.com/tikv/pd/pkg/cache"
	"github.com/tikv/pd/pkg/mock/mockcluster"
	"github.com/tikv/pd/pkg/verifshim/vclock"
	"github.com/tikv/pd/server/config"
	"github.com/tikv/pd/server/core"
	"github.com/tikv/pd/server/core/storelimit"
	"github.com/tikv/pd/server/schedule"
	"github.com/tikv/pd/server/schedule/checker"
	"github.com/tikv/pd/server/schedule/operator"
	"github.com/tikv/pd/server/schedule/placement"
	"go.uber.org/zap"
	"verif/engine/enum"
	"verif/engine/evidence"
	"verif/engine/regionsim"
)

const property = "C10"

// ---------------------------------------------------------------- inputs

// store state / heartbeat / temporary conditions
const (
	stUp = iota
	stOffline
	stTombstone
)
const (
	hbConnected    = iota
	hbDisconnected // last heartbeat 1 min ago (> 20 s, < max-store-down-time)
	hbDown         // last heartbeat 2 h ago (> max-store-down-time = 30 min)
)
const (
	tmpNone = iota
	tmpBusy
	tmpAddLimit // add-peer store limit exhausted
	tmpSnapshots
	tmpPendingPeers
)

// peer on the store
const (
	pNone = iota
	pVoter
	pLeader
	pLearner
)
const (
	fNone = iota
	fDown
	fPending
)

var stateStr = []string{"up", "offline", "tombstone"}
var hbStr = []string{"connected", "disconnected", "down"}
var tmpStr = []string{"", "busy", "add-limit", "snapshots", "pending-peers"}
var useStr = []string{"", "reserved", "hotRegion", "engine=tiflash"}
var peerStr = []string{"-", "voter", "leader", "learner"}
var flagStr = []string{"", "(down)", "(pending)"}

// cond is everything about a store that does not depend on the region.
type cond struct {
	State int  `json:"st,omitempty"`
	HB    int  `json:"hb,omitempty"`
	Low   bool `json:"low,omitempty"`
	Tmp   int  `json:"tmp,omitempty"`
	Use   int  `json:"use,omitempty"`  // specialUse label: 1 reserved, 2 hotRegion; 3: the exclusive label engine=tiflash instead (placement rules only)
	Load  int  `json:"load,omitempty"` // 0 empty store, 1 holds 40 regions; with Low: 2 = only 5 regions on an almost full disk
}

func (c cond) good() bool  { return c == cond{} || c == cond{Load: 1} }
func (c cond) fresh() bool { return c == cond{} }

func (c cond) String() string {
	var l []string
	if c.State != stUp {
		l = append(l, stateStr[c.State])
	}
	if c.HB != hbConnected {
		l = append(l, hbStr[c.HB])
	}
	if c.Low {
		l = append(l, "low-space")
	}
	if c.Tmp != 0 {
		l = append(l, tmpStr[c.Tmp])
	}
	if c.Use == 3 {
		l = append(l, useStr[c.Use])
	} else if c.Use != 0 {
		l = append(l, "specialUse="+useStr[c.Use])
	}
	if c.Load == 2 {
		l = append(l, "few-regions")
	} else if c.Load != 0 {
		l = append(l, "loaded")
	}
	if len(l) == 0 {
		return "fresh"
	}
	return strings.Join(l, "+")
}

type storeSpec struct {
	Zone int `json:"z"`           // 1..3; 0 = store without location labels
	Host int `json:"h,omitempty"` // 0 = own host "h<id>"; 1..2 = shared host "z<zone>h<host>"
	cond
	Peer int `json:"p,omitempty"`
	Flag int `json:"f,omitempty"`
}

// rule sets
const (
	rulesOff      = 0
	rulesDefault  = 1 // one rule: voter x max-replicas, location labels / isolation level of the input
	rulesDisjoint = 2 // a: voter x max-replicas in zone z1|z2 (labels / isolation of the input); b: learner x 1 in zone z3
	rulesOverlap  = 3 // a: voter x max-replicas anywhere (labels of the input); b: learner x 1 in zone z3
	rulesNotIn    = 4 // a: voter x max-replicas with zone notIn z3 (labels / isolation of the input); b: voter x 1 in zone z3
)

var rulesStr = []string{"off", "default-rule", "voters(z1|z2)+learner(z3)", "voters(any)+learner(z3)", "voters(!z3)+voter(z3)"}

type input struct {
	MaxReplicas int         `json:"max_replicas"`
	Labels      int         `json:"labels"`    // 0 none, 1 [zone], 2 [zone host]
	Isolation   int         `json:"isolation"` // 0 none, 1 zone, 2 host
	Rules       int         `json:"rules"`
	NoJoint     bool        `json:"no_joint,omitempty"`
	Desc        bool        `json:"desc_ids,omitempty"` // store ids (and the peer list) in descending order of the positions
	Stores      []storeSpec `json:"stores"`
}

func (in *input) id(pos int) uint64 {
	if in.Desc {
		return uint64(len(in.Stores) - pos)
	}
	return uint64(pos + 1)
}

var labelCfg = [][]string{nil, {"zone"}, {"zone", "host"}}
var isoCfg = []string{"", "zone", "host"}

func (in *input) cfgString() string {
	s := fmt.Sprintf("stores=%d max-replicas=%d location-labels=%v isolation-level=%q rules=%s", len(in.Stores), in.MaxReplicas, labelCfg[in.Labels], isoCfg[in.Isolation], rulesStr[in.Rules])
	if in.NoJoint {
		s += " joint-consensus=off"
	}
	return s
}

func (in *input) String() string {
	var l []string
	for i, s := range in.Stores {
		loc := "nolabel"
		if s.Zone != 0 {
			loc = fmt.Sprintf("z%d/%s", s.Zone, hostName(s, in.id(i)))
		}
		l = append(l, fmt.Sprintf("s%d[%s %s %s%s]", in.id(i), loc, s.cond, peerStr[s.Peer], flagStr[s.Flag]))
	}
	return in.cfgString() + " | " + strings.Join(l, " ")
}

func hostName(s storeSpec, id uint64) string {
	if s.Host == 0 {
		return fmt.Sprintf("h%d", id)
	}
	return fmt.Sprintf("z%dh%d", s.Zone, s.Host)
}

func labelsOf(s storeSpec, id uint64) map[string]string {
	m := map[string]string{}
	if s.Zone != 0 {
		m["zone"] = fmt.Sprintf("z%d", s.Zone)
		m["host"] = hostName(s, id)
	}
	if s.Use == 3 {
		m["engine"] = "tiflash" // an exclusive label: only rules that name the key may use the store
	} else if s.Use != 0 {
		m["specialUse"] = useStr[s.Use]
	}
	return m
}

// ---------------------------------------------------------------- the oracle's own view of placement rules

type ruleCons struct {
	Key    string
	NotIn  bool
	Values []string
}

type ruleSpec struct {
	ID        string
	Role      string // voter | learner
	Count     int
	Cons      []ruleCons
	Labels    []string
	Isolation string
}

func (in *input) ruleSpecs() (rules []ruleSpec, disjoint bool) {
	lab, iso := labelCfg[in.Labels], isoCfg[in.Isolation]
	switch in.Rules {
	case rulesDefault:
		return []ruleSpec{{ID: "default", Role: "voter", Count: in.MaxReplicas, Labels: lab, Isolation: iso}}, true
	case rulesDisjoint:
		return []ruleSpec{
			{ID: "a", Role: "voter", Count: in.MaxReplicas, Cons: []ruleCons{{Key: "zone", Values: []string{"z1", "z2"}}}, Labels: lab, Isolation: iso},
			{ID: "b", Role: "learner", Count: 1, Cons: []ruleCons{{Key: "zone", Values: []string{"z3"}}}},
		}, true
	case rulesOverlap:
		return []ruleSpec{
			{ID: "a", Role: "voter", Count: in.MaxReplicas, Labels: lab},
			{ID: "b", Role: "learner", Count: 1, Cons: []ruleCons{{Key: "zone", Values: []string{"z3"}}}},
		}, false
	case rulesNotIn:
		return []ruleSpec{
			{ID: "a", Role: "voter", Count: in.MaxReplicas, Cons: []ruleCons{{Key: "zone", NotIn: true, Values: []string{"z3"}}}, Labels: lab, Isolation: iso},
			{ID: "b", Role: "voter", Count: 1, Cons: []ruleCons{{Key: "zone", Values: []string{"z3"}}}},
		}, true
	}
	return nil, true
}

func (r *ruleSpec) matchLabels(labels map[string]string) bool {
	if labels["engine"] == "tiflash" {
		// exclusive label: the store is only for rules that name the key
		named := false
		for _, c := range r.Cons {
			named = named || c.Key == "engine"
		}
		if !named {
			return false
		}
	}
	for _, c := range r.Cons {
		v := labels[c.Key]
		in := false
		for _, x := range c.Values {
			if x == v && v != "" {
				in = true
			}
		}
		if c.NotIn == in {
			return false
		}
	}
	return true
}

// ---------------------------------------------------------------- cluster

type cfgKey struct {
	N, MaxReplicas, Labels, Isolation, Rules int
	NoJoint                                  bool
}

func (in *input) cfg() cfgKey {
	return cfgKey{len(in.Stores), in.MaxReplicas, in.Labels, in.Isolation, in.Rules, in.NoJoint}
}

// ordCluster fixes the orders that pd takes from Go map iteration (the list of
// all stores, the list of a region's stores): ascending store id / the region's
// peer order. They decide ties between equally good stores; the descending
// variant is enumerated through input.Desc (store ids reversed).
type ordCluster struct {
	*mockcluster.Cluster
}

func (c *ordCluster) GetStores() []*core.StoreInfo {
	l := c.Cluster.GetStores()
	sort.Slice(l, func(i, j int) bool { return l[i].GetID() < l[j].GetID() })
	return l
}

func (c *ordCluster) GetRegionStores(region *core.RegionInfo) []*core.StoreInfo {
	var l []*core.StoreInfo
	for _, p := range region.GetPeers() {
		if s := c.Cluster.GetStore(p.GetStoreId()); s != nil {
			l = append(l, s)
		}
	}
	return l
}

type env struct {
	key      cfgKey
	cl       *ordCluster
	oc       *schedule.OperatorController
	ctx      context.Context
	cancel   context.CancelFunc
	last     []storeSpec // the stores currently in the cluster
	lastDesc bool
	// the replica checker lives as long as the cluster and was created before the replication
	// configuration got its values (configuration changes online)
	rc *checker.ReplicaChecker
	// so does this checker controller, created while the placement-rules switch had the other value
	ctl *schedule.CheckerController
}

func must(err error) {
	if err != nil {
		fmt.Fprintf(os.Stderr, "INFRA: %v\n", err)
		os.Exit(2)
	}
}

func newEnv(in *input) *env {
	ctx, cancel := context.WithCancel(context.Background())
	c := &ordCluster{mockcluster.NewCluster(ctx, config.NewTestOptions())}
	rc := checker.NewReplicaChecker(c, cache.NewDefaultCache(16))
	c.SetEnablePlacementRules(in.Rules == rulesOff)
	oc := schedule.NewOperatorController(ctx, c, nil)
	ctl := schedule.NewCheckerController(ctx, c, c.RuleManager, oc)
	c.SetMaxReplicas(in.MaxReplicas)
	c.SetLocationLabels(labelCfg[in.Labels])
	c.SetIsolationLevel(isoCfg[in.Isolation])
	c.SetMergeScheduleLimit(0) // merge proposals are not part of this property
	if in.NoJoint {
		s := c.GetScheduleConfig().Clone()
		s.EnableJointConsensus = false
		c.SetScheduleConfig(s)
	}
	c.SetEnablePlacementRules(in.Rules != rulesOff)
	if in.Rules != rulesOff {
		specs, _ := in.ruleSpecs()
		for _, r := range specs {
			pr := &placement.Rule{GroupID: "pd", ID: r.ID, Role: placement.PeerRoleType(r.Role), Count: r.Count, LocationLabels: r.Labels, IsolationLevel: r.Isolation}
			for _, cn := range r.Cons {
				op := placement.In
				if cn.NotIn {
					op = placement.NotIn
				}
				pr.LabelConstraints = append(pr.LabelConstraints, placement.LabelConstraint{Key: cn.Key, Op: op, Values: cn.Values})
			}
			must(c.RuleManager.SetRule(pr))
		}
		if in.Rules != rulesDefault {
			must(c.RuleManager.DeleteRule("pd", "default"))
		}
	}
	// ids handed out by the allocator stay away from store ids and the region's peer ids
	for i := 0; i < 5000; i++ {
		c.AllocID()
	}
	return &env{key: in.cfg(), cl: c, oc: oc, ctx: ctx, cancel: cancel, rc: rc, ctl: ctl}
}

const gib = 1 << 30

func putStores(e *env, in *input) {
	// stores do not depend on the region: skip when only the region differs
	if len(e.last) == len(in.Stores) && e.lastDesc == in.Desc {
		same := true
		for i, s := range in.Stores {
			o := e.last[i]
			if o.Zone != s.Zone || o.Host != s.Host || o.cond != s.cond {
				same = false
				break
			}
		}
		if same {
			return
		}
	}
	e.last, e.lastDesc = append(e.last[:0], in.Stores...), in.Desc
	for i, s := range in.Stores {
		id := in.id(i)
		var labels []*metapb.StoreLabel
		lm := labelsOf(s, id)
		for _, key := range []string{"zone", "host", "specialUse", "engine"} {
			if v, ok := lm[key]; ok {
				labels = append(labels, &metapb.StoreLabel{Key: key, Value: v})
			}
		}
		stats := &pdpb.StoreStats{Capacity: 100 * gib, Available: 100 * gib}
		var o []core.StoreCreateOption
		if s.Load == 1 {
			used := uint64(40 * 96 << 20)
			stats.UsedSize, stats.Available = used, stats.Capacity-used
			o = append(o, core.SetRegionCount(40), core.SetRegionSize(40*96))
		}
		if s.Low {
			stats.Available, stats.UsedSize = 1*gib, 99*gib
			if s.Load == 2 {
				// few regions but hardly any space left (1% of a 100 GiB disk, below the 8 GiB
				// under which a nearly empty store is still trusted): low on space all the same
				o = append(o, core.SetRegionCount(5), core.SetRegionSize(5*96))
			} else {
				o = append(o, core.SetRegionCount(1000), core.SetRegionSize(1000*96))
			}
		}
		switch s.Tmp {
		case tmpBusy:
			stats.IsBusy = true
		case tmpSnapshots:
			stats.ReceivingSnapCount = 10
		case tmpAddLimit:
			o = append(o, core.AttachAvailableFunc(storelimit.AddPeer, func() bool { return false }))
		case tmpPendingPeers:
			o = append(o, core.SetPendingPeerCount(100))
		}
		hb := vclock.Epoch
		switch s.HB {
		case hbDisconnected:
			hb = hb.Add(-time.Minute)
		case hbDown:
			hb = hb.Add(-2 * time.Hour)
		}
		o = append(o, core.SetStoreStats(stats), core.SetLastHeartbeatTS(hb))
		switch s.State {
		case stOffline:
			o = append(o, core.OfflineStore(false))
		case stTombstone:
			o = append(o, core.TombstoneStore())
		}
		e.cl.PutStore(core.NewStoreInfo(&metapb.Store{Id: id, Labels: labels}, o...))
	}
}

func buildRegion(in *input) *regionsim.Region {
	var ps []regionsim.Peer
	var leader uint64
	down, pend := map[uint64]bool{}, map[uint64]bool{}
	add := func(i int) {
		s := in.Stores[i]
		if s.Peer == pNone {
			return
		}
		id := in.id(i)
		role := metapb.PeerRole_Voter
		if s.Peer == pLearner {
			role = metapb.PeerRole_Learner
		}
		ps = append(ps, regionsim.Peer{ID: 1000 + id, Store: id, Role: role})
		if s.Peer == pLeader {
			leader = id
		}
		switch s.Flag {
		case fDown:
			down[1000+id] = true
		case fPending:
			pend[1000+id] = true
		}
	}
	if in.Desc {
		for i := len(in.Stores) - 1; i >= 0; i-- {
			add(i)
		}
	} else {
		for i := range in.Stores {
			add(i)
		}
	}
	r := regionsim.New(1, ps, leader)
	for id := range down {
		r.Down[id] = true
	}
	for id := range pend {
		r.Pending[id] = true
	}
	return r
}

// ---------------------------------------------------------------- oracle

type violation struct {
	Key string
	Msg string
}

// world is the oracle's view of the input: only the input specification, never pd's objects.
type world struct {
	in     *input
	spec   map[uint64]storeSpec
	labels map[uint64]map[string]string
	rules  []ruleSpec
	strong bool // the rule set's constraints are pairwise disjoint: a store belongs to at most one rule
}

func newWorld(in *input) *world {
	w := &world{in: in, spec: map[uint64]storeSpec{}, labels: map[uint64]map[string]string{}}
	for i, s := range in.Stores {
		w.spec[in.id(i)] = s
		w.labels[in.id(i)] = labelsOf(s, in.id(i))
	}
	w.rules, w.strong = in.ruleSpecs()
	return w
}

// storeHealthy: a peer on the store can be healthy (store Up and not down).
func (w *world) storeHealthy(id uint64) bool {
	s, ok := w.spec[id]
	return ok && s.State == stUp && s.HB != hbDown
}

func (w *world) healthy(r *regionsim.Region, p regionsim.Peer) bool {
	return !r.Down[p.ID] && !r.Pending[p.ID] && w.storeHealthy(p.Store)
}

type counts struct{ peers, healthy, voters int }

func (w *world) count(r *regionsim.Region) (c counts) {
	for _, p := range r.Peers {
		c.peers++
		if w.healthy(r, p) {
			c.healthy++
		}
		if p.Role != metapb.PeerRole_Learner {
			c.voters++
		}
	}
	return
}

// sameLocation: the stores agree on every location label up to (and including) the isolation level.
func (w *world) sameLocation(a, b uint64, labels []string, isolation string) bool {
	for _, l := range labels {
		if w.labels[a][l] != w.labels[b][l] {
			return false
		}
		if l == isolation {
			return true
		}
	}
	return true
}

// mayReceive is the statement's predicate on the store itself: up, connected,
// not low on space, not reserved for a special use ("" = allowed, otherwise the key suffix).
func (w *world) mayReceive(id uint64) string {
	s, ok := w.spec[id]
	switch {
	case !ok:
		return "target-unknown-store"
	case s.State != stUp:
		return "target-not-up:" + stateStr[s.State]
	case s.HB == hbDown:
		return "target-down"
	case s.HB == hbDisconnected:
		return "target-disconnected"
	case s.Low:
		return "target-low-space"
	case s.Use == 3:
		return "target-exclusive-label" // no rule of the enumerated rule sets names the engine key
	case s.Use != 0:
		return "target-special-use"
	}
	return ""
}

// looseMatch: the peer can count for the rule (labels match; only a learner can fill a learner rule).
func (w *world) looseMatch(rule *ruleSpec, p regionsim.Peer) bool {
	if !rule.matchLabels(w.labels[p.Store]) {
		return false
	}
	return rule.Role != "learner" || p.Role == metapb.PeerRole_Learner
}

func strictRole(rule *ruleSpec, r *regionsim.Region, p regionsim.Peer) bool {
	if rule.Role == "learner" {
		return p.Role == metapb.PeerRole_Learner
	}
	return p.Role != metapb.PeerRole_Learner
}

// satisfiable: the peers of r can be distributed over the rules so that every
// rule gets exactly Count peers on matching stores with the right role.
func (w *world) satisfiable(r *regionsim.Region) bool {
	used := make([]bool, len(r.Peers))
	var rec func(ri, from, need int) bool
	rec = func(ri, from, need int) bool {
		if ri == len(w.rules) {
			return true
		}
		if need == 0 {
			if ri+1 == len(w.rules) {
				return true
			}
			return rec(ri+1, 0, w.rules[ri+1].Count)
		}
		rule := &w.rules[ri]
		for i := from; i < len(r.Peers); i++ {
			if used[i] || !rule.matchLabels(w.labels[r.Peers[i].Store]) || !strictRole(rule, r, r.Peers[i]) {
				continue
			}
			used[i] = true
			if rec(ri, i+1, need-1) {
				used[i] = false
				return true
			}
			used[i] = false
		}
		return false
	}
	if len(w.rules) == 0 {
		return true
	}
	return rec(0, 0, w.rules[0].Count)
}

// repairCandidate: the statement's last sentence. Returns the id of a fresh,
// empty, allowed up store that could take the missing peer (0 = the premise does
// not hold) and whether only a temporarily unusable, better isolated store stands in its way.
func (w *world) repairCandidate(r *regionsim.Region) (cand uint64, why string) {
	in := w.in
	freshFor := func(labels []string, isolation string, others []uint64, rule *ruleSpec, all bool) uint64 {
		for i := range in.Stores {
			id := in.id(i)
			s := in.Stores[i]
			if !s.cond.fresh() || r.StorePeer(id) != nil {
				continue
			}
			if all {
				ok := true
				for ri := range w.rules {
					ok = ok && w.rules[ri].matchLabels(w.labels[id])
				}
				if !ok {
					continue
				}
			} else if rule != nil && !rule.matchLabels(w.labels[id]) {
				continue
			}
			iso := true
			if len(labels) > 0 && isolation != "" {
				for _, o := range others {
					if w.sameLocation(id, o, labels, isolation) {
						iso = false
					}
				}
			}
			if iso {
				return id
			}
		}
		return 0
	}
	if in.Rules == rulesOff {
		if len(r.Peers) >= in.MaxReplicas {
			return 0, ""
		}
		var others []uint64
		for _, p := range r.Peers {
			others = append(others, p.Store)
		}
		return freshFor(labelCfg[in.Labels], isoCfg[in.Isolation], others, nil, false), fmt.Sprintf("the region has %d peers, max-replicas is %d", len(r.Peers), in.MaxReplicas)
	}
	if !w.strong {
		total := 0
		for _, rule := range w.rules {
			total += rule.Count
		}
		if len(r.Peers) >= total {
			return 0, ""
		}
		// a store that every rule accepts, isolation levels are not used by this rule set
		return freshFor(nil, "", nil, nil, true), fmt.Sprintf("the region has %d peers, the rules ask for %d", len(r.Peers), total)
	}
	for ri := range w.rules {
		rule := &w.rules[ri]
		var others []uint64
		for _, p := range r.Peers {
			if w.looseMatch(rule, p) {
				others = append(others, p.Store)
			}
		}
		if len(others) >= rule.Count {
			continue
		}
		if c := freshFor(rule.Labels, rule.Isolation, others, rule, false); c != 0 {
			return c, fmt.Sprintf("rule %s asks for %d peers and has %d", rule.ID, rule.Count, len(others))
		}
	}
	return 0, ""
}

// propose calls the real code under test.
func propose(e *env, src string, info *core.RegionInfo) []*operator.Operator {
	switch src {
	case "replica-checker":
		return []*operator.Operator{e.rc.Check(info)}
	case "rule-checker":
		return []*operator.Operator{checker.NewRuleChecker(e.cl, e.cl.RuleManager, cache.NewDefaultCache(16)).Check(info)}
	case "check-region/long-lived-controller":
		return e.ctl.CheckRegion(info)
	}
	// a new controller per call: the rule checker inside keeps counters between calls
	ctx, cancel := context.WithCancel(e.ctx)
	defer cancel()
	return schedule.NewCheckerController(ctx, e.cl, e.cl.RuleManager, e.oc).CheckRegion(info)
}

// shadowed classifies a missing repair by a counterfactual run of the real
// code: the stores that are unusable only temporarily (disconnected, busy,
// limits) and hold no peer are turned into down stores; if an operator is
// proposed then, the only reason for the missing repair was that pd first picks
// the best isolated stores ignoring temporary conditions and only afterwards
// drops the temporarily unusable ones.
func shadowed(e *env, in *input, src string, r *regionsim.Region) bool {
	mod := *in
	mod.Stores = append([]storeSpec(nil), in.Stores...)
	changed := false
	for i := range mod.Stores {
		s := &mod.Stores[i]
		if s.Peer == pNone && s.State == stUp && s.HB != hbDown && !s.Low && s.Use == 0 && (s.HB == hbDisconnected || s.Tmp != 0) {
			s.HB, s.Tmp = hbDown, tmpNone
			changed = true
		}
	}
	if !changed {
		return false
	}
	putStores(e, &mod)
	defer putStores(e, in)
	for _, op := range propose(e, src, r.Info()) {
		if op != nil {
			return true
		}
	}
	return false
}

// ---------------------------------------------------------------- execution of an operator on the simulator

type counters struct {
	Inputs     int64             `json:"inputs"`
	Canonical  int64             `json:"canonical"`
	Proposing  int64             `json:"proposing"` // inputs with at least one proposed operator
	Calls      int64             `json:"calls"`
	Operators  int64             `json:"operators"`
	Steps      int64             `json:"steps"`
	Skipped    int64             `json:"skipped"`
	States     int64             `json:"states"`
	RandRuns   int64             `json:"rand_runs"`
	RandCapped int64             `json:"rand_capped"`
	RepairDue  int64             `json:"repair_due"`
	IsoChecked int64             `json:"isolation_checked"`
	IsoSkipped int64             `json:"isolation_skipped_surplus"`
	Lowered    int64             `json:"lowering_permitted"`
	Replaced   int64             `json:"replacements"`
	Added      int64             `json:"adds"`
	ByDesc     map[string]int64  `json:"by_desc"`
	StepKinds  map[string]int64  `json:"step_kinds"`
	MaxSteps   int               `json:"max_steps"`
	MaxSample  []string          `json:"max_sample"`
	SampleByOp map[string]string `json:"sample_by_op"`
}

func newCounters() *counters {
	return &counters{ByDesc: map[string]int64{}, StepKinds: map[string]int64{}, SampleByOp: map[string]string{}}
}

func stepType(s operator.OpStep) string {
	return strings.TrimPrefix(fmt.Sprintf("%T", s), "operator.")
}

func roleOf(p *regionsim.Peer) string {
	switch {
	case p == nil:
		return "none"
	case p.Role == metapb.PeerRole_Learner:
		return "learner"
	}
	return "voter"
}

func addTarget(s operator.OpStep) (store, peerID uint64, ok bool) {
	switch a := s.(type) {
	case operator.AddPeer:
		return a.ToStore, a.PeerID, true
	case operator.AddLearner:
		return a.ToStore, a.PeerID, true
	case operator.AddLightPeer:
		return a.ToStore, a.PeerID, true
	case operator.AddLightLearner:
		return a.ToStore, a.PeerID, true
	}
	return 0, 0, false
}

type runner struct {
	cnt     *counters
	verbose bool
}

func (rn *runner) logf(f string, a ...interface{}) {
	if rn.verbose {
		fmt.Printf(f+"\n", a...)
	}
}

func opString(op *operator.Operator) string {
	var l []string
	for i := 0; i < op.Len(); i++ {
		l = append(l, op.Step(i).String())
	}
	return op.Desc() + ": " + strings.Join(l, " ; ")
}

// execute runs one proposed operator on a copy of the region and evaluates the statement.
func (rn *runner) execute(w *world, src string, op *operator.Operator, r0 *regionsim.Region) *violation {
	in := w.in
	r := r0.Clone()
	bad := func(key, f string, a ...interface{}) *violation {
		return &violation{Key: key + "/" + src, Msg: fmt.Sprintf("%s proposes [%s] for region %s: ", src, opString(op), r0) + fmt.Sprintf(f, a...)}
	}
	rn.cnt.Operators++
	rn.cnt.States++
	rn.cnt.ByDesc[src+":"+op.Desc()]++
	if op.RegionID() != r.ID {
		return bad("exec:wrong-region", "operator is for region %d", op.RegionID())
	}
	init := w.count(r)
	initPending := map[uint64]bool{}
	for id := range r.Pending {
		initPending[id] = true
	}
	added := map[uint64]uint64{} // store -> peer id
	removed := 0
	hasAdd := false
	newRole := "learner" // role the added peer ends with
	for i := 0; i < op.Len(); i++ {
		if _, _, ok := addTarget(op.Step(i)); ok {
			hasAdd = true
		}
		switch st := op.Step(i).(type) {
		case operator.AddPeer, operator.AddLightPeer, operator.PromoteLearner:
			newRole = "voter"
		case operator.ChangePeerV2Enter:
			if len(st.PromoteLearners) > 0 {
				newRole = "voter"
			}
		}
	}
	// after: evaluated on every region state the execution goes through
	after := func(at string, before counts) *violation {
		rn.cnt.States++
		c := w.count(r)
		lowP := c.peers < init.peers && c.peers < before.peers
		lowH := c.healthy < init.healthy && c.healthy < before.healthy
		if !lowP && !lowH {
			return nil
		}
		var permitted bool
		var why string
		if in.Rules == rulesOff {
			permitted = before.voters > in.MaxReplicas
			why = fmt.Sprintf("the region had %d voters, max-replicas is %d", before.voters, in.MaxReplicas)
		} else {
			permitted = w.satisfiable(r)
			why = "the remaining peers cannot satisfy all rules (the removed peer was no orphan of a satisfied rule set)"
		}
		if permitted {
			rn.cnt.Lowered++
			return nil
		}
		if lowP {
			return bad("peers-lowered", "%s lowers the number of peers from %d to %d (initially %d) but %s; now %s", at, before.peers, c.peers, init.peers, why, r)
		}
		return bad("healthy-peers-lowered", "%s lowers the number of healthy peers from %d to %d (initially %d) but %s; now %s", at, before.healthy, c.healthy, init.healthy, why, r)
	}
	for i := 0; i < op.Len(); i++ {
		step := op.Step(i)
		typ := stepType(step)
		if step.IsFinish(r.Info()) {
			rn.cnt.Skipped++
			rn.logf("    step %d %s: already finished, skipped", i+1, step)
			continue
		}
		at := fmt.Sprintf("step %d/%d [%s]", i+1, op.Len(), step)
		if store, pid, ok := addTarget(step); ok {
			rn.cnt.Added++
			if key := w.mayReceive(store); key != "" {
				return bad(key, "%s adds a peer on store %d which is %s", at, store, w.spec[store].cond)
			}
			if p := r.StorePeer(store); p != nil {
				return bad("target-holds-peer", "%s adds a peer on store %d which already holds peer %d of the region", at, store, p.ID)
			}
			added[store] = pid
		}
		if rm, ok := step.(operator.RemovePeer); ok {
			removed++
			if hasAdd {
				// a replacement: the new peer must be there and caught up before the old one goes
				class := fmt.Sprintf("remove-before-add:old=%s,new=%s,joint=%s", roleOf(r.StorePeer(rm.FromStore)), newRole, map[bool]string{false: "on", true: "off"}[in.NoJoint])
				if len(added) == 0 {
					return bad(class, "%s removes the peer on store %d before the replacement is added", at, rm.FromStore)
				}
				for st, pid := range added {
					if p := r.PeerByID(pid); p == nil || r.Pending[pid] {
						return bad(class, "%s removes the peer on store %d while the replacement on store %d has not caught up", at, rm.FromStore, st)
					}
				}
			}
		}
		before := w.count(r)
		rn.cnt.Steps++
		rn.cnt.StepKinds[typ]++
		sent, err := r.Apply(step)
		if err != nil || !sent {
			return bad("exec:store-refuses:"+typ, "%s: the simulated store does not execute the step (sent=%v): %v", at, sent, err)
		}
		if v := after(at, before); v != nil {
			return v
		}
		// the new peer catches up (peers pending from the start stay pending)
		caught := false
		for id := range r.Pending {
			if !initPending[id] {
				delete(r.Pending, id)
				caught = true
			}
		}
		if caught {
			rn.cnt.States++
		}
		rn.logf("    step %d %s -> %s", i+1, step, r)
		if !step.IsFinish(r.Info()) {
			return bad("exec:not-finished:"+typ, "%s does not report finished on %s", at, r)
		}
	}
	if op.Len() > rn.cnt.MaxSteps {
		rn.cnt.MaxSteps = op.Len()
		rn.cnt.MaxSample = []string{in.String(), src + " => " + opString(op)}
	}
	if _, ok := rn.cnt.SampleByOp[src+":"+op.Desc()]; !ok {
		rn.cnt.SampleByOp[src+":"+op.Desc()] = in.String() + " => " + opString(op) + " => " + r.String()
	}
	if len(added) > 0 && removed > 0 {
		rn.cnt.Replaced++
	}
	// the final placement: isolation level and label constraints for every added peer
	for store, pid := range added {
		np := r.PeerByID(pid)
		if np == nil {
			return bad("exec:added-peer-missing", "after all steps the peer %d added on store %d is not in the region %s", pid, store, r)
		}
		if in.Rules == rulesOff {
			labels, iso := labelCfg[in.Labels], isoCfg[in.Isolation]
			if len(labels) == 0 || iso == "" {
				continue
			}
			rn.cnt.IsoChecked++
			for _, o := range r.Peers {
				if o.ID != pid && w.sameLocation(store, o.Store, labels, iso) {
					return bad("target-breaks-isolation", "the new peer on store %d shares the %s with the peer on store %d (isolation-level %q, location labels %v); final region %s", store, iso, o.Store, iso, labels, r)
				}
			}
			continue
		}
		// rules the new peer can belong to
		var mine []*ruleSpec
		for ri := range w.rules {
			rule := &w.rules[ri]
			if rule.matchLabels(w.labels[store]) && (rule.Role == "learner") == (np.Role == metapb.PeerRole_Learner) {
				mine = append(mine, rule)
			}
		}
		if len(mine) == 0 {
			return bad("target-violates-label-constraints", "the new %s on store %d (labels %v) matches the label constraints of no %s rule", strings.ToLower(np.Role.String()), store, w.labels[store], strings.ToLower(np.Role.String()))
		}
		if !w.strong || len(mine) != 1 {
			continue
		}
		rule := mine[0]
		if len(rule.Labels) == 0 || rule.Isolation == "" {
			continue
		}
		var others []regionsim.Peer
		for _, o := range r.Peers {
			if o.ID != pid && w.looseMatch(rule, o) {
				others = append(others, o)
			}
		}
		if len(others) > rule.Count-1 {
			// surplus peers on the rule's stores: which of them belong to the rule is the fitter's choice
			rn.cnt.IsoSkipped++
			continue
		}
		rn.cnt.IsoChecked++
		for _, o := range others {
			if w.sameLocation(store, o.Store, rule.Labels, rule.Isolation) {
				return bad("target-breaks-isolation", "the new peer on store %d shares the %s with the peer on store %d of the same rule %s (isolation-level %q, location labels %v); final region %s", store, rule.Isolation, o.Store, rule.ID, rule.Isolation, rule.Labels, r)
			}
		}
	}
	return nil
}

// evalOnce evaluates one input for one outcome of the random draws.
func (rn *runner) evalOnce(e *env, in *input, w *world) (v *violation, proposed bool) {
	defer func() {
		if p := recover(); p != nil {
			buf := make([]byte, 4096)
			buf = buf[:runtime.Stack(buf, false)]
			v = &violation{Key: "panic", Msg: fmt.Sprintf("panic: %v\n%s", p, buf)}
		}
	}()
	r := buildRegion(in)
	cand, why := w.repairCandidate(r)
	if cand != 0 {
		rn.cnt.RepairDue++
	}
	check := func(src string, ops []*operator.Operator) *violation {
		rn.cnt.Calls++
		n := 0
		for _, op := range ops {
			if op == nil {
				continue
			}
			n++
			proposed = true
			rn.logf("  %s proposes %s", src, opString(op))
			if v := rn.execute(w, src, op, r); v != nil {
				return v
			}
		}
		if n == 0 {
			rn.logf("  %s proposes nothing", src)
			if cand != 0 {
				key := "no-repair"
				if shadowed(e, in, src, r) {
					key = "no-repair:shadowed-by-temporarily-unusable-store"
				}
				return &violation{Key: key + "/" + src, Msg: fmt.Sprintf("%s proposes nothing for region %s although %s and store %d is a fresh, empty, allowed up store", src, r, why, cand)}
			}
		}
		return nil
	}
	direct := "replica-checker"
	if in.Rules != rulesOff {
		direct = "rule-checker"
	}
	for _, src := range []string{direct, "check-region", "check-region/long-lived-controller"} {
		if v := check(src, propose(e, src, r.Info())); v != nil {
			return v, proposed
		}
	}
	return nil, proposed
}

func (rn *runner) eval(e *env, in *input) *violation {
	rn.cnt.Inputs++
	putStores(e, in)
	w := newWorld(in)
	var v *violation
	proposed := false
	if n := enum.All(256, func() {
		rn.cnt.RandRuns++
		v1, p1 := rn.evalOnce(e, in, w)
		proposed = proposed || p1
		if v1 != nil && v == nil {
			v = v1
		}
	}); n < 0 {
		rn.cnt.RandCapped++
	}
	if proposed {
		rn.cnt.Proposing++
	}
	return v
}

// ---------------------------------------------------------------- enumeration

// A scope enumerates, for every configuration, every cluster + region that is
// the canonical representative of its symmetry class: stores are interchangeable
// (the input is a multiset of store descriptions), zones can be renamed when no
// rule names them, the two shared hosts of a zone can be swapped.
type scopeSpec struct {
	name, tiers, desc string
	weight            float64 // expected number of inputs in millions (share of the time budget)
	n                 []int   // numbers of stores
	maxReplicas       []int
	labelIso          [][2]int // (labels, isolation) pairs
	rules             []int
	zones             int    // zones used: 1..zones
	nolabel           bool   // a store without labels is possible
	hosts             bool   // shared hosts (two per zone) instead of one host per store
	first             []cond // conditions of the first not-good store
	others            []cond // conditions of further not-good stores
	goods             []cond // conditions of good stores (fresh / loaded)
	maxBad            int
	maxPeers          int
	learners          bool
	maxFlags          int // peers reported down or pending
	leaderFlags       bool
	noJoint           []bool
	desc_             []bool
}

type genCtx struct {
	shard, n int
	block    int
	deadline time.Time
	stopped  bool
	emit     func(in *input)
	count    int64
}

func (g *genCtx) Block() bool {
	if g.stopped {
		return false
	}
	if !g.deadline.IsZero() && time.Now().After(g.deadline) {
		g.stopped = true
		return false
	}
	b := g.block
	g.block++
	return b%g.n == g.shard
}

// symmetry group element: zone renaming and per-zone swap of the shared hosts
type sym struct {
	zone [4]int
	swap [4]bool
}

func symmetries(zones int, zoneRenaming [][]int, hosts bool) []sym {
	var out []sym
	for _, zp := range zoneRenaming {
		nsw := 1
		if hosts {
			nsw = 1 << uint(zones)
		}
		for m := 0; m < nsw; m++ {
			var s sym
			for z := 1; z <= 3; z++ {
				s.zone[z] = z
			}
			for i, z := range zp {
				s.zone[i+1] = z
			}
			for z := 1; z <= zones; z++ {
				s.swap[z] = m&(1<<uint(z-1)) != 0
			}
			out = append(out, s)
		}
	}
	return out
}

func permutations(n int) [][]int {
	if n == 0 {
		return [][]int{{}}
	}
	var out [][]int
	var rec func(cur []int, used int)
	rec = func(cur []int, used int) {
		if len(cur) == n {
			out = append(out, append([]int(nil), cur...))
			return
		}
		for z := 1; z <= n; z++ {
			if used&(1<<uint(z)) == 0 {
				rec(append(cur, z), used|1<<uint(z))
			}
		}
	}
	rec(nil, 0)
	return out
}

// store code: (zone, host) most significant, then the condition index, then the peer code
type scode struct{ zh, cond, peer int }

func zhCode(zone, host int) int { return zone*3 + host }

func (s sym) apply(zh int) int {
	zone, host := zh/3, zh%3
	if zone == 0 {
		return zh
	}
	nz := s.zone[zone]
	if host != 0 && s.swap[zone] {
		host = 3 - host
	}
	return zhCode(nz, host)
}

// cmpUnder compares g(codes) (re-sorted) with codes on the first `level` fields:
// -1 smaller (codes is not canonical), 0 equal (g stabilises), 1 greater.
func cmpUnder(g sym, codes []scode, level int) int {
	var img [8]scode
	n := len(codes)
	for i, c := range codes {
		img[i] = scode{zh: g.apply(c.zh)}
		if level >= 2 {
			img[i].cond = c.cond
		}
		if level >= 3 {
			img[i].peer = c.peer
		}
	}
	less := func(a, b scode) bool {
		if a.zh != b.zh {
			return a.zh < b.zh
		}
		if a.cond != b.cond {
			return a.cond < b.cond
		}
		return a.peer < b.peer
	}
	// insertion sort
	for i := 1; i < n; i++ {
		for j := i; j > 0 && less(img[j], img[j-1]); j-- {
			img[j], img[j-1] = img[j-1], img[j]
		}
	}
	for i := 0; i < n; i++ {
		o := codes[i]
		if level < 2 {
			o.cond = 0
		}
		if level < 3 {
			o.peer = 0
		}
		if less(img[i], o) {
			return -1
		}
		if less(o, img[i]) {
			return 1
		}
	}
	return 0
}

// canonical filters the group down to the stabiliser; false when some element maps codes to something smaller.
func canonical(group []sym, codes []scode, level int) ([]sym, bool) {
	var stab []sym
	for _, g := range group {
		switch cmpUnder(g, codes, level) {
		case -1:
			return nil, false
		case 0:
			stab = append(stab, g)
		}
	}
	return stab, true
}

func (sc *scopeSpec) gen(g *genCtx) {
	for _, n := range sc.n {
		for _, rules := range sc.rules {
			// zone renamings that are symmetries of the rule set
			var ren [][]int
			switch rules {
			case rulesOff, rulesDefault:
				ren = permutations(sc.zones)
			default:
				id3, sw3 := []int{1, 2, 3}, []int{2, 1, 3}
				ren = [][]int{id3[:sc.zones]}
				if sc.zones >= 2 {
					ren = append(ren, sw3[:sc.zones])
				}
			}
			group := symmetries(sc.zones, ren, sc.hosts)
			for _, mr := range sc.maxReplicas {
				for _, li := range sc.labelIso {
					if rules == rulesOverlap && li[1] != 0 {
						continue
					}
					for _, nj := range sc.noJoint {
						for _, ds := range sc.desc_ {
							base := input{MaxReplicas: mr, Labels: li[0], Isolation: li[1], Rules: rules, NoJoint: nj, Desc: ds}
							sc.genStores(g, n, group, base)
						}
					}
				}
			}
		}
	}
}

func (sc *scopeSpec) genStores(g *genCtx, n int, group []sym, base input) {
	// 1. layouts: non-decreasing (zone, host) sequences
	var zhs []int
	if sc.nolabel {
		zhs = append(zhs, 0)
	}
	for z := 1; z <= sc.zones; z++ {
		if sc.hosts {
			zhs = append(zhs, zhCode(z, 1), zhCode(z, 2))
		} else {
			zhs = append(zhs, zhCode(z, 0))
		}
	}
	// conditions: index 0.. = goods, then first, then others (deduplicated, stable order)
	var conds []cond
	idx := map[cond]int{}
	addc := func(c cond) {
		if _, ok := idx[c]; !ok {
			idx[c] = len(conds)
			conds = append(conds, c)
		}
	}
	for _, c := range sc.goods {
		addc(c)
	}
	for _, c := range sc.first {
		addc(c)
	}
	for _, c := range sc.others {
		addc(c)
	}
	isOther := map[int]bool{}
	for _, c := range sc.others {
		isOther[idx[c]] = true
	}
	codes := make([]scode, n)
	var layout func(pos, from int)
	var condv func(pos int, stab []sym, bad, badNotOther int)
	var peers func(pos int, stab []sym, np, leaders, flags int)
	layout = func(pos, from int) {
		if pos == n {
			stab, ok := canonical(group, codes, 1)
			if !ok {
				return
			}
			condv(0, stab, 0, 0)
			return
		}
		for i := from; i < len(zhs); i++ {
			codes[pos] = scode{zh: zhs[i]}
			layout(pos+1, i)
		}
	}
	condv = func(pos int, stab []sym, bad, badNotOther int) {
		if pos == n {
			stab2, ok := canonical(stab, codes, 2)
			if !ok {
				return
			}
			if !g.Block() {
				return
			}
			peers(0, stab2, 0, 0, 0)
			return
		}
		from := 0
		if pos > 0 && codes[pos-1].zh == codes[pos].zh {
			from = codes[pos-1].cond
		}
		for ci := from; ci < len(conds); ci++ {
			b, bn := bad, badNotOther
			if !conds[ci].good() {
				b++
				if !isOther[ci] {
					bn++
				}
			}
			// at most maxBad not-good stores, at most one of them outside the `others` list
			if b > sc.maxBad || bn > 1 {
				continue
			}
			codes[pos].cond = ci
			condv(pos+1, stab, b, bn)
		}
		codes[pos].cond = 0
	}
	peers = func(pos int, stab []sym, np, leaders, flags int) {
		if g.stopped {
			return
		}
		if pos == n {
			if leaders != 1 {
				return
			}
			if _, ok := canonical(stab, codes, 3); !ok {
				return
			}
			in := base
			in.Stores = make([]storeSpec, n)
			for i, c := range codes {
				in.Stores[i] = storeSpec{Zone: c.zh / 3, Host: c.zh % 3, cond: conds[c.cond], Peer: c.peer / 3, Flag: c.peer % 3}
			}
			g.count++
			g.emit(&in)
			return
		}
		from := 0
		if pos > 0 && codes[pos-1].zh == codes[pos].zh && codes[pos-1].cond == codes[pos].cond {
			from = codes[pos-1].peer
		}
		for pc := from; pc < 12; pc++ {
			p, f := pc/3, pc%3
			if p == pNone && f != fNone {
				continue
			}
			if p == pLearner && !sc.learners {
				continue
			}
			if p == pLeader && (leaders == 1 || (f != fNone && !sc.leaderFlags)) {
				continue
			}
			nnp, nf := np, flags
			if p != pNone {
				nnp++
			}
			if f != fNone {
				nf++
			}
			if nnp > sc.maxPeers || nf > sc.maxFlags {
				continue
			}
			nl := leaders
			if p == pLeader {
				nl++
			}
			codes[pos].peer = pc
			peers(pos+1, stab, nnp, nl, nf)
		}
		codes[pos].peer = 0
	}
	layout(0, 0)
}

// ---- condition lists

var fresh = cond{}
var loaded = cond{Load: 1}

func allHealthCombos() []cond {
	var out []cond
	for st := 0; st < 3; st++ {
		for hb := 0; hb < 3; hb++ {
			for _, low := range []bool{false, true} {
				c := cond{State: st, HB: hb, Low: low}
				if c != fresh {
					out = append(out, c)
				}
			}
		}
	}
	return out
}

var singleFaults = []cond{{State: stOffline}, {State: stTombstone}, {HB: hbDisconnected}, {HB: hbDown}, {Low: true}, {Low: true, Load: 2}}
var tempFaults = []cond{{Tmp: tmpBusy}, {Tmp: tmpAddLimit}, {Tmp: tmpSnapshots}, {Tmp: tmpPendingPeers}}
var useFaults = []cond{{Use: 1}, {Use: 2}}

func cat(ls ...[]cond) []cond {
	var out []cond
	for _, l := range ls {
		out = append(out, l...)
	}
	return out
}

var allLabelIso = [][2]int{{0, 0}, {1, 0}, {1, 1}, {2, 0}, {2, 1}, {2, 2}}

func scopes() []*scopeSpec {
	ft := []bool{false, true}
	f := []bool{false}
	mr15 := []int{1, 2, 3, 4, 5}
	zoneIso := [][2]int{{0, 0}, {1, 0}, {1, 1}}
	return []*scopeSpec{
		{name: "replica/4stores/1bad", tiers: "quick", weight: 0.5,
			desc: "replica checker + CheckRegion, 4 stores in <=3 zones (own hosts), max-replicas 1..5 x {no labels, [zone], [zone]+isolation zone}; <=1 not-good store with any state x heartbeat x space combination, a temporary condition (busy, add-peer limit, snapshots, pending peers) or a specialUse label; region <=4 peers with learners, <=1 peer down or pending",
			n:    []int{4}, maxReplicas: mr15, labelIso: zoneIso, rules: []int{rulesOff}, zones: 3,
			goods: []cond{fresh}, first: cat(allHealthCombos(), tempFaults, useFaults), maxBad: 1,
			maxPeers: 4, learners: true, maxFlags: 1, noJoint: f, desc_: f},
		{name: "replica/4stores/2bad", tiers: "quick", weight: 0.9,
			desc: "as before with max-replicas 2..4 and <=2 not-good stores: one single fault (offline, tombstone, disconnected, down, low space) or busy / add-peer limit, the other a single fault",
			n:    []int{4}, maxReplicas: []int{2, 3, 4}, labelIso: zoneIso, rules: []int{rulesOff}, zones: 3,
			goods: []cond{fresh}, first: cat(singleFaults, tempFaults[:2]), others: singleFaults, maxBad: 2,
			maxPeers: 4, learners: true, maxFlags: 1, noJoint: f, desc_: f},
		{name: "replica/5stores", tiers: "quick", weight: 0.72,
			desc: "5 stores in <=3 zones, max-replicas 1..5 x {no labels, [zone], [zone]+isolation zone}; <=1 not-good store (single fault or busy); region <=4 peers with learners, <=1 down or pending; joint consensus on/off",
			n:    []int{5}, maxReplicas: mr15, labelIso: zoneIso, rules: []int{rulesOff}, zones: 3,
			goods: []cond{fresh}, first: cat(singleFaults, tempFaults[:1]), maxBad: 1,
			maxPeers: 4, learners: true, maxFlags: 1, noJoint: ft, desc_: f},
		{name: "replica/hosts", tiers: "quick", weight: 0.15,
			desc: "4 stores on shared hosts (2 zones x 2 hosts), location labels [zone host] x isolation {none, zone, host}, max-replicas 2..4; <=1 not-good store (single fault or busy); region <=3 voters, <=1 down or pending; joint consensus on/off; ascending and descending store ids",
			n:    []int{4}, maxReplicas: []int{2, 3, 4}, labelIso: [][2]int{{2, 0}, {2, 1}, {2, 2}}, rules: []int{rulesOff}, zones: 2, hosts: true,
			goods: []cond{fresh}, first: cat(singleFaults, tempFaults[:1]), maxBad: 1,
			maxPeers: 3, learners: false, maxFlags: 1, noJoint: ft, desc_: ft},
		{name: "replica/loaded+nolabel", tiers: "quick", weight: 0.4,
			desc: "4 stores in <=2 zones or without labels, each good store empty or holding 40 regions; max-replicas 2..3 x {[zone], [zone]+isolation zone}; <=1 single-fault store; region <=3 peers with learners, <=1 down or pending",
			n:    []int{4}, maxReplicas: []int{2, 3}, labelIso: [][2]int{{1, 0}, {1, 1}}, rules: []int{rulesOff}, zones: 2, nolabel: true,
			goods: []cond{fresh, loaded}, first: singleFaults, maxBad: 1,
			maxPeers: 3, learners: true, maxFlags: 1, noJoint: f, desc_: f},
		{name: "rules/4stores/1bad", tiers: "quick", weight: 1.4,
			desc: "rule checker + CheckRegion with rule sets default-rule / voters(z1|z2)+learner(z3) / voters(any)+learner(z3) / voters(!z3)+voter(z3); 4 stores in 3 zones, count 1..3 x {no labels, [zone], [zone]+isolation zone}; <=1 not-good store (single fault, busy, add-peer limit, specialUse); region <=4 peers with learners, <=1 down or pending",
			n:    []int{4}, maxReplicas: []int{1, 2, 3}, labelIso: zoneIso, rules: []int{rulesDefault, rulesDisjoint, rulesOverlap, rulesNotIn}, zones: 3,
			goods: []cond{fresh}, first: cat(singleFaults, tempFaults[:2], useFaults[:1], []cond{{Use: 3}}), maxBad: 1,
			maxPeers: 4, learners: true, maxFlags: 1, noJoint: f, desc_: f},
		{name: "rules/4stores/2bad", tiers: "quick", weight: 1.0,
			desc: "rule set voters(z1|z2)+learner(z3) with count 2, [zone]+isolation zone; <=2 not-good stores (single fault / busy / add-peer limit / specialUse + offline / tombstone / disconnected / down); joint consensus on/off",
			n:    []int{4}, maxReplicas: []int{2}, labelIso: [][2]int{{1, 1}}, rules: []int{rulesDisjoint}, zones: 3,
			goods: []cond{fresh}, first: cat(singleFaults, tempFaults[:2], useFaults[:1]), others: singleFaults[:4], maxBad: 2,
			maxPeers: 4, learners: true, maxFlags: 1, noJoint: ft, desc_: f},
		// thorough
		{name: "replica/4stores/2bad-all", tiers: "thorough", weight: 8.5,
			desc: "replica checker + CheckRegion, 4 stores in <=3 zones, max-replicas 1..5 x {no labels, [zone], [zone]+isolation zone}; <=2 not-good stores: one with any state x heartbeat x space combination / temporary condition / specialUse label, the other a single fault or busy / add-peer limit; region <=4 peers with learners, <=1 peer down or pending",
			n:    []int{4}, maxReplicas: mr15, labelIso: zoneIso, rules: []int{rulesOff}, zones: 3,
			goods: []cond{fresh}, first: cat(allHealthCombos(), tempFaults, useFaults), others: cat(singleFaults, tempFaults[:2]), maxBad: 2,
			maxPeers: 4, learners: true, maxFlags: 1, noJoint: f, desc_: f},
		{name: "replica/4stores/flags", tiers: "thorough", weight: 3.9,
			desc: "4 stores in <=3 zones, max-replicas 1..5 x {no labels, [zone], [zone]+isolation zone}; <=1 not-good store (any combination); region <=4 peers with learners, <=2 peers down or pending including the leader; joint consensus on/off",
			n:    []int{4}, maxReplicas: mr15, labelIso: zoneIso, rules: []int{rulesOff}, zones: 3,
			goods: []cond{fresh}, first: cat(allHealthCombos(), tempFaults, useFaults), maxBad: 1,
			maxPeers: 4, learners: true, maxFlags: 2, leaderFlags: true, noJoint: ft, desc_: f},
		{name: "replica/5stores/2bad", tiers: "thorough", weight: 5.9,
			desc: "5 stores in <=3 zones, max-replicas 1..5 x {no labels, [zone], [zone]+isolation zone}; <=2 single-fault stores; region <=4 peers with learners, <=1 down or pending; ascending and descending store ids",
			n:    []int{5}, maxReplicas: mr15, labelIso: zoneIso, rules: []int{rulesOff}, zones: 3,
			goods: []cond{fresh}, first: singleFaults, others: singleFaults, maxBad: 2,
			maxPeers: 4, learners: true, maxFlags: 1, noJoint: f, desc_: ft},
		{name: "replica/hosts/5stores", tiers: "thorough", weight: 6.5,
			desc: "5 stores on shared hosts (2 zones x 2 hosts), location labels [zone host] x isolation {none, zone, host}, max-replicas 2..4; <=2 not-good stores (single fault or busy + single fault); region <=4 voters, <=1 down or pending; joint consensus on/off; ascending and descending store ids",
			n:    []int{5}, maxReplicas: []int{2, 3, 4}, labelIso: [][2]int{{2, 0}, {2, 1}, {2, 2}}, rules: []int{rulesOff}, zones: 2, hosts: true,
			goods: []cond{fresh}, first: cat(singleFaults, tempFaults[:1]), others: singleFaults, maxBad: 2,
			maxPeers: 4, learners: false, maxFlags: 1, noJoint: ft, desc_: ft},
		{name: "replica/loaded+nolabel", tiers: "thorough", weight: 11.1,
			desc: "4 stores in <=3 zones or without labels, each good store empty or holding 40 regions; max-replicas 2..4 x {no labels, [zone], [zone]+isolation zone}; <=2 not-good stores (single fault or busy + single fault); region <=4 peers with learners, <=1 down or pending",
			n:    []int{4}, maxReplicas: []int{2, 3, 4}, labelIso: zoneIso, rules: []int{rulesOff}, zones: 3, nolabel: true,
			goods: []cond{fresh, loaded}, first: cat(singleFaults, tempFaults[:1]), others: singleFaults, maxBad: 2,
			maxPeers: 4, learners: true, maxFlags: 1, noJoint: f, desc_: f},
		{name: "rules/4stores/2bad", tiers: "thorough", weight: 27,
			desc: "rule checker + CheckRegion with the four rule sets; 4 stores in 3 zones, count 1..3 x {no labels, [zone], [zone]+isolation zone}; <=2 not-good stores (single fault / busy / add-peer limit / specialUse + offline / tombstone / disconnected / down); region <=4 peers with learners, <=1 down or pending; ascending and descending store ids",
			n:    []int{4}, maxReplicas: []int{1, 2, 3}, labelIso: zoneIso, rules: []int{rulesDefault, rulesDisjoint, rulesOverlap, rulesNotIn}, zones: 3,
			goods: []cond{fresh}, first: cat(singleFaults, tempFaults[:2], useFaults[:1]), others: singleFaults[:4], maxBad: 2,
			maxPeers: 4, learners: true, maxFlags: 1, noJoint: f, desc_: ft},
		{name: "rules/5stores/1bad", tiers: "thorough", weight: 4.2,
			desc: "the four rule sets, 5 stores in 3 zones, count 1..3 x {no labels, [zone], [zone]+isolation zone}; <=1 not-good store (single fault / busy / add-peer limit / specialUse); region <=4 peers with learners, <=1 down or pending",
			n:    []int{5}, maxReplicas: []int{1, 2, 3}, labelIso: zoneIso, rules: []int{rulesDefault, rulesDisjoint, rulesOverlap, rulesNotIn}, zones: 3,
			goods: []cond{fresh}, first: cat(singleFaults, tempFaults[:2], useFaults[:1]), maxBad: 1,
			maxPeers: 4, learners: true, maxFlags: 1, noJoint: f, desc_: f},
		{name: "rules/hosts", tiers: "thorough", weight: 4.8,
			desc: "rule sets default-rule / voters(z1|z2)+learner(z3) / voters(!z3)+voter(z3) with location labels [zone host] x isolation {none, zone, host}, count 1..3; 4 stores on shared hosts (3 zones x 2 hosts); <=1 single-fault store; region <=4 peers with learners, <=1 down or pending; joint consensus on/off",
			n:    []int{4}, maxReplicas: []int{1, 2, 3}, labelIso: [][2]int{{2, 0}, {2, 1}, {2, 2}}, rules: []int{rulesDefault, rulesDisjoint, rulesNotIn}, zones: 3, hosts: true,
			goods: []cond{fresh}, first: singleFaults, maxBad: 1,
			maxPeers: 4, learners: true, maxFlags: 1, noJoint: ft, desc_: f},
		// the largest scope runs last and may use all the remaining time
		{name: "replica/3stores/all", tiers: "thorough", weight: 36,
			desc: "3 stores in <=3 zones, every store with any state x heartbeat x space combination / temporary condition / specialUse label; max-replicas 1..3 x {no labels, [zone], [zone]+isolation zone}; region <=3 peers with learners, <=2 peers down or pending including the leader",
			n:    []int{3}, maxReplicas: []int{1, 2, 3}, labelIso: zoneIso, rules: []int{rulesOff}, zones: 3,
			goods: []cond{fresh}, first: cat(allHealthCombos(), tempFaults, useFaults), others: cat(allHealthCombos(), tempFaults, useFaults), maxBad: 3,
			maxPeers: 3, learners: true, maxFlags: 2, leaderFlags: true, noJoint: f, desc_: f},
	}
}

// ---------------------------------------------------------------- driver

type vrec struct {
	Key   string `json:"key"`
	Msg   string `json:"msg"`
	Input *input `json:"input"`
}

type result struct {
	CPU      float64   `json:"cpu_s"`
	Cnt      *counters `json:"cnt"`
	Complete bool      `json:"complete"`
	Viol     []vrec    `json:"viol,omitempty"`
}

func runShard(sc *scopeSpec, shard, n int, deadline time.Time) *result {
	res := &result{Cnt: newCounters(), Complete: true}
	rn := &runner{cnt: res.Cnt}
	var e *env
	g := &genCtx{shard: shard, n: n, deadline: deadline}
	g.emit = func(in *input) {
		if g.stopped {
			return
		}
		if res.Cnt.Inputs&255 == 255 && !deadline.IsZero() && time.Now().After(deadline) {
			g.stopped = true
			return
		}
		if e == nil || e.key != in.cfg() {
			if e != nil {
				e.cancel()
			}
			e = newEnv(in)
		}
		if v := rn.eval(e, in); v != nil {
			for _, o := range res.Viol {
				if o.Key == v.Key {
					return
				}
			}
			cp := *in
			res.Viol = append(res.Viol, vrec{Key: v.Key, Msg: v.Msg, Input: &cp})
		}
	}
	sc.gen(g)
	res.Complete = !g.stopped
	return res
}

func workerMain(all []*scopeSpec, arg string) {
	parts := strings.Split(arg, "\x1f")
	var shard, n int
	var dl int64
	fmt.Sscan(parts[1], &shard)
	fmt.Sscan(parts[2], &n)
	fmt.Sscan(parts[3], &dl)
	var sc *scopeSpec
	for _, s := range all {
		if s.name == parts[0] && s.tiers == parts[4] {
			sc = s
		}
	}
	pfd, _ := syscall.Dup(1)
	if dn, err := os.OpenFile(os.DevNull, os.O_WRONLY, 0); err == nil {
		syscall.Dup2(int(dn.Fd()), 1)
		if os.Getenv("VERIF_WORKER_STDERR") == "" {
			syscall.Dup2(int(dn.Fd()), 2)
		}
	}
	var deadline time.Time
	if dl > 0 {
		deadline = time.UnixMilli(dl)
	}
	res := runShard(sc, shard, n, deadline)
	var ru syscall.Rusage
	if syscall.Getrusage(syscall.RUSAGE_SELF, &ru) == nil {
		res.CPU = float64(ru.Utime.Sec+ru.Stime.Sec) + float64(ru.Utime.Usec+ru.Stime.Usec)/1e6
	}
	b, _ := json.Marshal(res)
	out := os.NewFile(uintptr(pfd), "proto")
	out.Write(append(b, '\n'))
	out.Close()
}

func merge(dst, src *counters) {
	dst.Inputs += src.Inputs
	dst.Proposing += src.Proposing
	dst.Calls += src.Calls
	dst.Operators += src.Operators
	dst.Steps += src.Steps
	dst.Skipped += src.Skipped
	dst.States += src.States
	dst.RandRuns += src.RandRuns
	dst.RandCapped += src.RandCapped
	dst.RepairDue += src.RepairDue
	dst.IsoChecked += src.IsoChecked
	dst.IsoSkipped += src.IsoSkipped
	dst.Lowered += src.Lowered
	dst.Replaced += src.Replaced
	dst.Added += src.Added
	for k, v := range src.ByDesc {
		dst.ByDesc[k] += v
	}
	for k, v := range src.StepKinds {
		dst.StepKinds[k] += v
	}
	for k, v := range src.SampleByOp {
		if _, ok := dst.SampleByOp[k]; !ok {
			dst.SampleByOp[k] = v
		}
	}
	if src.MaxSteps > dst.MaxSteps {
		dst.MaxSteps, dst.MaxSample = src.MaxSteps, src.MaxSample
	}
}

func replayFile(path string) int {
	b, err := os.ReadFile(path)
	if err != nil {
		fmt.Fprintln(os.Stderr, err)
		return 2
	}
	var v struct {
		Key    string `json:"key"`
		Replay *input `json:"replay"`
	}
	if err := json.Unmarshal(b, &v); err != nil || v.Replay == nil {
		fmt.Fprintf(os.Stderr, "INFRA: bad replay file %s: %v\n", path, err)
		return 2
	}
	fmt.Printf("replaying %s\n", v.Replay)
	rn := &runner{cnt: newCounters(), verbose: true}
	e := newEnv(v.Replay)
	defer e.cancel()
	if viol := rn.eval(e, v.Replay); viol != nil {
		fmt.Printf("VIOLATION property=%s replay=%s\n  key=%s\n  %s\n", property, path, viol.Key, viol.Msg)
		return 1
	}
	fmt.Println("no violation on replay")
	return 0
}

func main() {
	tier := flag.String("tier", "quick", "quick|thorough")
	worker := flag.String("worker", "", "internal")
	replay := flag.String("replay", "", "replay a violation file")
	budget := flag.Int("budget", 0, "time budget in seconds")
	nworkers := flag.Int("workers", 0, "worker processes")
	only := flag.String("scope", "", "only this scope")
	countOnly := flag.Bool("count", false, "only count the inputs of the scopes")
	flag.Parse()
	log.ReplaceGlobals(zap.NewNop(), &log.ZapProperties{})
	vclock.Enable(vclock.Epoch)
	all := scopes()
	if *worker != "" {
		workerMain(all, *worker)
		return
	}
	if *replay != "" {
		os.Exit(replayFile(*replay))
	}
	if *countOnly {
		for _, sc := range all {
			if sc.tiers != *tier || (*only != "" && *only != sc.name) {
				continue
			}
			g := &genCtx{n: 1}
			g.emit = func(in *input) {}
			st := time.Now()
			sc.gen(g)
			fmt.Printf("%-24s inputs=%d blocks=%d (%.1fs)\n", sc.name, g.count, g.block, time.Since(st).Seconds())
		}
		return
	}
	if *budget == 0 {
		*budget = 150
		if *tier == "thorough" {
			*budget = 1100
		}
	}
	if *nworkers == 0 {
		*nworkers = runtime.NumCPU()
	}
	rep := evidence.NewReporter(property)
	cov := evidence.Coverage{Exhaustive: true}
	total := newCounters()

	infra := false
	for _, d := range regionsim.SelfCheck() {
		if strings.HasPrefix(d.Tag, "ChangePeerV2Leave:confver") {
			continue // belongs to C09
		}
		fmt.Fprintf(os.Stderr, "INFRA: regionsim disagrees with the code: %s: %s\n", d.Tag, d.Msg)
		infra = true
	}
	if infra {
		os.Exit(2)
	}

	var scs []*scopeSpec
	for _, s := range all {
		if s.tiers == *tier && (*only == "" || *only == s.name) {
			scs = append(scs, s)
		}
	}
	deadline := time.Now().Add(time.Duration(*budget) * time.Second)
	for i, sc := range scs {
		// the remaining time is shared in proportion to the expected sizes
		rest := 0.0
		for _, o := range scs[i:] {
			rest += o.weight
		}
		// (with 50% slack: scopes that finish early leave their time to the later ones)
		dl := time.Now().Add(time.Duration(float64(time.Until(deadline)) * 1.5 * sc.weight / rest))
		if dl.After(deadline) {
			dl = deadline
		}
		start := time.Now()
		n := *nworkers
		results := make([]*result, n)
		errs := make([]error, n)
		var wg sync.WaitGroup
		for sh := 0; sh < n; sh++ {
			wg.Add(1)
			go func(sh int) {
				defer wg.Done()
				cmd := exec.Command(os.Args[0], "-worker", fmt.Sprintf("%s\x1f%d\x1f%d\x1f%d\x1f%s", sc.name, sh, n, dl.UnixMilli(), *tier))
				cmd.Stderr = os.Stderr
				cmd.Env = append(os.Environ(), "GOMAXPROCS=2", "GOGC=400")
				out, err := cmd.Output()
				if err != nil {
					errs[sh] = fmt.Errorf("worker %d: %v", sh, err)
					return
				}
				var r result
				for _, line := range strings.Split(string(out), "\n") {
					if strings.HasPrefix(line, "{") && json.Unmarshal([]byte(line), &r) == nil {
						results[sh] = &r
					}
				}
				if results[sh] == nil {
					errs[sh] = fmt.Errorf("worker %d: no result", sh)
				}
			}(sh)
		}
		wg.Wait()
		tot := newCounters()
		complete := true
		cpu := 0.0
		for sh := 0; sh < n; sh++ {
			if errs[sh] != nil {
				fmt.Fprintf(os.Stderr, "INFRA: %s scope %s: %v\n", property, sc.name, errs[sh])
				os.Exit(2)
			}
			r := results[sh]
			merge(tot, r.Cnt)
			cpu += r.CPU
			complete = complete && r.Complete
			for _, v := range r.Viol {
				rep.Report(&evidence.Violation{Scenario: sc.name, Key: v.Key, Message: v.Msg + "\ninput: " + v.Input.String(), Replay: v.Input})
			}
		}
		merge(total, tot)
		if tot.RandCapped > 0 {
			cov.Exhaustive = false
			cov.CapsHit = append(cov.CapsHit, fmt.Sprintf("scope %s: %d inputs with more than 256 outcomes of the random draws", sc.name, tot.RandCapped))
		}
		if !complete {
			cov.Exhaustive = false
			cov.CapsHit = append(cov.CapsHit, fmt.Sprintf("scope %s: time budget reached after %d inputs", sc.name, tot.Inputs))
		}
		cov.Scenarios = append(cov.Scenarios, map[string]interface{}{"scope": sc.name, "bounds": sc.desc, "inputs": tot.Inputs, "inputs_with_proposal": tot.Proposing,
			"checker_calls": tot.Calls, "operators_executed": tot.Operators, "steps_executed": tot.Steps, "steps_skipped_already_finished": tot.Skipped, "region_states": tot.States,
			"repair_due": tot.RepairDue, "isolation_checked": tot.IsoChecked, "isolation_not_checked_surplus": tot.IsoSkipped, "lowering_permitted": tot.Lowered, "replacements": tot.Replaced,
			"operators_by_source_and_kind": tot.ByDesc, "step_kinds": tot.StepKinds, "rand_runs": tot.RandRuns, "exhaustive": complete, "wall_s": time.Since(start).Seconds(), "cpu_s": cpu})
		fmt.Printf("%s %-24s inputs=%d proposing=%d operators=%d steps=%d states=%d repair-due=%d exhaustive=%v %.1fs (cpu %.0fs)\n", property, sc.name, tot.Inputs, tot.Proposing, tot.Operators, tot.Steps, tot.States, tot.RepairDue, complete, time.Since(start).Seconds(), cpu)
	}
	var kinds []string
	for k := range total.SampleByOp {
		kinds = append(kinds, k)
	}
	sort.Strings(kinds)
	for _, k := range kinds {
		if len(cov.Samples) < 24 {
			cov.Samples = append(cov.Samples, map[string]interface{}{"operator": k, "case": total.SampleByOp[k]})
		}
	}
	if total.MaxSample != nil {
		cov.Samples = append(cov.Samples, map[string]interface{}{"longest_operator": total.MaxSample})
	}
	cov.States = total.States
	cov.Transitions = total.Steps
	cov.TracesValidatedAgainstImpl = total.Operators
	cov.Evaluations = total.Inputs
	cov.DistinctNontrivial = total.Proposing
	cov.Rule = "every input (cluster + region + replication settings) of the listed scopes is enumerated once as the canonical representative of its symmetry class (stores interchangeable, zones renamed when no rule names them, shared hosts of a zone swapped); the real checker and CheckRegion are called on each; an input is non-trivial when an operator is proposed, which is then executed step by step on regionsim with the oracle evaluated on the proposal and every intermediate region state; states = region states visited, transitions = steps executed, traces = operators executed"
	cov.Bounds = map[string]interface{}{"stores": "3-5", "zones": "<=3", "peers": "<=4", "max_replicas": "1..5", "not_good_stores": "<=2 (quick) / <=3 (thorough)",
		"store_states": stateStr, "heartbeat": hbStr, "temporary": tmpStr[1:], "rule_sets": rulesStr, "operators_by_source_and_kind": total.ByDesc}
	cov.KnownFindings = rep.KnownReported()
	ev := &evidence.File{PropertyID: property, Tier: *tier, Seed: evidence.Seed(), Level: "model_checking", Coverage: cov, WallS: rep.Wall(), Violations: len(rep.Unknown),
		Assumptions: []string{
			"pkg/mock/mockcluster is the opt.Cluster; time is virtual (vclock): connected = heartbeat now, disconnected = 1 min ago, down = 2 h ago (max-store-down-time 30 min); down peers are reported with 3600 down seconds",
			"regionsim models a TiKV store applying PD's commands; a new peer is first pending and then catches up; peers pending or down from the start stay so",
			"oracle written from the statement: a store may receive a peer iff Up, connected, not low on space (available 1% with >= 30 regions), not labelled specialUse, holds no peer, shares no isolation-level location with another peer (of the same rule) and matches the label constraints of a rule for the new peer's role; healthy peer = not down, not pending, store Up and not down; the number of (healthy) peers may only fall below its initial value when voters > max-replicas (rules off) or when the remaining peers still satisfy every rule exactly (rules on); a removal in an operator that also adds happens after the added peer caught up; when peers < required and a fresh empty allowed store exists an operator must be proposed",
			"symmetry reduction assumes the checkers treat stores / zones / hosts alike up to tie-breaking; pd lists stores in Go map order, which decides ties between equally good stores: a wrapper around mockcluster fixes GetStores to ascending store id and GetRegionStores to the peer order (reproducible runs), the reverse order is enumerated through descending id assignments in the scopes that say so; other orders are not enumerated",
			"every outcome of math/rand draws in server/schedule{,/checker,/filter,/operator} and server/core is enumerated through the vrand shim (the checkers draw none on these paths)",
			"merge-schedule-limit 0 (merge proposals are outside the property); replica-schedule-limit default; regions are not in a joint state initially",
		}}
	if err := evidence.Write(ev); err != nil {
		fmt.Fprintf(os.Stderr, "INFRA: write evidence: %v\n", err)
		os.Exit(2)
	}
	if rep.Failed() {
		os.Exit(1)
	}
}
