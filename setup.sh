#!/bin/bash
# Offline set-up: build the rewriter and warm the Go build cache with every check.
set -u
V=/verif
export GOFLAGS=-mod=mod GOPROXY=off GOSUMDB=off GOTOOLCHAIN=local
export GOCACHE=$V/.cache/go-build
mkdir -p $V/.bin $V/.gen $V/evidence $V/replays
cd $V
go build -o .bin/rewrite ./engine/rewrite || exit 2
# only the checks claimed in MANIFEST.json are built (others may be work in progress)
for id in $(jq -r '.checks[].property_id' MANIFEST.json | tr 'A-Z' 'a-z'); do
  d=checks/$id
  [ -f $d/main.go ] || { echo "missing $d/main.go"; exit 2; }
  GEN=$V/.gen/$id; mkdir -p $GEN
  PKGS=$(cat $d/rewrite.pkgs 2>/dev/null | tr '\n' ',')
  .bin/rewrite -repo /repo -out $GEN -shim $V/shim -pkgs "$PKGS" || exit 2
  go build -tags verif -overlay $GEN/overlay.json -o .bin/$id ./checks/$id || exit 2
done
# bind the fake etcd to the real one: exhaustive op-sequence replay against an embedded etcd
go build -overlay $V/.gen/c04/overlay.json -o .bin/conformance ./engine/fakeetcd/conformance || exit 2
.bin/conformance -depth 3 2>/dev/null | tail -1
rc=${PIPESTATUS[0]}
if [ $rc = 2 ]; then echo "fake etcd disagrees with embedded etcd"; exit 2; fi
if [ $rc = 3 ]; then echo "WARNING: embedded etcd could not be started here; conformance replay skipped"; fi
echo setup ok
