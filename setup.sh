#!/bin/bash
# Offline set-up: build the rewriter and warm the Go build cache with every check.
set -u
V=/verif
export GOFLAGS=-mod=mod GOPROXY=off GOSUMDB=off GOTOOLCHAIN=local
export GOCACHE=$V/.cache/go-build
mkdir -p $V/.bin $V/.gen $V/evidence $V/replays
cd $V
go build -o .bin/rewrite ./engine/rewrite || exit 2
for d in checks/*/; do
  [ -f $d/main.go ] || continue
  id=$(basename $d)
  GEN=$V/.gen/$id; mkdir -p $GEN
  PKGS=$(cat $d/rewrite.pkgs 2>/dev/null | tr '\n' ',')
  .bin/rewrite -repo /repo -out $GEN -shim $V/shim -pkgs "$PKGS" || exit 2
  go build -tags verif -overlay $GEN/overlay.json -o .bin/$id ./checks/$id || exit 2
done
echo setup ok
