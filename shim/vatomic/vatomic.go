// Package vatomic replaces "sync/atomic" in rewritten pd packages: every
// operation is preceded by a scheduling point.
package vatomic

import (
	"sync/atomic"
	"unsafe"

	"github.com/tikv/pd/pkg/verifshim/sched"
)

func pt(l string) { sched.PointAt(sched.KAtomic, l) }

// Value is a scheduler-aware atomic.Value.
type Value struct{ v atomic.Value }

// Load loads.
func (x *Value) Load() interface{} { pt("Value.Load"); return x.v.Load() }

// Store stores.
func (x *Value) Store(v interface{}) { pt("Value.Store"); x.v.Store(v) }

// Swap swaps.
func (x *Value) Swap(v interface{}) interface{} { pt("Value.Swap"); return x.v.Swap(v) }

// CompareAndSwap does CAS.
func (x *Value) CompareAndSwap(o, n interface{}) bool {
	pt("Value.CAS")
	return x.v.CompareAndSwap(o, n)
}

// Functions of sync/atomic.
func AddInt32(a *int32, d int32) int32      { pt("AddInt32"); return atomic.AddInt32(a, d) }
func AddInt64(a *int64, d int64) int64      { pt("AddInt64"); return atomic.AddInt64(a, d) }
func AddUint32(a *uint32, d uint32) uint32  { pt("AddUint32"); return atomic.AddUint32(a, d) }
func AddUint64(a *uint64, d uint64) uint64  { pt("AddUint64"); return atomic.AddUint64(a, d) }
func LoadInt32(a *int32) int32              { pt("LoadInt32"); return atomic.LoadInt32(a) }
func LoadInt64(a *int64) int64              { pt("LoadInt64"); return atomic.LoadInt64(a) }
func LoadUint32(a *uint32) uint32           { pt("LoadUint32"); return atomic.LoadUint32(a) }
func LoadUint64(a *uint64) uint64           { pt("LoadUint64"); return atomic.LoadUint64(a) }
func StoreInt32(a *int32, v int32)          { pt("StoreInt32"); atomic.StoreInt32(a, v) }
func StoreInt64(a *int64, v int64)          { pt("StoreInt64"); atomic.StoreInt64(a, v) }
func StoreUint32(a *uint32, v uint32)       { pt("StoreUint32"); atomic.StoreUint32(a, v) }
func StoreUint64(a *uint64, v uint64)       { pt("StoreUint64"); atomic.StoreUint64(a, v) }
func SwapInt32(a *int32, v int32) int32     { pt("SwapInt32"); return atomic.SwapInt32(a, v) }
func SwapInt64(a *int64, v int64) int64     { pt("SwapInt64"); return atomic.SwapInt64(a, v) }
func SwapUint32(a *uint32, v uint32) uint32 { pt("SwapUint32"); return atomic.SwapUint32(a, v) }
func SwapUint64(a *uint64, v uint64) uint64 { pt("SwapUint64"); return atomic.SwapUint64(a, v) }
func CompareAndSwapInt32(a *int32, o, n int32) bool {
	pt("CASInt32")
	return atomic.CompareAndSwapInt32(a, o, n)
}
func CompareAndSwapInt64(a *int64, o, n int64) bool {
	pt("CASInt64")
	return atomic.CompareAndSwapInt64(a, o, n)
}
func CompareAndSwapUint32(a *uint32, o, n uint32) bool {
	pt("CASUint32")
	return atomic.CompareAndSwapUint32(a, o, n)
}
func CompareAndSwapUint64(a *uint64, o, n uint64) bool {
	pt("CASUint64")
	return atomic.CompareAndSwapUint64(a, o, n)
}
func LoadPointer(a *unsafe.Pointer) unsafe.Pointer { pt("LoadPointer"); return atomic.LoadPointer(a) }
func StorePointer(a *unsafe.Pointer, v unsafe.Pointer) {
	pt("StorePointer")
	atomic.StorePointer(a, v)
}
func CompareAndSwapPointer(a *unsafe.Pointer, o, n unsafe.Pointer) bool {
	pt("CASPointer")
	return atomic.CompareAndSwapPointer(a, o, n)
}
