// Package vsync replaces "sync" in the pd packages selected by the overlay
// rewriter. Mutex/RWMutex/WaitGroup are scheduler-aware; everything else is an
// alias of the real type. Outside an exploration, and for goroutines that are
// not harness threads, they behave exactly like the originals (they wrap them).
package vsync

import (
	"runtime"
	"sync"
	"sync/atomic"
	"time"

	"github.com/tikv/pd/pkg/verifshim/sched"
)

type (
	// Once is sync.Once.
	Once = sync.Once
	// Map is sync.Map.
	Map = sync.Map
	// Pool is sync.Pool.
	Pool = sync.Pool
	// Cond is sync.Cond.
	Cond = sync.Cond
	// Locker is sync.Locker.
	Locker = sync.Locker
)

// NewCond is sync.NewCond.
func NewCond(l Locker) *Cond { return sync.NewCond(l) }

// Mutex is a scheduler-aware sync.Mutex.
type Mutex struct {
	mu     sync.Mutex
	holder int32 // 1 + id of the harness thread holding it, 0 otherwise
}

// Lock locks m.
func (m *Mutex) Lock() {
	t := sched.Cur()
	if t == nil {
		m.mu.Lock()
		return
	}
	sched.PointAt(sched.KLock, "Lock")
	for {
		if m.mu.TryLock() {
			atomic.StoreInt32(&m.holder, int32(t.ID)+1)
			return
		}
		if sched.Cur() == nil { // execution torn down while we were parked
			m.mu.Lock()
			return
		}
		if atomic.LoadInt32(&m.holder) != 0 {
			sched.Block(m, "Lock")
		} else {
			runtime.Gosched()
		}
	}
}

// TryLock tries to lock m.
func (m *Mutex) TryLock() bool {
	t := sched.Cur()
	ok := m.mu.TryLock()
	if ok && t != nil {
		atomic.StoreInt32(&m.holder, int32(t.ID)+1)
	}
	return ok
}

// Unlock unlocks m.
func (m *Mutex) Unlock() {
	h := atomic.SwapInt32(&m.holder, 0)
	m.mu.Unlock()
	if h != 0 {
		sched.Wake(m)
	}
}

// RWMutex is a scheduler-aware sync.RWMutex.
type RWMutex struct {
	mu      sync.RWMutex
	writer  int32 // 1 + id of the harness thread holding the write lock
	readers int32 // number of read locks held by harness threads
}

// Lock takes the write lock.
func (m *RWMutex) Lock() {
	t := sched.Cur()
	if t == nil {
		m.mu.Lock()
		return
	}
	sched.PointAt(sched.KLock, "Lock")
	for {
		if m.mu.TryLock() {
			atomic.StoreInt32(&m.writer, int32(t.ID)+1)
			return
		}
		if sched.Cur() == nil {
			m.mu.Lock()
			return
		}
		if atomic.LoadInt32(&m.writer) != 0 || atomic.LoadInt32(&m.readers) > 0 {
			sched.Block(m, "Lock")
		} else {
			runtime.Gosched()
		}
	}
}

// Unlock releases the write lock.
func (m *RWMutex) Unlock() {
	h := atomic.SwapInt32(&m.writer, 0)
	m.mu.Unlock()
	if h != 0 {
		sched.Wake(m)
	}
}

// RLock takes a read lock.
func (m *RWMutex) RLock() {
	t := sched.Cur()
	if t == nil {
		m.mu.RLock()
		return
	}
	sched.PointAt(sched.KRLock, "RLock")
	for {
		if m.mu.TryRLock() {
			atomic.AddInt32(&m.readers, 1)
			return
		}
		if sched.Cur() == nil {
			m.mu.RLock()
			return
		}
		if atomic.LoadInt32(&m.writer) != 0 {
			sched.Block(m, "RLock")
		} else {
			runtime.Gosched()
		}
	}
}

// RUnlock releases a read lock.
func (m *RWMutex) RUnlock() {
	if sched.Self() != nil && atomic.LoadInt32(&m.readers) > 0 {
		atomic.AddInt32(&m.readers, -1)
		m.mu.RUnlock()
		sched.Wake(m)
		return
	}
	m.mu.RUnlock()
}

// RLocker returns a Locker for the read side.
func (m *RWMutex) RLocker() Locker { return (*rlocker)(m) }

type rlocker RWMutex

func (r *rlocker) Lock()   { (*RWMutex)(r).RLock() }
func (r *rlocker) Unlock() { (*RWMutex)(r).RUnlock() }

// WaitGroup is a scheduler-aware sync.WaitGroup.
type WaitGroup struct {
	n int64
}

// Add adds delta.
func (w *WaitGroup) Add(delta int) {
	v := atomic.AddInt64(&w.n, int64(delta))
	if v < 0 {
		panic("vsync: negative WaitGroup counter")
	}
	if v == 0 && sched.Cur() != nil {
		// only a harness thread wakes waiters (a foreign goroutine finishing at an arbitrary
		// real time must not change the schedule; the waiter polls for it, see Wait)
		sched.Wake(w)
	}
}

// Done decrements the counter.
func (w *WaitGroup) Done() { w.Add(-1) }

// Wait waits for the counter to reach zero. A harness thread is blocked in the
// scheduler (goroutines started with `go` in rewritten code are harness threads
// too, see sched.Go); work done by foreign goroutines is awaited by spinning.
func (w *WaitGroup) Wait() {
	spins := 0
	for atomic.LoadInt64(&w.n) != 0 {
		if sched.Cur() != nil && sched.OthersAlive() {
			sched.BlockSoft(w, "WaitGroup.Wait")
			if sched.OthersAlive() {
				continue
			}
		}
		runtime.Gosched()
		spins++
		if spins%2000 == 0 {
			time.Sleep(20 * time.Microsecond)
		}
	}
}
