// Package vclock replaces time.Now/Since/Until/Sleep in rewritten pd packages.
// When enabled, time is virtual: one clock per member (base + per-member offset)
// that only moves through Advance/SetOffset/Sleep, so reading it is deterministic.
package vclock

import (
	"sync"
	"time"

	"github.com/tikv/pd/pkg/verifshim/sched"
)

var (
	mu      sync.Mutex
	enabled bool
	base    time.Time
	offsets = map[int]time.Duration{}
)

// Epoch is the default start of virtual time.
var Epoch = time.Date(2021, 7, 1, 0, 0, 0, 0, time.UTC)

// Enable switches to virtual time starting at start and clears all offsets.
func Enable(start time.Time) {
	mu.Lock()
	enabled, base = true, start
	offsets = map[int]time.Duration{}
	mu.Unlock()
}

// Disable returns to real time.
func Disable() { mu.Lock(); enabled = false; mu.Unlock() }

// Advance moves the base clock forward.
func Advance(d time.Duration) { mu.Lock(); base = base.Add(d); mu.Unlock() }

// SetOffset sets the clock offset of a member.
func SetOffset(member int, d time.Duration) { mu.Lock(); offsets[member] = d; mu.Unlock() }

// Base returns the base clock.
func Base() time.Time { mu.Lock(); defer mu.Unlock(); return base }

// NowOf returns the clock of a member.
func NowOf(member int) time.Time { mu.Lock(); defer mu.Unlock(); return base.Add(offsets[member]) }

// Now replaces time.Now.
func Now() time.Time {
	mu.Lock()
	if !enabled {
		mu.Unlock()
		return time.Now()
	}
	b := base
	mu.Unlock()
	if t := sched.Cur(); t != nil && t.Member != 0 {
		mu.Lock()
		b = b.Add(offsets[t.Member])
		mu.Unlock()
	} else if t == nil && defMember != 0 {
		mu.Lock()
		b = b.Add(offsets[defMember])
		mu.Unlock()
	}
	return b
}

var defMember int

// SetDefaultMember selects the clock seen by goroutines that are not harness
// threads (sequential harnesses); returns the previous value.
func SetDefaultMember(m int) int { o := defMember; defMember = m; return o }

// Since replaces time.Since.
func Since(t time.Time) time.Duration { return Now().Sub(t) }

// Until replaces time.Until.
func Until(t time.Time) time.Duration { return t.Sub(Now()) }

// Sleep replaces time.Sleep: virtual time passes, other threads go first.
func Sleep(d time.Duration) {
	mu.Lock()
	en := enabled
	mu.Unlock()
	if !en {
		time.Sleep(d)
		return
	}
	Advance(d)
	sched.Yield("Sleep")
}
