// Package sched is the controlled cooperative scheduler of the /verif model
// checker. It is injected into the pd module as a *virtual* package
// (github.com/tikv/pd/pkg/verifshim/sched) by `go build -overlay`; /repo is not
// touched. Exactly one registered harness thread runs at a time; all others are
// parked on their wake channel. Goroutines that are not harness threads
// ("foreign") never interact with the scheduler: every entry point returns
// immediately for them, and the shims fall back to the real primitives.
package sched

import (
	"fmt"
	"os"
	"reflect"
	"runtime"
	"runtime/debug"
	"sort"
	"strings"
	"sync"
	"sync/atomic"
	"time"
	"unsafe"
)

// Kind classifies a scheduling point.
type Kind uint8

// Point kinds.
const (
	KStart Kind = iota
	KLock
	KRLock
	KAtomic
	KEtcd
	KKV
	KYield
	KChoose
	KUser
	KWait
	KFunc // function entry in a package rewritten with flag f
	kindCount
)

var kindNames = [...]string{"start", "lock", "rlock", "atomic", "etcd", "kv", "yield", "choose", "user", "wait", "func"}

func (k Kind) String() string { return kindNames[k] }

// Thread is one harness thread.
type Thread struct {
	ID      int
	Name    string
	Member  int // virtual-clock domain of this thread (see vclock)
	goid    int64
	wake    chan struct{}
	done    bool
	blocked interface{}
	soft    bool // blocked on something that a foreign goroutine may complete: resumed when nobody else can run
	noPoint int
	Steps   int
}

// Point is one recorded decision (only recorded when there were >= 2 alternatives).
type Point struct {
	Kind       Kind
	Thread     int // thread that was running when the decision was taken (-1: none)
	Label      string
	NAlts      int
	Chosen     int
	IsChoose   bool // data choice (deviation budget) instead of a thread choice
	Cost       int  // data choice: deviation cost of a non-default alternative
	CurEnabled bool // thread choice: alt != 0 is a preemption
	Pre, Dev   int  // budget used before this point
	Alts       []int
}

// Options configure one execution.
type Options struct {
	Kinds     uint32 // bit mask of Kind values that are scheduling points (0 = all)
	MaxPoints int    // horizon; exceeding it is reported as Failure "horizon"
	Trace     bool   // record Events
	// Delay selects delay bounding instead of preemption bounding: at every thread choice the
	// alternatives are in round-robin order and taking the k-th one costs k (also when the
	// running thread blocked or exited), which keeps the free choices at blocking points from
	// multiplying. The budget is still called MaxPre by the explorer.
	Delay bool
	// MaxPre/MaxDev: when >0 the scheduler itself does not record alternatives beyond
	// the budget (pure optimisation; the explorer enforces the budgets anyway).
}

// ThreadCost is the budget consumed by taking alternative alt at a thread choice.
func (o Options) ThreadCost(curEnabled bool, alt int) int {
	if o.Delay {
		return alt
	}
	if curEnabled && alt != 0 {
		return 1
	}
	return 0
}

// Run is one controlled execution.
type Run struct {
	mu       sync.Mutex
	threads  []*Thread
	cur      *Thread
	prefix   []int
	pos      int
	Points   []Point
	pre, dev int
	opts     Options
	Events   []string
	Failure  string // "", "deadlock", "panic: ...", "divergence: ...", "horizon"
	PanicStk string
	aborted  bool
	mainDone chan struct{}
	finished int
	steps    int64
	Digests  map[string]struct{}
}

type abortT struct{}

type activeT struct{ p unsafe.Pointer }

func (a *activeT) Load() *Run   { return (*Run)(atomic.LoadPointer(&a.p)) }
func (a *activeT) Store(r *Run) { atomic.StorePointer(&a.p, unsafe.Pointer(r)) }
func (a *activeT) CompareAndSwap(o, n *Run) bool {
	return atomic.CompareAndSwapPointer(&a.p, unsafe.Pointer(o), unsafe.Pointer(n))
}

var active activeT

// Active reports whether an exploration execution is in progress.
func Active() bool { return active.Load() != nil }

func goid() int64 {
	var buf [40]byte
	n := runtime.Stack(buf[:], false)
	// "goroutine 123 ["
	s := buf[10:n]
	var id int64
	for _, c := range s {
		if c < '0' || c > '9' {
			break
		}
		id = id*10 + int64(c-'0')
	}
	return id
}

// Cur returns the calling harness thread, or nil when no execution is active, the
// caller is a foreign goroutine, or the execution is being torn down.
func Cur() *Thread {
	r := active.Load()
	if r == nil {
		return nil
	}
	c := r.cur
	if c == nil || r.aborted {
		return nil
	}
	if c.goid != goid() {
		return nil
	}
	return c
}

// Self returns the harness thread of the calling goroutine even while the
// execution is being torn down (nil for foreign goroutines).
func Self() *Thread {
	r := active.Load()
	if r == nil {
		return nil
	}
	g := goid()
	for _, t := range r.threads {
		if t.goid == g {
			return t
		}
	}
	return nil
}

// CurrentRun returns the active run (nil if none).
func CurrentRun() *Run { return active.Load() }

// Execute runs the thread bodies once under the scheduler, replaying prefix and
// taking alternative 0 afterwards.
func Execute(prefix []int, opts Options, names []string, bodies []func()) *Run {
	if opts.MaxPoints == 0 {
		opts.MaxPoints = 100000
	}
	r := &Run{prefix: prefix, opts: opts, mainDone: make(chan struct{})}
	reg := make(chan struct{})
	for i, body := range bodies {
		t := &Thread{ID: i, wake: make(chan struct{}, 1)}
		if i < len(names) {
			t.Name = names[i]
		} else {
			t.Name = fmt.Sprintf("t%d", i)
		}
		r.threads = append(r.threads, t)
		body := body
		go func() {
			t.goid = goid()
			reg <- struct{}{}
			<-t.wake
			defer func() {
				if e := recover(); e != nil {
					if _, ok := e.(abortT); !ok {
						if r.Failure == "" {
							r.Failure = fmt.Sprintf("panic: %v", e)
							r.PanicStk = string(debug.Stack())
						}
						r.aborted = true
					}
				}
				r.finish(t)
			}()
			if r.aborted {
				return
			}
			body()
			if !r.aborted {
				observe(t) // the end of the body closes the thread's last segment
			}
		}()
	}
	for range bodies {
		<-reg
	}
	if !active.CompareAndSwap(nil, r) {
		panic("sched: nested Execute")
	}
	stopWatch := make(chan struct{})
	go r.watchdog(stopWatch)
	r.pick(nil, false, KStart, "start")
	<-r.mainDone
	close(stopWatch)
	active.Store(nil)
	return r
}

func (r *Run) watchdog(stop chan struct{}) {
	last := int64(-1)
	idle := 0
	tk := time.NewTicker(time.Second)
	defer tk.Stop()
	for {
		select {
		case <-stop:
			return
		case <-tk.C:
			s := atomic.LoadInt64(&r.steps)
			if s == last {
				idle++
			} else {
				idle = 0
				last = s
			}
			if idle >= 60 {
				buf := make([]byte, 1<<20)
				n := runtime.Stack(buf, true)
				fmt.Fprintf(os.Stderr, "INFRA: scheduler made no progress for 60s; choices=%v\n%s\n", r.Choices(), buf[:n])
				os.Exit(2)
			}
		}
	}
}

// finish is called when a thread body returns (or unwinds).
func (r *Run) finish(t *Thread) {
	t.done = true
	r.finished++
	if r.aborted {
		// tear-down: wake everybody that is still parked so that they unwind.
		if r.finished == len(r.threads) {
			close(r.mainDone)
			return
		}
		for _, o := range r.threads {
			if !o.done {
				select {
				case o.wake <- struct{}{}:
				default:
				}
			}
		}
		return
	}
	r.pick(t, false, KStart, "exit")
}

// enabledList returns thread ids: from first when it may continue, then the others ascending.
func (r *Run) enabledList(from *Thread, fromEnabled, fromLast bool) []int {
	var l []int
	if from != nil && fromEnabled && !fromLast {
		l = append(l, from.ID)
	}
	for _, t := range r.threads {
		if t.done || t.blocked != nil || (from != nil && t == from) {
			continue
		}
		l = append(l, t.ID)
	}
	if from != nil && fromEnabled && fromLast {
		l = append(l, from.ID)
	}
	return l
}

func (r *Run) abort(reason string) {
	if r.Failure == "" {
		r.Failure = reason
	}
	r.aborted = true
}

// next consumes one decision with n alternatives.
func (r *Run) next(n int) int {
	c := 0
	if r.pos < len(r.prefix) {
		c = r.prefix[r.pos]
		if c >= n || c < 0 {
			r.abort(fmt.Sprintf("divergence: choice %d at decision %d has only %d alternatives", c, r.pos, n))
			c = 0
		}
	}
	r.pos++
	return c
}

// pick decides who runs next. from is the calling thread (nil from main).
func (r *Run) pick(from *Thread, fromEnabled bool, kind Kind, label string) {
	r.pickOrd(from, fromEnabled, false, kind, label)
}

func (r *Run) pickOrd(from *Thread, fromEnabled, fromLast bool, kind Kind, label string) {
	atomic.AddInt64(&r.steps, 1)
	if r.aborted {
		r.teardown(from)
		return
	}
	en := r.enabledList(from, fromEnabled, fromLast)
	if len(en) == 0 {
		// soft-blocked threads (waiting for work that foreign goroutines may be doing) resume
		// when no other thread can run; they re-check their condition themselves.
		for _, t := range r.threads {
			if !t.done && t.blocked != nil && t.soft {
				t.blocked, t.soft = nil, false
			}
		}
		en = r.enabledList(from, fromEnabled, fromLast)
	}
	if len(en) == 0 {
		if r.finished == len(r.threads) {
			close(r.mainDone)
			return
		}
		var bl []string
		for _, t := range r.threads {
			if !t.done {
				bl = append(bl, fmt.Sprintf("%s blocked on %T", t.Name, t.blocked))
			}
		}
		r.abort("deadlock: " + strings.Join(bl, "; "))
		r.teardown(from)
		return
	}
	choice := 0
	if len(en) > 1 {
		if len(r.Points) >= r.opts.MaxPoints {
			r.abort("horizon")
			r.teardown(from)
			return
		}
		choice = r.next(len(en))
		tid := -1
		if from != nil {
			tid = from.ID
		}
		p := Point{Kind: kind, Thread: tid, Label: label, NAlts: len(en), Chosen: choice,
			CurEnabled: fromEnabled, Pre: r.pre, Dev: r.dev, Alts: en}
		r.Points = append(r.Points, p)
		r.pre += r.opts.ThreadCost(p.CurEnabled, choice)
	}
	nxt := r.threads[en[choice]]
	if r.opts.Trace {
		r.Events = append(r.Events, fmt.Sprintf("%s@%s:%s -> %s", tname(from), kind, label, nxt.Name))
	}
	if nxt == from {
		return
	}
	r.cur = nxt
	nxt.wake <- struct{}{}
	if from != nil && !from.done {
		<-from.wake
		if r.aborted {
			panic(abortT{})
		}
	}
}

func (r *Run) teardown(from *Thread) {
	// wake all parked threads so they unwind; the caller unwinds by panicking.
	for _, o := range r.threads {
		if !o.done && o != from {
			select {
			case o.wake <- struct{}{}:
			default:
			}
		}
	}
	if from != nil && !from.done {
		panic(abortT{})
	}
	if from == nil && r.finished == len(r.threads) {
		select {
		case <-r.mainDone:
		default:
			close(r.mainDone)
		}
	}
}

func tname(t *Thread) string {
	if t == nil {
		return "main"
	}
	return t.Name
}

func (r *Run) kindOn(k Kind) bool {
	return r.opts.Kinds == 0 || r.opts.Kinds&(1<<k) != 0
}

// OnPoint, if set, is called on the running harness thread whenever it reaches a scheduling
// point (before the explorer decides who continues): an observer that samples state at
// the granularity at which the explorer interleaves. It runs without scheduling points.
var OnPoint func(t *Thread)

func observe(t *Thread) {
	if f := OnPoint; f != nil {
		t.noPoint++
		f(t)
		t.noPoint--
	}
}

// FuncEntry is the scheduling point the rewriter (flag f) puts at the entry of every function
// of a package: interleavings at function-call granularity, for code whose shared data is not
// guarded by any lock or atomic (a scratch buffer at package level, say).
func FuncEntry(label string) { PointAt(KFunc, label) }

// PointAt is a scheduling point: the explorer may switch to another thread here.
func PointAt(kind Kind, label string) {
	t := Cur()
	if t == nil || t.noPoint > 0 {
		return
	}
	r := active.Load()
	if !r.kindOn(kind) {
		return
	}
	observe(t)
	t.Steps++
	r.pick(t, true, kind, label)
}

// Yield lets the next enabled thread go first by default (used for Sleep); any
// other continuation costs one preemption, which keeps retry loops from blowing up
// the schedule space.
func Yield(label string) {
	t := Cur()
	if t == nil || t.noPoint > 0 {
		return
	}
	r := active.Load()
	observe(t)
	t.Steps++
	r.pickOrd(t, true, true, KYield, label)
}

// Choose returns a value in [0,n): a data choice owned by the explorer. Alternative
// 0 is the default; any other value costs one deviation. Outside an execution
// (or on a foreign goroutine) it returns 0.
func Choose(n int, label string) int { return ChooseCost(n, label, 1) }

// ChooseFree is a data choice whose alternatives are all free (e.g. a random draw
// that the code itself treats as uniformly possible).
func ChooseFree(n int, label string) int { return ChooseCost(n, label, 0) }

// ChooseCost is Choose with an explicit deviation cost for non-default alternatives.
func ChooseCost(n int, label string, cost int) int {
	t := Cur()
	if t == nil || n <= 1 {
		return 0
	}
	r := active.Load()
	if len(r.Points) >= r.opts.MaxPoints {
		r.abort("horizon")
		r.teardown(t)
		return 0
	}
	c := r.next(n)
	p := Point{Kind: KChoose, Thread: t.ID, Label: label, NAlts: n, Chosen: c, IsChoose: true, Cost: cost, Pre: r.pre, Dev: r.dev}
	r.Points = append(r.Points, p)
	if c != 0 {
		r.dev += cost
	}
	if r.opts.Trace {
		r.Events = append(r.Events, fmt.Sprintf("%s choose %s = %d/%d", t.Name, label, c, n))
	}
	if r.aborted {
		r.teardown(t)
	}
	return c
}

// Block parks the calling thread until Wake(obj) is called by another thread.
// The caller must re-check its condition afterwards.
func Block(obj interface{}, label string) {
	t := Cur()
	if t == nil {
		runtime.Gosched()
		return
	}
	r := active.Load()
	observe(t)
	t.blocked = obj
	r.pick(t, false, KWait, label)
}

// BlockSoft is Block for conditions that goroutines outside the scheduler may fulfil: the
// thread is also resumed when no other harness thread can run (it then re-checks and may spin).
func BlockSoft(obj interface{}, label string) {
	t := Cur()
	if t == nil {
		runtime.Gosched()
		return
	}
	r := active.Load()
	observe(t)
	t.blocked, t.soft = obj, true
	r.pick(t, false, KWait, label)
	t.soft = false
}

// Wake enables every thread blocked on obj.
func Wake(obj interface{}) {
	r := active.Load()
	if r == nil {
		return
	}
	for _, t := range r.threads {
		if t.blocked != nil && t.blocked == obj {
			t.blocked, t.soft = nil, false
		}
	}
}

// SortedStringKeys returns the keys of a map with string keys in sorted order. The rewriter
// (flag maps=...) uses it to make selected `range` loops over maps deterministic.
func SortedStringKeys(m interface{}) []string {
	v := reflect.ValueOf(m)
	if v.Kind() != reflect.Map {
		panic("sched.SortedStringKeys: not a map")
	}
	keys := make([]string, 0, v.Len())
	for _, k := range v.MapKeys() {
		keys = append(keys, k.String())
	}
	sort.Strings(keys)
	if MapOrder == 1 {
		for i, j := 0, len(keys)-1; i < j; i, j = i+1, j-1 {
			keys[i], keys[j] = keys[j], keys[i]
		}
	}
	return keys
}

// MapOrder selects the iteration order of the rewritten map ranges: 0 ascending keys,
// 1 descending keys (a harness parameter: Go leaves the order unspecified).
var MapOrder int

// SortedUint64Keys is SortedStringKeys for maps with uint64 keys (rewriter: maps=u:expr).
func SortedUint64Keys(m interface{}) []uint64 {
	v := reflect.ValueOf(m)
	if v.Kind() != reflect.Map {
		panic("sched.SortedUint64Keys: not a map")
	}
	keys := make([]uint64, 0, v.Len())
	for _, k := range v.MapKeys() {
		keys = append(keys, k.Uint())
	}
	sort.Slice(keys, func(i, j int) bool {
		if MapOrder == 1 {
			return keys[i] > keys[j]
		}
		return keys[i] < keys[j]
	})
	return keys
}

// OthersAlive reports whether another harness thread is unfinished.
func OthersAlive() bool {
	r := active.Load()
	t := Cur()
	if r == nil || t == nil {
		return false
	}
	for _, o := range r.threads {
		if o != t && !o.done {
			return true
		}
	}
	return false
}

// Go replaces a `go` statement of rewritten code (rewriter flag g): when the
// caller is a harness thread the new goroutine becomes a harness thread of the
// running execution (enabled immediately, started when the explorer picks it);
// otherwise it is a plain goroutine.
func Go(fn func()) {
	t := Cur()
	if t == nil {
		go fn()
		return
	}
	r := active.Load()
	nt := &Thread{ID: len(r.threads), Name: fmt.Sprintf("%s.go%d", t.Name, len(r.threads)), Member: t.Member, wake: make(chan struct{}, 1)}
	r.threads = append(r.threads, nt)
	reg := make(chan struct{})
	go func() {
		nt.goid = goid()
		reg <- struct{}{}
		<-nt.wake
		defer func() {
			if e := recover(); e != nil {
				if _, ok := e.(abortT); !ok {
					if r.Failure == "" {
						r.Failure = fmt.Sprintf("panic: %v", e)
						r.PanicStk = string(debug.Stack())
					}
					r.aborted = true
				}
			}
			r.finish(nt)
		}()
		if r.aborted {
			return
		}
		fn()
		if !r.aborted {
			observe(nt)
		}
	}()
	<-reg
}

// FreeRunning is set by the free-running pass of engine A (explore -free): the harness threads run as
// ordinary goroutines under the race detector, no scheduler is active.
var FreeRunning bool

var (
	freeMu    sync.Mutex
	freeOwner int64
)

// Atomic runs fn without scheduling points (a macro step).
func Atomic(fn func()) {
	t := Cur()
	if t == nil {
		if FreeRunning {
			// free-running pass (race detector): the harness' own bookkeeping is serialised by a
			// re-entrant lock, which the cooperative scheduler otherwise makes unnecessary
			g := goid()
			if atomic.LoadInt64(&freeOwner) == g {
				fn()
				return
			}
			freeMu.Lock()
			atomic.StoreInt64(&freeOwner, g)
			defer func() { atomic.StoreInt64(&freeOwner, 0); freeMu.Unlock() }()
		}
		fn()
		return
	}
	t.noPoint++
	defer func() { t.noPoint-- }()
	fn()
}

// Logf appends a trace event (only when tracing).
func Logf(format string, a ...interface{}) {
	r := active.Load()
	if r == nil || !r.opts.Trace {
		return
	}
	t := r.cur
	r.Events = append(r.Events, tname(t)+": "+fmt.Sprintf(format, a...))
}

// Choices returns the full choice sequence of the run.
func (r *Run) Choices() []int {
	c := make([]int, len(r.Points))
	for i, p := range r.Points {
		c[i] = p.Chosen
	}
	return c
}

// Used returns the preemptions and deviations consumed.
func (r *Run) Used() (int, int) { return r.pre, r.dev }

// Signature is a string that must be identical for two runs of the same prefix.
func (r *Run) Signature() string {
	var b strings.Builder
	for _, p := range r.Points {
		fmt.Fprintf(&b, "%d.%d.%s.%d.%d|", p.Kind, p.Thread, p.Label, p.NAlts, p.Chosen)
	}
	b.WriteString(r.Failure)
	return b.String()
}

// SetMember sets the clock domain of the calling thread and returns the previous one.
func SetMember(m int) int {
	t := Cur()
	if t == nil {
		return 0
	}
	o := t.Member
	t.Member = m
	return o
}
