// Package vrand replaces "math/rand" in rewritten pd packages. Under an
// exploration every random draw is a Choose point, so every outcome is visited;
// otherwise it delegates to math/rand.
package vrand

import (
	"math/rand"

	"github.com/tikv/pd/pkg/verifshim/sched"
)

// Chooser, when set, owns every draw (sequential exhaustive enumeration, engine C).
var Chooser func(n int, label string) int

func choose(n int, label string) (int, bool) {
	if Chooser != nil {
		return Chooser(n, label), true
	}
	if sched.Cur() != nil {
		return sched.ChooseFree(n, label), true
	}
	return 0, false
}

// Rand mirrors *rand.Rand.
type Rand struct{ r *rand.Rand }

// Source is rand.Source.
type Source = rand.Source

// NewSource is rand.NewSource.
func NewSource(seed int64) Source { return rand.NewSource(seed) }

// New is rand.New.
func New(src Source) *Rand { return &Rand{r: rand.New(src)} }

// Seed is rand.Seed.
func Seed(seed int64) { rand.Seed(seed) } //nolint

func intn(n int, f func(int) int) int {
	if n <= 0 {
		panic("invalid argument to Intn")
	}
	if c, ok := choose(n, "rand.Intn"); ok {
		return c
	}
	return f(n)
}

// FloatPoints are the representative values of Float64 under exploration.
var FloatPoints = []float64{0, 0.25, 0.5, 0.75, 0.999999}

func float(f func() float64) float64 {
	if c, ok := choose(len(FloatPoints), "rand.Float64"); ok {
		return FloatPoints[c]
	}
	return f()
}

func perm(n int, f func(int) []int) []int {
	if _, ok := choose(1, ""); !ok && Chooser == nil && sched.Cur() == nil {
		return f(n)
	}
	p := make([]int, n)
	for i := range p {
		p[i] = i
	}
	for i := 0; i < n-1; i++ {
		j, _ := choose(n-i, "rand.Perm")
		p[i], p[i+j] = p[i+j], p[i]
	}
	return p
}

func shuffle(n int, swap func(i, j int), f func(int, func(i, j int))) {
	if Chooser == nil && sched.Cur() == nil {
		f(n, swap)
		return
	}
	for i := n - 1; i > 0; i-- {
		j, _ := choose(i+1, "rand.Shuffle")
		// default alternative 0 = keep position
		swap(i, i-j)
	}
}

func (r *Rand) Intn(n int) int { return intn(n, r.r.Intn) }
func (r *Rand) Int63n(n int64) int64 {
	return int64(intn(int(n), func(int) int { return int(r.r.Int63n(n)) }))
}
func (r *Rand) Int31n(n int32) int32 {
	return int32(intn(int(n), func(int) int { return int(r.r.Int31n(n)) }))
}
func (r *Rand) Float64() float64                   { return float(r.r.Float64) }
func (r *Rand) Perm(n int) []int                   { return perm(n, r.r.Perm) }
func (r *Rand) Shuffle(n int, swap func(i, j int)) { shuffle(n, swap, r.r.Shuffle) }
func (r *Rand) Int63() int64                       { return r.r.Int63() }
func (r *Rand) Int() int                           { return r.r.Int() }
func (r *Rand) Uint32() uint32                     { return r.r.Uint32() }
func (r *Rand) Seed(s int64)                       { r.r.Seed(s) }

func Intn(n int) int                     { return intn(n, rand.Intn) }
func Int63n(n int64) int64               { return int64(intn(int(n), func(int) int { return int(rand.Int63n(n)) })) }
func Int31n(n int32) int32               { return int32(intn(int(n), func(int) int { return int(rand.Int31n(n)) })) }
func Float64() float64                   { return float(rand.Float64) }
func Perm(n int) []int                   { return perm(n, rand.Perm) }
func Shuffle(n int, swap func(i, j int)) { shuffle(n, swap, rand.Shuffle) }
func Int63() int64                       { return rand.Int63() }
func Int() int                           { return rand.Int() }
func Int31() int32                       { return rand.Int31() }
func Uint32() uint32 {
	if t := sched.Cur(); t != nil {
		detCounter++
		return uint32(1000 + 97*t.ID + detCounter)
	}
	return rand.Uint32()
}

var detCounter int

// ResetDet resets the deterministic counter (called by harness set-up).
func ResetDet() { detCounter = 0 }
func Uint64() uint64                     { return rand.Uint64() }
func Read(p []byte) (int, error)         { return rand.Read(p) } //nolint
